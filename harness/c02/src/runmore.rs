//! C02, part RunMore — the tie of the NEW parts of the Lean whole-run model (`Cli.RunAll`,
//! lean/GrcovModel/Cli/RunAll.lean; driver ops `run.all`, `run.html`, `run.multi`) to the real grcov
//! binary, on top of the machinery of `runall.rs` (source trees, lcov / JaCoCo inputs, options,
//! decoders of the seven stream formats, independent aggregate and marker rule).
//!
//! * `runmore.gcno`  – whole runs whose inputs MIX LLVM-mode gcno/gcda items (notes and run data files
//!   made with C15's generator, spread over the directory arguments `in/g0`, `in/g1`, …: 0-3 gcda per
//!   stem, k copies / different flows / one with a wrong checksum or version, `--llvm` or sniffed
//!   `*204` / `*804` headers) with lcov tracefiles and JaCoCo reports; eight stream types (the seven
//!   and markdown with `--precision`): stdout == `RunAll.run`, byte for byte. Oracles independent of
//!   the model: the decoded report is the aggregate of what each input contains (a gcno item: what
//!   `Gcno::compute` returns in-process) after the marker rule; k copies of one gcda report k times
//!   the counts of one copy and the same structure as no gcda at all (C15 at run level); a second run
//!   with another argument order / thread count writes the same bytes up to the order of file records.
//! * `runmore.html`  – `-t html -o out`: EVERY file below the output directory == `RunAll.runHtml`
//!   (pages, indexes, badges, coverage.json; the bundled style sheet by name). Oracles: one page per
//!   reported file whose source can be opened (reported = the lcov run with the same options), the
//!   per-line counts of every page are the DA counts of that run.
//! * `runmore.multi` – several `-t` with `-o <existing directory>`: every file below the directory ==
//!   `RunAll.runMulti`.
#![allow(dead_code)]
#[allow(dead_code)]
#[path = "../../c15/src/gcno.rs"]
mod gcno;

use crate::runall;
use corrlib::pipe::*;
use corrlib::*;
use gcno::{encode_gcda, encode_gcno, gcda_for, gen_flow, gen_fn, GenFn, LineItem, Notes};
use grcov::CovResult;
use serde_json::{json, Value};
use std::collections::{BTreeMap, BTreeSet};
use std::path::{Path, PathBuf};
use std::time::Duration;

const SRC_POOL: &[&str] = &["a.c", "b.c", "lib/c.rs", "lib/deep/d.cpp", "e.h"];
/// files a notes file may name that are never in the source tree
const OFF_TREE: &[&str] = &["gone.c", "ext/none.h"];
const FN_POOL: &[(&str, u32)] = &[("main", 1), ("f", 3), ("g_h", 5), ("Cls::m", 7), ("top-level", 2)];
const MARKERS: [&str; 6] = ["NOCOV", "BEGINX", "ENDX", "NOBR", "BRBEGIN", "BREND"];
pub const STREAM_TYPES: &[&str] = &["lcov", "covdir", "coveralls", "coveralls+", "cobertura", "ade", "files", "markdown"];
const ALL_KINDS: &[&str] = &["lcov", "covdir", "coveralls", "coveralls+", "cobertura", "ade", "files", "markdown", "html"];
const PREFIXES: &[&str] = &["http://h/p", "/abs/root", "rel/pre"];

fn fixed_name(kind: &str) -> &'static str {
    match kind {
        "lcov" => "lcov",
        "covdir" => "covdir",
        "coveralls" => "coveralls",
        "coveralls+" => "coveralls+",
        "cobertura" => "cobertura.xml",
        "ade" => "activedata",
        "files" => "files",
        "markdown" => "markdown.md",
        _ => "html",
    }
}

// ---- the case ----------------------------------------------------------------------------------

#[derive(Clone, Debug)]
pub struct MCase {
    /// "gcno" | "html" | "multi"
    pub stream: String,
    /// tree (everything below the case directory, gcno / gcda files included), cwd, `-s`, the FILE
    /// inputs, type (html: "html"; multi: the first kind), selection options, markers, threads
    pub core: runall::Case,
    /// all path arguments (files and directories) in command-line order, relative to the cwd
    pub args: Vec<String>,
    /// gcno stems: the notes file is `in/g0/<stem>.gcno`, run data `in/g<j>/<stem>.gcda`
    pub stems: Vec<String>,
    pub llvm: bool,
    pub precision: Option<usize>,
    /// value of `--sort-output-types`; None = option absent (default: markdown)
    pub sort_types: Option<Vec<String>>,
    // html
    pub prefix: Option<String>,
    pub bundled: bool,
    pub no_date: bool,
    /// the `-o` directory exists (empty) before the run
    pub out_exists: bool,
    /// multi: the `-t` list
    pub kinds: Vec<String>,
    /// side tree `c15/` for the scaling oracle: (stem, k)
    pub c15: Option<(String, usize)>,
}

impl MCase {
    pub fn op(&self) -> String {
        format!("runmore.{}", self.stream)
    }
    pub fn to_json(&self) -> Value {
        let mut v = self.core.to_json(&self.op());
        v["args"] = json!(self.args);
        v["stems"] = json!(self.stems);
        v["llvm"] = json!(self.llvm);
        v["precision"] = json!(self.precision);
        v["sort_types"] = json!(self.sort_types);
        v["prefix"] = json!(self.prefix);
        v["bundled"] = json!(self.bundled);
        v["no_date"] = json!(self.no_date);
        v["out_exists"] = json!(self.out_exists);
        v["kinds"] = json!(self.kinds);
        v["c15"] = match &self.c15 {
            Some((s, k)) => json!([s, k]),
            None => Value::Null,
        };
        v
    }
    pub fn from_json(v: &Value) -> Option<MCase> {
        let strs = |x: &Value| -> Vec<String> { x.as_array().map(|a| a.iter().filter_map(|s| s.as_str().map(|s| s.to_string())).collect()).unwrap_or_default() };
        let op = v["op"].as_str()?;
        Some(MCase {
            stream: op.strip_prefix("runmore.")?.to_string(),
            core: runall::Case::from_json(v)?,
            args: strs(&v["args"]),
            stems: strs(&v["stems"]),
            llvm: v["llvm"].as_bool().unwrap_or(true),
            precision: v["precision"].as_u64().map(|p| p as usize),
            sort_types: if v["sort_types"].is_array() { Some(strs(&v["sort_types"])) } else { None },
            prefix: v["prefix"].as_str().map(|s| s.to_string()),
            bundled: v["bundled"].as_bool().unwrap_or(false),
            no_date: v["no_date"].as_bool().unwrap_or(true),
            out_exists: v["out_exists"].as_bool().unwrap_or(false),
            kinds: strs(&v["kinds"]),
            c15: v["c15"].as_array().and_then(|a| Some((a.first()?.as_str()?.to_string(), a.get(1)?.as_u64()? as usize))),
        })
    }
    pub fn canonical(&self) -> String {
        format!("{:?}", self)
    }
    fn plain_selection(&self) -> bool {
        let c = &self.core;
        c.ignore.is_empty() && c.keep.is_empty() && c.filter.is_none() && !c.ignore_not_existing
    }
    fn has_excl(&self) -> bool {
        let e = &self.core.excl;
        e[0] || e[1] || e[3] || e[4]
    }
    fn sorted_for(&self, ty: &str) -> bool {
        match &self.sort_types {
            None => ty == "markdown",
            Some(l) => l.iter().any(|t| t == ty),
        }
    }
    fn u_token(&self) -> String {
        match &self.sort_types {
            None => "markdown".to_string(),
            Some(l) => l.join(","),
        }
    }
    fn cwd(&self, dir: &Path) -> PathBuf {
        if self.core.cwd == "." { dir.to_path_buf() } else { dir.join(&self.core.cwd) }
    }
    /// a path below the case directory as the command line spells it
    fn from_cwd(&self, p: &str) -> String {
        if self.core.cwd == "." { p.to_string() } else { format!("../{}", p) }
    }
    fn tree_file(&self, p: &str) -> Option<&Vec<u8>> {
        self.core.tree.iter().find(|(q, _)| q == p).map(|(_, b)| b)
    }
    /// the directory arguments in command-line order, as `g<j>` indices
    fn dir_order(&self) -> Vec<usize> {
        self.args.iter().filter_map(|a| a.rsplit('/').next().and_then(|n| n.strip_prefix('g')).and_then(|j| j.parse().ok())).collect()
    }
    /// the gcda buffers of a stem as the producer collects them: every directory argument that has
    /// `<stem>.gcda`, in argument order
    fn gcdas_of(&self, stem: &str) -> Vec<Vec<u8>> {
        self.dir_order().iter().filter_map(|j| self.tree_file(&format!("in/g{}/{}.gcda", j, stem)).cloned()).collect()
    }
    /// `--filter covered` makes the producer drop a notes file without run data
    fn orphan_dropped(&self, stem: &str) -> bool {
        self.core.filter == Some(true) && self.gcdas_of(stem).is_empty()
    }
}

// ---- generation ----------------------------------------------------------------------------------

/// the core of `runall` (tree, options, markers) with `lo..=hi` file inputs
fn gen_core(rng: &mut Rng, ty: &str, need_src: bool, lo: u64, hi: u64) -> runall::Case {
    loop {
        let mut c = runall::gen_case(rng, false, ty);
        if need_src && !(c.source_dir || c.cwd == "src") {
            continue;
        }
        let keep = rng.range(lo, hi) as usize;
        while c.inputs.len() > keep {
            let (p, _) = c.inputs.pop().unwrap();
            let name = p.rsplit('/').next().unwrap().to_string();
            c.tree.retain(|(t, _)| t != &format!("in/{}", name));
        }
        return c;
    }
}

struct Stem {
    name: String,
    version: u32,
    gcno: Vec<u8>,
    gcdas: Vec<Vec<u8>>,
    /// "orphan" | "copies" | "flows"
    kind: &'static str,
    err: bool,
    huge: bool,
}

/// move a generated function to `file`, name it, and renumber its lines from `new_start`
fn place_fn(f: &mut GenFn, file: &str, name: &str, new_start: u32) {
    let old_file = f.file.clone();
    let old_start = f.start;
    for (_, items) in f.lines.iter_mut() {
        for it in items.iter_mut() {
            match it {
                LineItem::File(x) => {
                    if *x == old_file {
                        *x = file.as_bytes().to_vec();
                    }
                }
                LineItem::Line(l) => {
                    if *l >= old_start {
                        *l = *l - old_start + new_start;
                    }
                }
            }
        }
    }
    f.file = file.as_bytes().to_vec();
    f.name = name.as_bytes().to_vec();
    f.start = new_start;
    f.end = new_start + 9;
}

fn gen_stem(rng: &mut Rng, si: usize, name: &str, off_tree: bool) -> Stem {
    let version = *rng.pick(&[42u32, 42, 48, 48, 48, 122]);
    let checksum = rng.next() as u32;
    let nf = rng.range(1, 2) as u32;
    let mut fns: Vec<GenFn> = vec![];
    for i in 0..nf {
        let mut f = gen_fn(rng, version, i, true);
        let file = if off_tree && rng.chance(1, 2) { *rng.pick(OFF_TREE) } else { *rng.pick(SRC_POOL) };
        if rng.chance(1, 4) {
            // a function the tracefiles name too: same name, same start line
            let (n, st) = FN_POOL[(si + i as usize) % FN_POOL.len()];
            place_fn(&mut f, file, n, st);
        } else {
            place_fn(&mut f, file, &format!("k_{}_{}", si, i), 1 + 6 * i);
        }
        fns.push(f);
    }
    let mut recs = vec![];
    for f in &fns {
        recs.extend(f.recs());
    }
    let notes = Notes { version, checksum, recs };
    let gcno = encode_gcno(&notes);
    let k = rng.below(4) as usize;
    let copies = rng.chance(1, 2);
    let mut enc = rng.fork();
    // now and then counters near the top of u64 (no longer a flow): sums overflow, which kills the
    // worker in a build with overflow checks (known finding C14-gcno-counter-overflow): no report
    let huge = rng.chance(1, 20);
    let make = |rng: &mut Rng| -> gcno::Gcda {
        let parts: Vec<(&GenFn, Vec<u64>)> = fns.iter().map(|f| {
            let walks = rng.range(0, 4);
            let mut flow = gen_flow(rng, f, walks, 1);
            if huge {
                for v in flow.iter_mut() {
                    *v = *rng.pick(&[1u64 << 62, 1 << 63, u64::MAX, (1 << 63) - 1, 0, 1]);
                }
            }
            (f, flow)
        }).collect();
        gcda_for(version, checksum, &parts)
    };
    let mut ds: Vec<gcno::Gcda> = vec![];
    if k > 0 {
        if copies {
            let d = make(rng);
            ds = vec![d; k];
        } else {
            for _ in 0..k {
                ds.push(make(rng));
            }
        }
    }
    let mut err = false;
    if k > 0 && rng.chance(1, 6) {
        // one run data file that does not belong to the notes file: `Gcno::compute` returns Err
        let at = rng.below(k as u64) as usize;
        if rng.chance(1, 2) {
            ds[at].checksum = ds[at].checksum.wrapping_add(1 + rng.below(5) as u32);
        } else {
            ds[at].version = if version == 48 { 42 } else { 48 };
        }
        err = true;
    }
    // (k copies: the SAME bytes k times – `encode_gcda` draws the kind of its filler records)
    let gcdas: Vec<Vec<u8>> = if copies && !err && k > 0 {
        let b = encode_gcda(&ds[0], &mut enc);
        vec![b; k]
    } else {
        ds.iter().map(|d| encode_gcda(d, &mut enc)).collect()
    };
    Stem { name: name.to_string(), version, gcno, gcdas, kind: if k == 0 { "orphan" } else if copies { "copies" } else { "flows" }, err, huge }
}

/// put the stems into the tree, make the argument list (directories + file inputs, shuffled)
fn attach_stems(rng: &mut Rng, m: &mut MCase, stems: &[Stem]) {
    let mut ndirs = 1;
    for s in stems {
        m.core.tree.push((format!("in/g0/{}.gcno", s.name), s.gcno.clone()));
        for (j, b) in s.gcdas.iter().enumerate() {
            m.core.tree.push((format!("in/g{}/{}.gcda", j, s.name), b.clone()));
        }
        ndirs = ndirs.max(s.gcdas.len());
        m.stems.push(s.name.clone());
    }
    let mut args: Vec<String> = m.core.inputs.iter().map(|i| i.0.clone()).collect();
    if !stems.is_empty() {
        for j in 0..ndirs {
            args.push(m.from_cwd(&format!("in/g{}", j)));
        }
    }
    rng.shuffle(&mut args);
    m.args = args;
    m.llvm = stems.iter().any(|s| s.version != 42 && s.version != 48) || rng.chance(1, 2);
}

fn blank(stream: &str, core: runall::Case) -> MCase {
    MCase { stream: stream.to_string(), core, args: vec![], stems: vec![], llvm: false, precision: None, sort_types: None, prefix: None, bundled: false,
        no_date: true, out_exists: false, kinds: vec![], c15: None }
}

fn stem_names(rng: &mut Rng, n: usize) -> Vec<&'static str> {
    let mut v = vec!["x", "sub/y"];
    if rng.chance(1, 2) {
        v.reverse();
    }
    v.truncate(n);
    v
}

/// `round` = how many times the type rotation has come round: it fixes what must not be left to luck
/// in a small tier (the scaling oracle's case class, the markdown precisions)
pub fn gen_gcno_case(rng: &mut Rng, ty: &str, round: u64) -> MCase {
    let mut core = gen_core(rng, ty, false, 0, 3);
    let want_scaling = ty == "lcov" && round % 3 != 2;
    if want_scaling {
        // the scaling oracle wants a plain selection
        core.ignore.clear();
        core.keep.clear();
        core.filter = None;
        core.ignore_not_existing = false;
    }
    let mut m = blank("gcno", core);
    let ns = rng.range(1, 2) as usize;
    let names = stem_names(rng, ns);
    let off = rng.chance(1, 4);
    let mut stems: Vec<Stem> = names.iter().enumerate().map(|(si, n)| gen_stem(rng, si, n, off)).collect();
    if want_scaling && !(stems[0].kind == "copies" && stems[0].gcdas.len() >= 2 && !stems[0].err && !stems[0].huge) {
        // make the first stem a k-copies one
        for _ in 0..20 {
            let s = gen_stem(rng, 0, names[0], off);
            if s.kind == "copies" && s.gcdas.len() >= 2 && !s.err && !s.huge {
                stems[0] = s;
                break;
            }
        }
    }
    attach_stems(rng, &mut m, &stems);
    if let Some(s) = stems.iter().find(|s| s.kind == "copies" && s.gcdas.len() >= 2 && !s.err && !s.huge) {
        if ty == "lcov" {
            let k = s.gcdas.len();
            m.core.tree.push((format!("c15/d0/{}.gcno", s.name), s.gcno.clone()));
            m.core.tree.push((format!("c15/o/{}.gcno", s.name), s.gcno.clone()));
            for j in 0..k {
                m.core.tree.push((format!("c15/d{}/{}.gcda", j, s.name), s.gcdas[0].clone()));
            }
            m.c15 = Some((s.name.clone(), k));
        }
    }
    if ty == "markdown" {
        m.precision = [Some(1), None, Some(4), Some(0), Some(2), Some(3)][(round % 6) as usize];
        // sorted by default; unsorted only when the list names other types
        m.sort_types = if m.core.sorted { if rng.chance(1, 2) { None } else { Some(vec!["markdown".into()]) } } else { Some(vec!["lcov".into()]) };
    } else {
        m.sort_types = if m.core.sorted { Some(vec![ty.to_string()]) } else { None };
    }
    m
}

/// by rotation, so that a small tier meets every option value
fn gen_html_opts(m: &mut MCase, i: u64) {
    m.precision = [Some(0), Some(1), None, Some(2), Some(3), Some(4)][(i % 6) as usize];
    m.prefix = [None, Some(PREFIXES[0]), Some(PREFIXES[1]), Some(PREFIXES[2])][(i % 4) as usize].map(|p| p.to_string());
    m.bundled = i % 3 == 0;
    m.no_date = i % 3 != 1;
}

pub fn gen_html_case(rng: &mut Rng, i: u64) -> MCase {
    let with_gcno = i % 2 == 0;
    let mut core = gen_core(rng, "html", true, 1, 3);
    if rng.chance(2, 3) {
        // mostly a plain selection: pages are what this stream is about
        core.ignore.clear();
        core.keep.clear();
        core.filter = None;
        core.ignore_not_existing = false;
    }
    let mut m = blank("html", core);
    let stems: Vec<Stem> = if with_gcno { let n = stem_names(rng, 1); let off = rng.chance(1, 4); vec![gen_stem(rng, 0, n[0], off)] } else { vec![] };
    attach_stems(rng, &mut m, &stems);
    gen_html_opts(&mut m, i);
    m.sort_types = if i % 3 == 2 { Some(vec!["html".into()]) } else { None };
    m.core.sorted = m.sort_types.is_some();
    m.out_exists = (i / 2) % 2 == 1;
    m.core.threads = 1 + (i % 4) as usize;
    m
}

pub fn gen_multi_case(rng: &mut Rng, idx: u64) -> MCase {
    let nk = rng.range(2, 4) as usize;
    let mut kinds: Vec<String> = vec![];
    // two kinds by rotation (eight cases cover the nine kinds), the others drawn
    const ROT: &[&str] = &["html", "markdown", "covdir", "coveralls+", "lcov", "cobertura", "ade", "files", "coveralls"];
    kinds.push(ROT[(idx as usize) % ROT.len()].to_string());
    kinds.push(ROT[(idx as usize + 4) % ROT.len()].to_string());
    while kinds.len() < nk {
        let k = rng.pick(ALL_KINDS).to_string();
        if !kinds.contains(&k) {
            kinds.push(k);
        }
    }
    rng.shuffle(&mut kinds);
    let both_cv = kinds.iter().any(|k| k == "coveralls") && kinds.iter().any(|k| k == "coveralls+");
    let with_gcno = idx % 2 == 1;
    let mut core = gen_core(rng, &kinds[0], kinds.iter().any(|k| k == "html"), if with_gcno { 0 } else { 1 }, 3);
    if both_cv {
        // the model has ONE list of source digests for both documents; the digest of a file that
        // cannot be read is a fresh random UUID per document: give every named file a source
        while !(core.cwd == "." && core.source_dir) {
            core = gen_core(rng, &kinds[0], true, if with_gcno { 0 } else { 1 }, 3);
        }
        for f in SRC_POOL {
            if !core.tree.iter().any(|(p, _)| p == &format!("src/{}", f)) {
                core.tree.push((format!("src/{}", f), b"line 1\nline 2\n".to_vec()));
            }
        }
    }
    let mut m = blank("multi", core);
    let stems: Vec<Stem> = if with_gcno { let n = stem_names(rng, 1); let off = !both_cv && rng.chance(1, 4); vec![gen_stem(rng, 0, n[0], off)] } else { vec![] };
    attach_stems(rng, &mut m, &stems);
    gen_html_opts(&mut m, idx + 1);
    m.kinds = kinds.clone();
    m.sort_types = if rng.chance(1, 4) {
        None
    } else {
        let mut l: Vec<String> = ALL_KINDS.iter().filter(|_| rng.chance(1, 3)).map(|k| k.to_string()).collect();
        if l.is_empty() {
            l.push(rng.pick(ALL_KINDS).to_string());
        }
        rng.shuffle(&mut l);
        Some(l)
    };
    if both_cv {
        // … and list them in the same order in both
        let a = m.sorted_for("coveralls");
        if a != m.sorted_for("coveralls+") {
            let l = m.sort_types.get_or_insert_with(|| vec!["markdown".into()]);
            if a { l.push("coveralls+".into()) } else { l.push("coveralls".into()) }
        }
    }
    m.core.sorted = false;
    m.core.threads = 1 + (idx % 4) as usize;
    m.out_exists = true;
    m
}

// ---- running the real binary ---------------------------------------------------------------------

/// everything after the path arguments and `--threads`
fn cli(m: &MCase, types: &[String], with_excl: bool, out: Option<&str>) -> Vec<String> {
    let mut c0 = m.core.clone();
    c0.ty = "lcov".into();
    c0.sorted = false;
    let mut a = runall::extra_args(&c0, with_excl);
    a.drain(0..2); // "-t lcov"
    for t in types {
        a.push("-t".into());
        a.push(t.clone());
    }
    if let Some(l) = &m.sort_types {
        a.push("--sort-output-types".into());
        a.push(l.join(","));
    }
    if types.iter().any(|t| t.starts_with("coveralls")) {
        for (k, v) in [("--token", "tok"), ("--service-name", "svc"), ("--service-number", "1"), ("--service-job-id", "2"),
                       ("--service-pull-request", "3"), ("--commit-sha", "sha"), ("--vcs-branch", "main")] {
            a.push(k.into());
            a.push(v.into());
        }
    }
    if m.llvm {
        a.push("--llvm".into());
    }
    if let Some(p) = m.precision {
        a.push("--precision".into());
        a.push(p.to_string());
    }
    if types.iter().any(|t| t == "html") {
        a.push("--html-resources".into());
        a.push(if m.bundled { "bundled" } else { "cdn" }.into());
        if m.no_date {
            a.push("--no-date".into());
        }
        if let Some(p) = &m.prefix {
            a.push("--abs-link-prefix".into());
            a.push(p.clone());
        }
    }
    if let Some(o) = out {
        a.push("-o".into());
        a.push(o.to_string());
    }
    a
}

fn run_bin(dir: &Path, m: &MCase, args: &[String], threads: usize, extra: Vec<String>, perturb: Option<u64>) -> RunOut {
    let cwd = m.cwd(dir);
    run_grcov(&RunCfg { dir: &cwd, args: args.to_vec(), threads, perturb, fault: None, limit: Duration::from_secs(90), extra })
}

fn collect_files(dir: &Path, base: &Path, out: &mut BTreeMap<String, Vec<u8>>) {
    if let Ok(rd) = std::fs::read_dir(dir) {
        for e in rd.flatten() {
            let p = e.path();
            if p.is_dir() {
                collect_files(&p, base, out);
            } else {
                out.insert(p.strip_prefix(base).unwrap().to_str().unwrap().to_string(), std::fs::read(&p).unwrap_or_default());
            }
        }
    }
}

fn find(h: &[u8], n: &[u8]) -> Option<usize> {
    if n.is_empty() || h.len() < n.len() {
        return None;
    }
    (0..=h.len() - n.len()).find(|&i| &h[i..i + n.len()] == n)
}

/// the text of the footer's date on a real page
fn page_date(b: &[u8]) -> Option<String> {
    let pat = b"<p class=\"heading\">Date: ";
    let i = find(b, pat)?;
    let rest = &b[i + pat.len()..];
    let j = find(rest, b"</p>")?;
    Some(String::from_utf8_lossy(&rest[..j]).to_string())
}

// ---- markdown: decoder, projection ----------------------------------------------------------------

/// rows of the table: (file, coverage, covered, missed)
fn md_rows(text: &str) -> Result<Vec<[String; 4]>, String> {
    let mut rows = vec![];
    let mut it = text.lines();
    let head = it.next().unwrap_or("");
    if !head.starts_with('|') {
        return Err(format!("no table header: {:?}", head));
    }
    let cells = |l: &str| -> Vec<String> { l.trim().trim_start_matches('|').trim_end_matches('|').split('|').map(|c| c.trim().to_string()).collect() };
    if cells(head) != ["file", "coverage", "covered", "missed_lines"] {
        return Err(format!("unexpected header {:?}", head));
    }
    let sep = it.next().unwrap_or("");
    if !sep.starts_with("|-") {
        return Err("no separator line".into());
    }
    let mut total_seen = false;
    for l in it {
        if l.starts_with('|') && !total_seen {
            let c = cells(l);
            if c.len() != 4 {
                return Err(format!("a row with {} cells", c.len()));
            }
            rows.push([c[0].clone(), c[1].clone(), c[2].clone(), c[3].clone()]);
        } else if l.starts_with("Total coverage: ") {
            total_seen = true;
        } else if !l.is_empty() {
            return Err(format!("unexpected line {:?}", l));
        }
    }
    if !total_seen {
        return Err("no total line".into());
    }
    Ok(rows)
}

fn decode_any(ty: &str, text: &str) -> Result<(runall::Obs, Vec<String>), String> {
    if ty != "markdown" {
        return runall::decode(ty, text);
    }
    let mut obs = runall::Obs::new();
    let mut order = vec![];
    for r in md_rows(text)? {
        order.push(r[0].clone());
        if obs.insert(r[0].clone(), format!("C{};M{}", r[2].replace(' ', ""), r[3])).is_some() {
            return Err(format!("file {} listed twice", r[0]));
        }
    }
    Ok((obs, order))
}

/// what the markdown table carries of a record: lines with a count > 0 / lines, and the maximal runs
/// of neighbouring line ENTRIES without a hit
fn project_any(ty: &str, c: &CovResult) -> String {
    if ty != "markdown" {
        return runall::project(ty, c);
    }
    let covered = c.lines.values().filter(|n| **n > 0).count();
    let mut runs: Vec<(u32, u32)> = vec![];
    let mut cur: Option<(u32, u32)> = None;
    for (&l, &n) in &c.lines {
        if n == 0 {
            cur = Some(match cur { None => (l, l), Some((s, _)) => (s, l) });
        } else if let Some(r) = cur.take() {
            runs.push(r);
        }
    }
    if let Some(r) = cur {
        runs.push(r);
    }
    let missed: Vec<String> = runs.iter().map(|(s, e)| if s == e { s.to_string() } else { format!("{}-{}", s, e) }).collect();
    format!("C{}/{};M{}", covered, c.lines.len(), missed.join(", "))
}

fn canon_any(ty: &str, text: &str) -> Result<String, String> {
    if ty != "markdown" {
        return runall::canon(ty, text);
    }
    let mut head = vec![];
    let mut rows = vec![];
    let mut tail = vec![];
    for (i, l) in text.split_inclusive('\n').enumerate() {
        if i < 2 { head.push(l) } else if l.starts_with('|') { rows.push(l) } else { tail.push(l) }
    }
    rows.sort();
    Ok(format!("{}{}{}", head.concat(), rows.concat(), tail.concat()))
}

fn params_any(ty: &str, text: &str) -> runall::Params {
    if ty != "markdown" {
        return runall::read_params(ty, text);
    }
    let mut p = runall::Params::default();
    p.rec_order = md_rows(text).map(|r| r.into_iter().map(|x| x[0].clone()).collect()).unwrap_or_default();
    p
}

// ---- the request ---------------------------------------------------------------------------------

fn walk_files(d: &Path, out: &mut Vec<PathBuf>) {
    if let Ok(rd) = std::fs::read_dir(d) {
        let mut es: Vec<PathBuf> = rd.flatten().map(|e| e.path()).collect();
        es.sort();
        for p in es {
            if p.is_dir() { walk_files(&p, out) } else { out.push(p) }
        }
    }
}

struct ReqExtra<'a> {
    rec_order: &'a [String],
    items: &'a [String],
    raws: bool,
    date: Option<String>,
    html: bool,
}

/// `dir` canonical; `fs` = `runall::scan_fs(dir)` taken before the run
fn request(op: &str, ttoken: &str, dir: &Path, m: &MCase, fs: &(Vec<String>, Vec<String>), x: &ReqExtra) -> String {
    let c = &m.core;
    let cwd = m.cwd(dir);
    let sd = if c.source_dir { Some(dir.join("src").to_str().unwrap().to_string()) } else { None };
    let mut s = format!(
        "{} T{} U{} B{} {} {} M- {} {} E{} F{} W{} {} {} Q{} |",
        op,
        ttoken,
        m.u_token(),
        if c.branch { 1 } else { 0 },
        runall::opt_arg('S', &sd),
        runall::opt_arg('P', &sd),
        runall::list_arg('I', 'g', &c.ignore),
        runall::list_arg('K', 'g', &c.keep),
        if c.ignore_not_existing { 1 } else { 0 },
        match c.filter { None => "n", Some(true) => "t", Some(false) => "f" },
        hex(cwd.to_str().unwrap().as_bytes()),
        runall::list_arg('D', 'p', &fs.0),
        runall::list_arg('X', 'p', &fs.1),
        (0..6).map(|i| if c.excl[i] { hex(MARKERS[i].as_bytes()) } else { "-".to_string() }).collect::<Vec<_>>().join(","),
    );
    for a in &m.args {
        if let Some((_, jac)) = c.inputs.iter().find(|i| &i.0 == a) {
            let bytes = std::fs::read(cwd.join(a)).unwrap();
            s.push_str(&format!(" {}{}", if *jac { 'j' } else { 'l' }, hex(&bytes)));
        }
    }
    for st in &m.stems {
        if m.orphan_dropped(st) {
            continue;
        }
        let g = m.tree_file(&format!("in/g0/{}.gcno", st)).cloned().unwrap_or_default();
        let ds: Vec<String> = m.gcdas_of(st).iter().map(|d| hex(d)).collect();
        s.push_str(&format!(" k{}={}={}", hex(st.as_bytes()), hex(&g), ds.join(",")));
    }
    let mut srcs = vec![];
    walk_files(&dir.join("src"), &mut srcs);
    for f in &srcs {
        if f.file_name().map(|n| n == "events.log").unwrap_or(false) {
            continue;
        }
        let p = f.to_str().unwrap();
        if let Ok(t) = std::fs::read_to_string(f) {
            s.push_str(&format!(" y{}={}", hex(p.as_bytes()), hex(t.as_bytes())));
        }
        if x.raws {
            if let Ok(b) = std::fs::read(f) {
                s.push_str(&format!(" r{}={}", hex(p.as_bytes()), hex(&b)));
            }
        }
    }
    for r in x.rec_order {
        s.push_str(&format!(" h{}", hex(r.as_bytes())));
    }
    for i in x.items {
        s.push(' ');
        s.push_str(i);
    }
    if let Some(p) = m.precision {
        s.push_str(&format!(" oprecision={}", p));
    }
    if x.html {
        if let Some(d) = &x.date {
            s.push_str(&format!(" odate={}", hex(d.as_bytes())));
        }
        s.push_str(&format!(" obundled={}", if m.bundled { 1 } else { 0 }));
        if let Some(p) = &m.prefix {
            s.push_str(&format!(" oprefix={}", hex(p.as_bytes())));
        }
    }
    s
}

// ---- what the inputs contain (in-process) -----------------------------------------------------------

struct Contents {
    parsed: runall::Parsed,
    /// a gcno item makes `Gcno::compute` panic (debug-build counter overflow): the worker dies
    crash: bool,
    n_err: usize,
}

fn contents(dir: &Path, m: &MCase, rep: &mut Report) -> Contents {
    let mut parsed = runall::parse_inputs(dir, &m.core);
    let pre = format!("runmore.{}.in", m.stream);
    if m.core.inputs.iter().any(|i| i.1) {
        rep.count(&format!("{}.with_jacoco", pre));
    }
    if m.core.inputs.iter().any(|i| !i.1) {
        rep.count(&format!("{}.with_lcov", pre));
    }
    if parsed.per_input.iter().any(|p| p.is_none()) {
        rep.count(&format!("{}.with_rejected", pre));
    }
    if m.stems.is_empty() {
        rep.count(&format!("{}.no_gcno", pre));
    }
    let mut crash = false;
    let mut n_err = 0;
    for st in &m.stems {
        let ds = m.gcdas_of(st);
        rep.count(&format!("{}.gcno.k={}", pre, ds.len()));
        if m.orphan_dropped(st) {
            rep.count(&format!("{}.gcno.orphan_dropped_by_filter_covered", pre));
            continue;
        }
        let g = m.tree_file(&format!("in/g0/{}.gcno", st)).cloned().unwrap_or_default();
        let branch = m.core.branch;
        let stem = st.clone();
        match guarded(move || grcov::Gcno::compute(&stem, g, ds, branch)) {
            Ok(Ok(r)) => parsed.per_input.push(Some(r)),
            Ok(Err(_)) => {
                rep.count(&format!("{}.gcno.err", pre));
                n_err += 1;
                parsed.per_input.push(None);
            }
            Err(_) => {
                rep.count(&format!("{}.gcno.crash", pre));
                crash = true;
            }
        }
    }
    Contents { parsed, crash, n_err }
}

/// in-process outcome of every gcno item with its gcda files in the order of `m.args`:
/// 'o' accepted, 'e' `Err` (item skipped), 'c' the u64 overflow panic in src/reader.rs, 'p' another panic, '-' not sent
fn gcno_outcomes(m: &MCase) -> Vec<(char, String)> {
    m.stems.iter().map(|st| {
        if m.orphan_dropped(st) {
            return ('-', String::new());
        }
        let ds = m.gcdas_of(st);
        let g = m.tree_file(&format!("in/g0/{}.gcno", st)).cloned().unwrap_or_default();
        let (branch, stem) = (m.core.branch, st.clone());
        match guarded(move || grcov::Gcno::compute(&stem, g, ds, branch)) {
            Ok(Ok(_)) => ('o', String::new()),
            Ok(Err(e)) => ('e', e.to_string()),
            Err(msg) => (if msg.contains("reader.rs") && msg.contains("with overflow") { 'c' } else { 'p' }, msg),
        }
    }).collect()
}

fn expected_obs(ty: &str, dir: &Path, m: &MCase, cont: &Contents) -> runall::Obs {
    runall::expected(dir, &m.core, &cont.parsed, true).iter().map(|(k, c)| (k.clone(), project_any(ty, c))).collect()
}

// ---- pending comparisons ----------------------------------------------------------------------------

pub enum Real {
    Bytes(Vec<u8>),
    /// files below the output directory; names that must exist without their content being compared
    Files(BTreeMap<String, Vec<u8>>, Vec<String>),
}

pub struct Pending {
    pub req: String,
    pub real: Real,
    pub exit: Option<i32>,
    pub case: Value,
    pub what: String,
    pub stream: String,
}

fn excerpt(b: &[u8], at: usize) -> String {
    let lo = at.saturating_sub(60);
    let hi = (at + 60).min(b.len());
    String::from_utf8_lossy(&b[lo..hi]).to_string()
}

fn parse_files_answer(a: &str) -> Option<BTreeMap<String, Vec<u8>>> {
    let rest = a.strip_prefix("ok")?;
    let mut m = BTreeMap::new();
    for tok in rest.split_whitespace() {
        let (p, b) = tok.split_once('=')?;
        m.insert(String::from_utf8_lossy(&unhex(p)).to_string(), unhex(b));
    }
    Some(m)
}

pub fn compare(rep: &mut Report, pend: &[Pending], tag: &str) {
    if pend.is_empty() {
        return;
    }
    let reqs: Vec<String> = pend.iter().map(|p| p.req.clone()).collect();
    let ans = run_model(&reqs, &rep.workdir, tag);
    for (p, a) in pend.iter().zip(ans.iter()) {
        let a = a.trim_end();
        let key = format!("runmore.{}.tie", p.stream);
        let mut diff: Option<Value> = None;
        match (&p.real, p.exit) {
            (_, None) => {}
            (Real::Bytes(b), Some(0)) => {
                if a != format!("ok {}", hex(b)).trim_end() {
                    let model = a.strip_prefix("ok").map(|h| unhex(h.trim())).unwrap_or_default();
                    let at = b.iter().zip(model.iter()).position(|(x, y)| x != y).unwrap_or(b.len().min(model.len()));
                    diff = Some(json!({"offset": at, "real": excerpt(b, at), "model": if a.starts_with("ok") { excerpt(&model, at) } else { a.chars().take(60).collect() },
                        "real_len": b.len(), "model_len": model.len()}));
                }
            }
            (Real::Files(files, named), Some(0)) => match parse_files_answer(a) {
                None => diff = Some(json!({"model": a.chars().take(60).collect::<String>(), "real_files": files.keys().collect::<Vec<_>>()})),
                Some(model) => {
                    let mut real = files.clone();
                    for n in named {
                        real.remove(n);
                    }
                    let names: BTreeSet<&String> = real.keys().chain(model.keys()).collect();
                    for n in names {
                        match (real.get(n), model.get(n)) {
                            (Some(x), Some(y)) if x == y => {}
                            (Some(x), Some(y)) => {
                                let at = x.iter().zip(y.iter()).position(|(a, b)| a != b).unwrap_or(x.len().min(y.len()));
                                diff = Some(json!({"file": n, "offset": at, "real": excerpt(x, at), "model": excerpt(y, at), "real_len": x.len(), "model_len": y.len()}));
                            }
                            (Some(_), None) => diff = Some(json!({"file": n, "problem": "written by the binary, absent from the model's answer"})),
                            (None, _) => diff = Some(json!({"file": n, "problem": "in the model's answer, not written by the binary"})),
                        }
                        if diff.is_some() {
                            break;
                        }
                    }
                }
            },
            // exit 101: a panic of the main thread; exit 1: a dead worker / html consumer (every case of
            // these streams has an input the producer accepts, so the producer itself never gives up)
            (Real::Bytes(_), Some(_)) => {
                if a != "panic" {
                    diff = Some(json!({"model": a.chars().take(60).collect::<String>(), "real": "exit status != 0"}));
                }
            }
            (Real::Files(..), Some(_)) => {
                if a != "panic" {
                    diff = Some(json!({"model": a.chars().take(60).collect::<String>(), "real": "exit status != 0"}));
                }
            }
        }
        match diff {
            None => rep.count(&format!("{}.agree", key)),
            Some(d) => {
                rep.disagreements_checked += 1;
                rep.fail("disagreement", None,
                    format!("{}: the real run differs from the Lean whole-run model on the same inputs, tree and options (byte comparison; exit {:?})", p.what, p.exit),
                    json!({"case": p.case, "request_len": p.req.len(), "first_difference": d}));
            }
        }
    }
}

// ---- stream A: gcno inputs, eight stream types -------------------------------------------------------

fn count_common(rep: &mut Report, m: &MCase) {
    let pre = format!("runmore.{}", m.stream);
    rep.count(&format!("{}.threads={}", pre, m.core.threads));
    rep.count(&format!("{}.layout.{}{}", pre, m.core.cwd, if m.core.source_dir { "+s" } else { "" }));
    rep.count(&format!("{}.markers.{}", pre, if m.has_excl() { "effective" } else { "none_or_inert" }));
    rep.count(&format!("{}.selection.{}", pre, if m.plain_selection() { "plain" } else { "filtered" }));
    rep.count(&format!("{}.branch={}", pre, m.core.branch));
    if !m.stems.is_empty() {
        rep.count(&format!("{}.llvm_flag={}", pre, m.llvm));
    }
}

/// DA / FN / FNDA records of an lcov report, per file
fn lcov_struct(text: &str) -> BTreeMap<String, (BTreeMap<u32, u64>, Vec<String>)> {
    let mut m = BTreeMap::new();
    let mut cur = String::new();
    for l in text.lines() {
        if let Some(sf) = l.strip_prefix("SF:") {
            cur = sf.to_string();
            m.entry(cur.clone()).or_insert_with(|| (BTreeMap::new(), vec![]));
        } else if let Some(r) = l.strip_prefix("DA:") {
            if let Some((a, b)) = r.split_once(',') {
                let e: &mut (BTreeMap<u32, u64>, Vec<String>) = m.entry(cur.clone()).or_default();
                e.0.insert(a.parse().unwrap_or(0), b.parse().unwrap_or(u64::MAX));
            }
        } else if l.starts_with("FN:") || l.starts_with("FNDA:") {
            let e: &mut (BTreeMap<u32, u64>, Vec<String>) = m.entry(cur.clone()).or_default();
            e.1.push(l.to_string());
        }
    }
    m
}

/// C15 at run level on the side tree `c15/`: k copies == k × one copy; no gcda == same structure, zeros
fn c15_oracle(rep: &mut Report, dir: &Path, m: &MCase, case: &Value) {
    let Some((stem, k)) = &m.c15 else { return };
    rep.count(&format!("runmore.gcno.oracle.c15_scaling.k={}", k));
    let types = vec!["lcov".to_string()];
    let mut m1 = m.clone();
    m1.llvm = true;
    m1.sort_types = None;
    let run = |dirs: Vec<String>| -> RunOut { run_bin(dir, &m1, &dirs.iter().map(|d| m.from_cwd(d)).collect::<Vec<_>>(), 2, cli(&m1, &types, true, None), None) };
    let many = run((0..*k).map(|j| format!("c15/d{}", j)).collect());
    let one = run(vec!["c15/d0".into()]);
    let none = run(vec!["c15/o".into()]);
    if many.exit != Some(0) || one.exit != Some(0) || none.exit != Some(0) {
        rep.fail("oracle", None, format!("scaling runs on stem {} (k = {}, one copy, no gcda) end with {:?} / {:?} / {:?}", stem, k, many.exit, one.exit, none.exit), case.clone());
        return;
    }
    let (a, b, z) = (lcov_struct(&many.stdout), lcov_struct(&one.stdout), lcov_struct(&none.stdout));
    let files: BTreeSet<&String> = a.keys().chain(b.keys()).chain(z.keys()).collect();
    rep.count_n("runmore.gcno.oracle.c15_scaling.files", files.len() as u64);
    rep.count_n("runmore.gcno.oracle.c15_scaling.lines_with_a_count", b.values().map(|v| v.0.values().filter(|n| **n > 0).count() as u64).sum());
    for f in files {
        let (Some(x), Some(y), Some(w)) = (a.get(f), b.get(f), z.get(f)) else {
            rep.fail("oracle", None, format!("stem {}: file {} is not in all three reports (k copies / one copy / no gcda)", stem, f), case.clone());
            return;
        };
        let scaled: BTreeMap<u32, u64> = y.0.iter().map(|(l, n)| (*l, n.saturating_mul(*k as u64))).collect();
        if x.0 != scaled || x.1 != y.1 {
            rep.fail("oracle", None, format!("stem {}: {} copies of one gcda do not report {} times the counts of one copy (same FN / FNDA records) for {}", stem, k, k, f),
                json!({"case": case, "k_copies": many.stdout, "one_copy": one.stdout}));
            return;
        }
        let fn_names = |v: &Vec<String>| -> Vec<String> { v.iter().filter(|l| l.starts_with("FN:")).cloned().collect() };
        if w.0.keys().collect::<Vec<_>>() != y.0.keys().collect::<Vec<_>>() || w.0.values().any(|n| *n != 0) || fn_names(&w.1) != fn_names(&y.1) {
            rep.fail("oracle", None, format!("stem {}: the report without run data has other lines / functions than the one with, or a count that is not 0, for {}", stem, f),
                json!({"case": case, "no_gcda": none.stdout, "one_copy": one.stdout}));
            return;
        }
    }
}

pub fn eval_gcno(rep: &mut Report, dir: &Path, m: &MCase) -> Option<Pending> {
    runall::materialise(dir, &m.core);
    let case = m.to_json();
    let ty = m.core.ty.clone();
    let fs = runall::scan_fs(dir);
    let types = vec![ty.clone()];
    let out = run_bin(dir, m, &m.args, m.core.threads, cli(m, &types, true, None), None);
    count_common(rep, m);
    rep.count(&format!("runmore.gcno.type.{}", ty));
    rep.count(if m.sorted_for(&ty) { "runmore.gcno.sorted" } else { "runmore.gcno.unsorted" });
    if ty == "markdown" {
        rep.count(&format!("runmore.gcno.markdown.precision={}", m.precision.map(|p| p.to_string()).unwrap_or("default".into())));
    }
    if out.exit.is_none() {
        rep.fail("oracle", None, "grcov did not terminate within 90 s".into(), case);
        return None;
    }
    let cont = contents(dir, m, rep);
    if out.exit != Some(0) {
        rep.count("runmore.gcno.exit_nonzero");
    }
    if out.exit == Some(0) && !cont.crash {
        match decode_any(&ty, &out.stdout) {
            Err(e) => rep.fail("oracle", None, format!("the {} report cannot be decoded: {}", ty, e), case.clone()),
            Ok((obs, order)) => {
                if m.plain_selection() {
                    rep.count("runmore.gcno.oracle.aggregate");
                    let want = expected_obs(&ty, dir, m, &cont);
                    if obs != want {
                        rep.fail("oracle", None, format!("the decoded report is not the aggregate of what each input contains (gcno items: what Gcno::compute returns) after the marker rule [{}]", ty),
                            json!({"case": case, "report": obs, "expected": want}));
                    }
                }
                if m.sorted_for(&ty) && ty != "covdir" {
                    let c = &m.core;
                    let abs_of = |rel: &String| -> String {
                        let p = dir.join("src").join(rel);
                        if c.source_dir || (c.cwd == "src" && p.exists()) { p.to_str().unwrap().to_string() } else { rel.clone() }
                    };
                    let mut s = order.clone();
                    s.sort_by_key(|r| abs_of(r));
                    if s != order {
                        rep.fail("oracle", None, format!("sorted {} report: the file records are not in path order", ty), json!({"case": case, "order": order}));
                    }
                }
                // a second run: other argument order (so: other gcda order), other thread count
                let mut args2 = m.args.clone();
                let mut r2 = Rng::new(fnv64(m.canonical().as_bytes()));
                r2.shuffle(&mut args2);
                args2.reverse();
                let t2 = 1 + (m.core.threads % 4);
                let out2 = run_bin(dir, m, &args2, t2, cli(m, &types, true, None), Some(fnv64(m.canonical().as_bytes()) % 100000));
                rep.count("runmore.gcno.oracle.second_run");
                let same = match (canon_any(&ty, &out.stdout), canon_any(&ty, &out2.stdout)) {
                    (Ok(a), Ok(b)) => a == b,
                    _ => false,
                };
                let same_sorted = !m.sorted_for(&ty) || runall::mask_timestamp(&out.stdout) == runall::mask_timestamp(&out2.stdout);
                if out2.exit != Some(0) {
                    // The second order ends without a report although the first one wrote one. Report
                    // bytes are not compared. The only explained way: a gcno item whose gcda list holds
                    // BOTH a gcda that `Gcno::compute` rejects (`Err`: the item is skipped, exit 0) and one
                    // whose counters overflow a u64 sum in reader.rs (debug build: panic, the worker dies,
                    // exit 1 – known finding C14-gcno-counter-overflow): whichever is read first decides.
                    // Matcher: (a) the dying run's stderr shows the overflow panic in src/reader.rs and it
                    // wrote nothing, (b) in-process, some stem is `Err` in the first order and the overflow
                    // panic in the second, (c) the model agrees for the second order (`panic`).
                    let mut m2 = m.clone();
                    m2.args = args2.clone();
                    let (o1, o2) = (gcno_outcomes(m), gcno_outcomes(&m2));
                    let order_flip = o1.iter().zip(o2.iter()).any(|(a, b)| a.0 == 'e' && b.0 == 'c');
                    let died_on_overflow = out2.exit == Some(1) && out2.stdout.is_empty() && out2.stderr.contains("reader.rs") && out2.stderr.contains("with overflow");
                    let params2 = runall::Params::default();
                    let x2 = ReqExtra { rec_order: &params2.rec_order, items: &params2.items, raws: false, date: None, html: false };
                    let req2 = request("run.all", &ty, dir, &m2, &fs, &x2);
                    let model2 = run_model(&[req2], &rep.workdir, "runmore_pair").into_iter().next().unwrap_or_default();
                    let model_dies = model2.trim_end() == "panic";
                    rep.count("runmore.gcno.oracle.second_run.dies");
                    if order_flip && died_on_overflow && model_dies {
                        rep.fail("oracle", Some("C14-gcno-counter-overflow"),
                            format!("argument order decides which failing gcda of a stem is read first: {:?} -> Gcno::compute returns Err before the overflowing gcda is read (item skipped, exit 0); {:?} -> the recorded debug-build u64 overflow in src/reader.rs kills the worker (exit 1, no report). The two runs differ only through known finding C14-gcno-counter-overflow (in-process outcomes per stem {:?} / {:?}; the model says panic for the second order as well)",
                                m.args, args2, o1.iter().map(|o| o.0).collect::<String>(), o2.iter().map(|o| o.0).collect::<String>()),
                            json!({"case": case, "second_args": args2, "second_stderr": out2.stderr.chars().take(600).collect::<String>()}));
                    } else {
                        rep.fail("oracle", None, format!("two runs on the same inputs (arguments {:?} / {:?}, --threads {} / {}): the first writes a {} report, the second ends with {:?} (in-process outcomes of the gcno items {:?} / {:?}, overflow panic in reader.rs on stderr: {}, model for the second order: {})",
                            m.args, args2, m.core.threads, t2, ty, out2.exit, o1.iter().map(|o| o.0).collect::<String>(), o2.iter().map(|o| o.0).collect::<String>(), died_on_overflow, model2.chars().take(20).collect::<String>()),
                            json!({"case": case, "first": out.stdout, "second": out2.stdout, "second_args": args2, "second_stderr": out2.stderr.chars().take(600).collect::<String>()}));
                    }
                } else if !same || !same_sorted {
                    rep.fail("oracle", None, format!("two runs on the same inputs (arguments {:?} / {:?}, --threads {} / {}) write {} reports whose bytes differ in more than the order of the file records (exit {:?})",
                        m.args, args2, m.core.threads, t2, ty, out2.exit), json!({"case": case, "first": out.stdout, "second": out2.stdout}));
                }
                if ty == "lcov" && m.plain_selection() {
                    c15_oracle(rep, dir, m, &case);
                }
            }
        }
    }
    let params = params_any(&ty, &out.stdout);
    let x = ReqExtra { rec_order: &params.rec_order, items: &params.items, raws: false, date: None, html: false };
    let req = request("run.all", &ty, dir, m, &fs, &x);
    Some(Pending { req, real: Real::Bytes(out.stdout.clone().into_bytes()), exit: out.exit, case, what: format!("{} {}", ty, if m.sorted_for(&ty) { "sorted" } else { "unsorted" }), stream: "gcno".into() })
}

// ---- stream B: html ----------------------------------------------------------------------------------

/// rows of a file page: (line number, aria-label of the count cell)
fn page_rows(page: &[u8]) -> Vec<(String, String)> {
    let text = String::from_utf8_lossy(page).to_string();
    let mut rows = vec![];
    for seg in text.split("role=\"row\">").skip(1) {
        let get = |pat: &str| -> String {
            seg.find(pat).map(|i| { let r = &seg[i + pat.len()..]; r[..r.find('"').unwrap_or(r.len())].to_string() }).unwrap_or_default()
        };
        rows.push((get("id=\""), get("aria-label=\"")));
    }
    rows
}

/// the oracles of an html directory: `site` = files below it
fn html_oracles(rep: &mut Report, dir: &Path, m: &MCase, site: &BTreeMap<String, Vec<u8>>, case: &Value, pre: &str) {
    let lcov = run_bin(dir, m, &m.args, m.core.threads, cli(m, &["lcov".to_string()], true, None), None);
    rep.count(&format!("{}.oracle.lcov_run", pre));
    if lcov.exit != Some(0) {
        rep.fail("oracle", None, format!("the lcov run with the options of the html run ends with {:?}", lcov.exit), case.clone());
        return;
    }
    if !site.contains_key("index.html") {
        rep.fail("oracle", None, "no index.html in the html directory".into(), case.clone());
    }
    let reported = lcov_struct(&lcov.stdout);
    let mut want_pages: BTreeSet<String> = BTreeSet::new();
    for (rel, (da, _)) in &reported {
        let src = dir.join("src").join(rel);
        let Ok(bytes) = std::fs::read(&src) else { continue };
        if !src.is_file() {
            continue;
        }
        let page = format!("{}.html", rel);
        want_pages.insert(page.clone());
        rep.count(&format!("{}.oracle.pages", pre));
        let Some(b) = site.get(&page) else { continue };
        let n = String::from_utf8_lossy(&bytes).lines().count();
        let rows = page_rows(b);
        rep.count_n(&format!("{}.oracle.page_rows", pre), rows.len() as u64);
        rep.count_n(&format!("{}.oracle.page_rows_with_a_count", pre), da.keys().filter(|l| (**l as usize) <= n).count() as u64);
        let want: Vec<(String, String)> = (1..=n).map(|i| (i.to_string(), match da.get(&(i as u32)) { None => "no coverage".to_string(), Some(c) => c.to_string() })).collect();
        if rows != want {
            rep.fail("oracle", None, format!("page {}: the rows (line number, count) are not the DA records of the lcov run for the lines of the source", page),
                json!({"case": case, "rows": rows, "expected": want}));
        }
    }
    let have: BTreeSet<String> = site.keys().filter(|k| k.ends_with(".html") && k.rsplit('/').next() != Some("index.html")).cloned().collect();
    if have != want_pages {
        rep.fail("oracle", None, "the pages are not: one `<rel>.html` per reported file whose source can be opened".into(),
            json!({"case": case, "pages": have, "expected": want_pages}));
    }
}

fn count_html(rep: &mut Report, m: &MCase, pre: &str) {
    rep.count(&format!("{}.html.precision={}", pre, m.precision.map(|p| p.to_string()).unwrap_or("default".into())));
    rep.count(&format!("{}.html.prefix={}", pre, m.prefix.clone().unwrap_or("none".into())));
    rep.count(&format!("{}.html.resources={}", pre, if m.bundled { "bundled" } else { "cdn" }));
    rep.count(&format!("{}.html.{}", pre, if m.no_date { "no_date" } else { "date" }));
    rep.count(&format!("{}.html.{}", pre, if m.sorted_for("html") { "sorted" } else { "unsorted" }));
}

pub fn eval_html(rep: &mut Report, dir: &Path, m: &MCase) -> Option<Pending> {
    runall::materialise(dir, &m.core);
    let case = m.to_json();
    let outd = dir.join("out");
    if m.out_exists {
        std::fs::create_dir_all(&outd).unwrap();
    }
    let fs = runall::scan_fs(dir);
    let types = vec!["html".to_string()];
    let out = run_bin(dir, m, &m.args, m.core.threads, cli(m, &types, true, Some(&m.from_cwd("out"))), None);
    count_common(rep, m);
    count_html(rep, m, "runmore.html");
    rep.count(&format!("runmore.html.out_dir.{}", if m.out_exists { "exists_empty" } else { "absent" }));
    if out.exit.is_none() {
        rep.fail("oracle", None, "grcov did not terminate within 90 s".into(), case);
        return None;
    }
    let cont = contents(dir, m, rep);
    // main.rs 58-78 `to_file_name`: with ONE type too, an existing `-o` directory gets the fixed name
    // appended (`out/html`); a path that does not exist is the directory itself
    let site_dir = if m.out_exists { outd.join("html") } else { outd.clone() };
    let mut site = BTreeMap::new();
    collect_files(&site_dir, &site_dir, &mut site);
    if m.out_exists {
        let mut all = BTreeMap::new();
        collect_files(&outd, &outd, &mut all);
        if let Some(k) = all.keys().find(|k| !k.starts_with("html/")) {
            rep.fail("oracle", None, format!("-t html -o <existing directory>: a file outside of <directory>/html: {}", k), case.clone());
        }
    }
    let date = if m.no_date { None } else { site.get("index.html").and_then(|b| page_date(b)) };
    if out.exit != Some(0) {
        rep.count("runmore.html.exit_nonzero");
    }
    if out.exit == Some(0) && !cont.crash {
        if site.contains_key("bulma.min.css") != m.bundled {
            rep.fail("oracle", None, format!("bulma.min.css {} although --html-resources {}", if m.bundled { "is missing" } else { "is written" }, if m.bundled { "bundled" } else { "cdn" }), case.clone());
        }
        if !m.no_date && date.is_none() {
            rep.fail("oracle", None, "no date on index.html although --no-date is not given".into(), case.clone());
        }
        html_oracles(rep, dir, m, &site, &case, "runmore.html");
    }
    let x = ReqExtra { rec_order: &[], items: &[], raws: true, date, html: true };
    let req = request("run.html", "html", dir, m, &fs, &x);
    Some(Pending { req, real: Real::Files(site, vec!["bulma.min.css".into()]), exit: out.exit, case, what: "html directory".into(), stream: "html".into() })
}

// ---- stream C: several -t with -o <existing directory> --------------------------------------------------

pub fn eval_multi(rep: &mut Report, dir: &Path, m: &MCase) -> Option<Pending> {
    runall::materialise(dir, &m.core);
    let case = m.to_json();
    let outd = dir.join("out");
    std::fs::create_dir_all(&outd).unwrap();
    let fs = runall::scan_fs(dir);
    let out = run_bin(dir, m, &m.args, m.core.threads, cli(m, &m.kinds, true, Some(&m.from_cwd("out"))), None);
    count_common(rep, m);
    rep.count(&format!("runmore.multi.n_types={}", m.kinds.len()));
    for k in &m.kinds {
        rep.count(&format!("runmore.multi.kind.{}", k));
        rep.count(&format!("runmore.multi.kind.{}.{}", k, if m.sorted_for(k) { "sorted" } else { "unsorted" }));
    }
    rep.count(&format!("runmore.multi.sort_list.{}", match &m.sort_types { None => "default".to_string(), Some(l) => format!("len={}", l.len()) }));
    let has_html = m.kinds.iter().any(|k| k == "html");
    if has_html {
        count_html(rep, m, "runmore.multi");
    }
    if out.exit.is_none() {
        rep.fail("oracle", None, "grcov did not terminate within 90 s".into(), case);
        return None;
    }
    let cont = contents(dir, m, rep);
    let mut all = BTreeMap::new();
    collect_files(&outd, &outd, &mut all);
    let text_of = |k: &str| -> String { all.get(fixed_name(k)).map(|b| String::from_utf8_lossy(b).to_string()).unwrap_or_default() };
    let date = if m.no_date || !has_html { None } else { all.get("html/index.html").and_then(|b| page_date(b)) };
    if out.exit != Some(0) {
        rep.count("runmore.multi.exit_nonzero");
    }
    if out.exit == Some(0) && !cont.crash {
        // the names: one fixed file per stream type, the directory `html`
        let tops: BTreeSet<String> = all.keys().map(|k| k.split('/').next().unwrap().to_string()).collect();
        let want: BTreeSet<String> = m.kinds.iter().map(|k| fixed_name(k).to_string()).collect();
        if tops != want {
            rep.fail("oracle", None, "the entries of the output directory are not the fixed names of the requested types".into(), json!({"case": case, "entries": tops, "expected": want}));
        }
        for k in m.kinds.iter().filter(|k| *k != "html") {
            match decode_any(k, &text_of(k)) {
                Err(e) => rep.fail("oracle", None, format!("out/{} cannot be decoded: {}", fixed_name(k), e), case.clone()),
                Ok((obs, _)) => {
                    if m.plain_selection() {
                        rep.count("runmore.multi.oracle.aggregate");
                        let want = expected_obs(k, dir, m, &cont);
                        if obs != want {
                            rep.fail("oracle", None, format!("out/{}: the decoded report is not the aggregate of what each input contains after the marker rule", fixed_name(k)),
                                json!({"case": case, "report": obs, "expected": want}));
                        }
                    }
                }
            }
        }
        if has_html {
            let site: BTreeMap<String, Vec<u8>> = all.iter().filter_map(|(k, v)| k.strip_prefix("html/").map(|r| (r.to_string(), v.clone()))).collect();
            if site.contains_key("bulma.min.css") != m.bundled {
                rep.fail("oracle", None, "bulma.min.css present / absent against --html-resources".into(), case.clone());
            }
            html_oracles(rep, dir, m, &site, &case, "runmore.multi");
        }
    }
    // the printed parameters of each type, read off ITS file; the hash order off ONE unsorted file
    let mut items: Vec<String> = vec![];
    let mut rec_order: Vec<String> = vec![];
    let mut cv_done = false;
    for k in &m.kinds {
        if k == "html" {
            continue;
        }
        let p = params_any(k, &text_of(k));
        if k.starts_with("coveralls") {
            if cv_done {
                continue;
            }
            cv_done = true;
        }
        items.extend(p.items.iter().cloned());
    }
    if let Some(k) = m.kinds.iter().find(|k| *k != "html" && *k != "covdir" && !m.sorted_for(k)) {
        rec_order = params_any(k, &text_of(k)).rec_order;
        rep.count(&format!("runmore.multi.hash_order_from.{}", k));
    } else {
        rep.count("runmore.multi.hash_order_from.none_needed");
    }
    let x = ReqExtra { rec_order: &rec_order, items: &items, raws: has_html, date, html: has_html };
    let req = request("run.multi", &m.kinds.join(","), dir, m, &fs, &x);
    Some(Pending { req, real: Real::Files(all, vec!["html/bulma.min.css".into()]), exit: out.exit, case, what: format!("output directory of -t {}", m.kinds.join(",")), stream: "multi".into() })
}

// ---- the streams ---------------------------------------------------------------------------------------

fn eval(rep: &mut Report, dir: &Path, m: &MCase) -> Option<Pending> {
    match m.stream.as_str() {
        "gcno" => eval_gcno(rep, dir, m),
        "html" => eval_html(rep, dir, m),
        "multi" => eval_multi(rep, dir, m),
        _ => None,
    }
}

fn stream(rep: &mut Report, name: &str, tag: u64, n: u64, gen: &dyn Fn(&mut Rng, u64) -> MCase) {
    let mut rng = Rng::new(rep.seed ^ tag);
    let root = std::fs::canonicalize(&rep.workdir).unwrap().join(format!("runmore_{}", name));
    let _ = std::fs::remove_dir_all(&root);
    std::fs::create_dir_all(&root).unwrap();
    let t0 = std::time::Instant::now();
    let mut pend = vec![];
    for i in 0..n {
        if rep.verdict_clear() {
            break;
        }
        let m = gen(&mut rng, i);
        let dir = root.join(format!("case{}", i));
        rep.case(&m.canonical(), !m.stems.is_empty() || m.stream != "gcno");
        if let Some(p) = eval(rep, &dir, &m) {
            if pend.is_empty() {
                rep.sample(json!({"stream": m.op(), "type": m.core.ty, "kinds": m.kinds, "args": m.args, "stems": m.stems, "threads": m.core.threads, "request_bytes": p.req.len()}));
            }
            pend.push(p);
        }
        let _ = std::fs::remove_dir_all(&dir);
    }
    let t1 = t0.elapsed().as_millis();
    compare(rep, &pend, &format!("runmore_{}", name));
    rep.notes.push(format!("runmore.{} stream: {} runs tied byte for byte with the Lean whole-run model, {} ms ({} ms real runs + oracles, {} ms model)", name, pend.len(), t0.elapsed().as_millis(), t1, t0.elapsed().as_millis() - t1));
}

pub fn run(rep: &mut Report) {
    rep.rule.push_str("; runmore.gcno stream: whole runs whose inputs mix 1-2 LLVM-mode gcno stems (0-3 gcda each over the directory arguments in/g0.., k copies / different flows / a mismatching one, --llvm or sniffed header) with 0-3 lcov / JaCoCo files, one of eight stream types (the seven and markdown with --precision), options as runall: stdout == RunAll.run byte for byte; decoded report == aggregate of what each input contains (gcno: Gcno::compute in-process); k copies == k times one copy; second run with another order / thread count");
    rep.rule.push_str("; runmore.html stream: -t html -o out on mixed inputs with --precision / --abs-link-prefix / --html-resources / --no-date or the date read off the real index: every file below the output directory == RunAll.runHtml byte for byte; one page per reported file with a readable source, rows == DA records of the lcov run");
    rep.rule.push_str("; runmore.multi stream: 2-4 distinct -t out of nine kinds with -o <existing directory> and a random --sort-output-types list: every file below the directory == RunAll.runMulti byte for byte; every stream file decodes to the aggregate");
    let n = rep.budget(48, 8);
    stream(rep, "gcno", 0xC02_6C40, n, &|rng, i| gen_gcno_case(rng, STREAM_TYPES[(i as usize) % STREAM_TYPES.len()], i / STREAM_TYPES.len() as u64));
    let n = rep.budget(18, 8);
    stream(rep, "html", 0xC02_4711, n, &|rng, i| gen_html_case(rng, i));
    let n = rep.budget(16, 8);
    stream(rep, "multi", 0xC02_3117, n, &|rng, i| gen_multi_case(rng, i));
}

pub fn replay(rep: &mut Report, case: &Value) -> bool {
    let c0 = if case.get("case").is_some() { &case["case"] } else { case };
    let op = c0["op"].as_str().unwrap_or("");
    if !op.starts_with("runmore.") {
        return false;
    }
    let Some(m) = MCase::from_json(c0) else {
        rep.notes.push("runmore replay: the case cannot be read".into());
        return true;
    };
    let root = std::fs::canonicalize(&rep.workdir).unwrap().join("runmore_replay");
    rep.case(&m.canonical(), true);
    if let Some(p) = eval(rep, &root, &m) {
        compare(rep, &[p], "runmore_replay");
    }
    true
}
