//! C09, part JsonBytes — tie of the byte-level JSON reader model (`Gcov.JsonBytes.readTree` =
//! white-space stripping + number grammar + the library's `jsonParse` + serde_json's number classes;
//! `parseGcovJsonBytes` = that + `Json.toResults`) to the real code:
//! * `gcovjsontree`: `serde_json::from_slice::<Value>(bytes)` vs the model reader – verdict and value
//!   tree – on generated documents (compact, GCC-style blanks, random white space; shuffled keys,
//!   unknown keys, `\u` escapes, exponent floats) and on byte-level mutations of them;
//! * `gcovjsonbytes`: `parse_gcov_gz(gzip(bytes))` vs the model end to end on the same inputs.
//! The f64 VALUE of a number token that is not a u64/i64 integer literal is a parameter of the
//! model (serde_json's float reader is not correctly rounded): the harness reads each such token
//! with serde_json and passes m·2^e along. Outside the model, skipped and counted: inputs that are
//! not valid UTF-8, `\uD800`–`\uDFFF` escapes (surrogate pairs), the token `-0`, and number
//! literals beyond the f64 range (`11e400`): serde_json rejects one only where it EVALUATES it – the
//! typed reader skips the members it ignores without evaluating their numbers, `Value` does not –
//! and the model has no value to be given for it.
use crate::json::{self, J};
use crate::{impl_gz, Ctx};
use corrlib::*;
use serde_json::{json, Value};

fn f64_parts(f: f64) -> Option<(bool, u64, i32)> {
    if !f.is_finite() {
        return None;
    }
    let bits = f.to_bits();
    let neg = bits >> 63 == 1;
    let exp = ((bits >> 52) & 0x7ff) as i32;
    let frac = bits & ((1u64 << 52) - 1);
    Some(if exp == 0 { (neg, frac, -1074) } else { (neg, frac | (1u64 << 52), exp - 1075) })
}

fn flt_text(neg: bool, m: u64, e: i32) -> String {
    format!("d{}{}p{}{};", if neg { '-' } else { '+' }, m, if e < 0 { '-' } else { '+' }, e.unsigned_abs())
}

fn dump(v: &Value, out: &mut String) {
    match v {
        Value::Null => out.push('n'),
        Value::Bool(true) => out.push('t'),
        Value::Bool(false) => out.push('f'),
        Value::Number(n) => {
            if n.is_u64() {
                out.push_str(&format!("i{};", n.as_u64().unwrap()));
            } else if n.is_i64() {
                out.push_str(&format!("m{};", (n.as_i64().unwrap() as i128).unsigned_abs()));
            } else {
                match n.as_f64().and_then(f64_parts) {
                    Some((neg, m, e)) => out.push_str(&flt_text(neg, m, e)),
                    None => out.push('?'),
                }
            }
        }
        Value::String(s) => out.push_str(&format!("s{};", hex(s.as_bytes()))),
        Value::Array(xs) => {
            out.push('[');
            for x in xs {
                dump(x, out);
            }
            out.push(']');
        }
        Value::Object(m) => {
            let mut items: Vec<(&String, &Value)> = m.iter().collect();
            items.sort_by(|a, b| a.0.as_bytes().cmp(b.0.as_bytes()));
            out.push('{');
            for (k, v) in items {
                out.push_str(&format!("s{};", hex(k.as_bytes())));
                dump(v, out);
            }
            out.push('}');
        }
    }
}

/// the number tokens outside strings (maximal runs of `0-9 - + . e E`) that serde_json reads as f64
fn float_oracle(bytes: &[u8]) -> (Vec<String>, bool, bool) {
    let mut out_of_range = false;
    let mut args = vec![];
    let mut seen: Vec<Vec<u8>> = vec![];
    let mut minus_zero = false;
    let is_num = |b: u8| b.is_ascii_digit() || matches!(b, b'-' | b'+' | b'.' | b'e' | b'E');
    let mut i = 0;
    let mut mode = 0;
    while i < bytes.len() {
        let b = bytes[i];
        if mode == 0 {
            if b == b'"' {
                mode = 1;
                i += 1;
            } else if is_num(b) {
                let mut j = i;
                while j < bytes.len() && is_num(bytes[j]) {
                    j += 1;
                }
                let tok = &bytes[i..j];
                if tok == b"-0" {
                    minus_zero = true;
                }
                if !seen.iter().any(|t| t == tok) {
                    seen.push(tok.to_vec());
                    let parsed = serde_json::from_slice::<Value>(tok);
                    if let Err(e) = &parsed {
                        if e.to_string().contains("out of range") {
                            out_of_range = true;
                        }
                    }
                    if let Ok(Value::Number(n)) = parsed {
                        if n.is_f64() {
                            if let Some((neg, m, e)) = n.as_f64().and_then(f64_parts) {
                                let t = flt_text(neg, m, e);
                                args.push(format!("{}={}", hex(tok), &t[1..t.len() - 1]));
                            }
                        }
                    }
                }
                i = j;
            } else {
                i += 1;
            }
        } else if mode == 1 {
            mode = if b == b'\\' { 2 } else if b == b'"' { 0 } else { 1 };
            i += 1;
        } else {
            mode = 1;
            i += 1;
        }
    }
    (args, minus_zero, out_of_range)
}

fn has_surrogate_escape(bytes: &[u8]) -> bool {
    bytes.windows(4).any(|w| w[0] == b'\\' && w[1] == b'u' && (w[2] == b'd' || w[2] == b'D') && matches!(w[3], b'8' | b'9' | b'a'..=b'f' | b'A'..=b'F'))
}

const ALPHABET: &[u8] = b"{}[]:,\" \n\t\r\\u0123456789-+.eEtrufalsn";

fn mutate_bytes(rng: &mut Rng, text: &[u8]) -> (&'static str, Vec<u8>) {
    let mut v = text.to_vec();
    match rng.below(7) {
        0 => {
            let k = rng.below(v.len().max(1) as u64) as usize;
            v.truncate(k);
            ("truncate", v)
        }
        1 | 2 => {
            for _ in 0..rng.range(1, 2) {
                if !v.is_empty() {
                    let k = rng.below(v.len() as u64) as usize;
                    v[k] = *rng.pick(ALPHABET);
                }
            }
            ("substitute", v)
        }
        3 => {
            for _ in 0..rng.range(1, 3) {
                let k = rng.below(v.len() as u64 + 1) as usize;
                v.insert(k, *rng.pick(ALPHABET));
            }
            ("insert", v)
        }
        4 => {
            if !v.is_empty() {
                let k = rng.below(v.len() as u64) as usize;
                v.remove(k);
            }
            ("delete", v)
        }
        5 => {
            // white space dropped anywhere (harmless between tokens, an error inside one)
            for _ in 0..rng.range(1, 4) {
                let k = rng.below(v.len() as u64 + 1) as usize;
                v.insert(k, *rng.pick(b" \n\t\r"));
            }
            ("whitespace", v)
        }
        _ => {
            let frag: &[u8] = *rng.pick(&[
                &b"01"[..], b"1.", b".5", b"1e", b"1e+", b"-", b"+1", b"1E5", b"1e-2", b"0.0", b"-0.5", b"00", b"1 2", b"tr ue", b"nul",
                b"\"\\u0041\"", b"\"\\u00e9\"", b"\"\\x\"", b"\"\\", b"\"a\nb\"", b",", b",,", b"[,]", b"{,}", b"{\"a\":}", b"[1 2]",
                b"18446744073709551615", b"18446744073709551616", b"-9223372036854775808", b"-9223372036854775809", b"1e400", b"\xEF\xBB\xBF",
            ]);
            let k = rng.below(v.len() as u64 + 1) as usize;
            v.splice(k..k, frag.iter().cloned());
            ("fragment", v)
        }
    }
}

pub fn run(rep: &mut Report, ctx: &Ctx) {
    let mut rng = Rng::new(rep.seed ^ 0xC09B);
    let n = rep.budget(500, 10);
    let mut reqs: Vec<String> = vec![];
    let mut meta: Vec<(&'static str, Vec<u8>, String, &'static str)> = vec![];
    for _ in 0..n {
        let dups = rng.chance(1, 5);
        let d = json::gen_doc(&mut rng, dups);
        let tree: J = json::to_tree(&d, &mut rng, true);
        let style = rng.below(3) as u8;
        let mut text = String::new();
        json::render(&tree, &mut rng, style, &mut text);
        let mut variants: Vec<(&'static str, Vec<u8>)> = vec![(["compact", "blanks", "random_ws"][style as usize], text.clone().into_bytes())];
        for _ in 0..2 {
            variants.push(mutate_bytes(&mut rng, text.as_bytes()));
        }
        for (label, bytes) in variants {
            rep.count(&format!("jsonbytes.{}", label));
            if std::str::from_utf8(&bytes).is_err() {
                rep.count("jsonbytes.skipped.not_utf8");
                continue;
            }
            if has_surrogate_escape(&bytes) {
                rep.count("jsonbytes.skipped.surrogate_escape");
                continue;
            }
            let (oracle, minus_zero, out_of_range) = float_oracle(&bytes);
            if minus_zero {
                rep.count("jsonbytes.skipped.minus_zero");
                continue;
            }
            if out_of_range {
                rep.count("jsonbytes.skipped.number_beyond_f64_range");
                continue;
            }
            rep.case(&format!("jsonbytes {}", hex(&bytes)), true);
            let tree_imp = match serde_json::from_slice::<Value>(&bytes) {
                Ok(v) => {
                    rep.count("jsonbytes.serde.ok");
                    let mut s = String::new();
                    dump(&v, &mut s);
                    s
                }
                Err(_) => {
                    rep.count("jsonbytes.serde.err");
                    "!".to_string()
                }
            };
            let tail = if oracle.is_empty() { String::new() } else { format!(" {}", oracle.join(" ")) };
            reqs.push(format!("gcovjsontree {}{}", hex(&bytes), tail).trim_end().to_string());
            meta.push((label, bytes.clone(), tree_imp, "tree"));
            let (out, _) = impl_gz(ctx, &json::gzip(&bytes));
            rep.count(&format!("jsonbytes.parse.{}", out.split(' ').next().unwrap_or("")));
            reqs.push(format!("gcovjsonbytes {}{}", hex(&bytes), tail).trim_end().to_string());
            meta.push((label, bytes, out, "parser"));
        }
    }
    let model = run_model_named("gm_c09", &reqs, &rep.workdir, "jsonbytes");
    for (((label, bytes, imp, what), mo), req) in meta.iter().zip(model.iter()).zip(reqs.iter()) {
        if imp != mo {
            rep.disagreements_checked += 1;
            rep.fail(
                "disagreement",
                None,
                format!(
                    "{} differs from the Lean byte-level JSON model (stream jsonbytes.{})",
                    if *what == "tree" { "serde_json::from_slice::<Value> (verdict / value tree)" } else { "parse_gcov_gz(gzip(bytes))" },
                    label
                ),
                json!({"op": "gcov.jsonbytes", "what": what, "json_hex": hex(bytes), "json": String::from_utf8_lossy(bytes),
                       "request": req, "impl": imp, "model": mo}),
            );
        }
    }
    rep.notes.push("jsonbytes: generated gcov JSON texts (compact / blanks / random white space) and 2 byte-level mutations of each; serde_json::from_slice::<Value> vs Gcov.JsonBytes.readTree (verdict + tree), parse_gcov_gz(gzip) vs parseGcovJsonBytes; gzip itself (flate2) stays trusted".into());
}

pub fn replay(rep: &mut Report, ctx: &Ctx, case: &Value) {
    let bytes = unhex(case["json_hex"].as_str().unwrap_or(""));
    let req = case["request"].as_str().unwrap_or("").to_string();
    rep.case(&format!("jsonbytes {}", hex(&bytes)), true);
    let imp = if case["what"].as_str() == Some("tree") {
        match serde_json::from_slice::<Value>(&bytes) {
            Ok(v) => {
                let mut s = String::new();
                dump(&v, &mut s);
                s
            }
            Err(_) => "!".to_string(),
        }
    } else {
        impl_gz(ctx, &json::gzip(&bytes)).0
    };
    let mo = run_model_named("gm_c09", &[req], &rep.workdir, "replay").remove(0);
    if imp != mo {
        rep.disagreements_checked += 1;
        rep.fail("disagreement", None, format!("impl '{}' vs model '{}'", imp, mo), case.clone());
    }
}
