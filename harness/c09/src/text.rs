//! gcov intermediate text format (gcov <= 7): AST, generator, renderer, independent semantics.
use corrlib::*;
use grcov::{CovResult, Function};

/// an unsigned decimal as written: optional '+', leading zeros, value
#[derive(Clone, Debug, PartialEq)]
pub struct Dec {
    pub plus: bool,
    pub zeros: u8,
    pub val: u128,
}
impl Dec {
    pub fn plain(v: u128) -> Dec {
        Dec { plus: false, zeros: 0, val: v }
    }
    pub fn text(&self) -> String {
        format!(
            "{}{}{}",
            if self.plus { "+" } else { "" },
            "0".repeat(self.zeros as usize),
            self.val
        )
    }
}

#[derive(Clone, Debug, PartialEq)]
pub enum Count {
    Num(Dec),
    /// '-' followed by this text (gcov prints negative counts for corrupted profiles)
    Neg(String),
}

#[derive(Clone, Debug, PartialEq)]
pub enum Rec {
    Lcount(Dec, Count),
    /// start line, call count as gcov's signed formatter prints it (canonical decimal of any size,
    /// `-` in front when `neg`; never `-0`), name (any bytes but CR/LF; may contain commas)
    Function(Dec, Calls, Vec<u8>),
    /// line, token
    Branch(Dec, String),
    /// any other `key:value` line (version:, and keys of later gcov versions)
    Other(String, String),
}

/// the call count of a `function:` record: ±val, printed canonically
#[derive(Clone, Debug, PartialEq)]
pub struct Calls {
    pub neg: bool,
    pub val: u128,
}
impl Calls {
    pub fn text(&self) -> String {
        format!("{}{}", if self.neg { "-" } else { "" }, self.val)
    }
}

#[derive(Clone, Debug, PartialEq)]
pub struct Sec {
    /// any bytes but CR/LF (since /repo 7f9b2b3 the reader decodes lossily: not only UTF-8)
    pub name: Vec<u8>,
    pub recs: Vec<Rec>,
}

#[derive(Clone, Debug, PartialEq)]
pub struct Report {
    /// `other` records before the first `file:`
    pub pre: Vec<(String, String)>,
    pub secs: Vec<Sec>,
    /// 0 = LF, 1 = CRLF, 2 = mixed (LF / CRLF / CR CR LF by line index)
    pub eol: u8,
    pub final_newline: bool,
}

pub const FILE_NAMES: &[&str] = &[
    "src/main.c",
    "a.c",
    "/abs/path/x.cpp",
    "dir with space/f.rs",
    "src/é/ü.c",
    "日本/語.c",
    "a,b.c",
    "C:\\win\\p.c",
    "weird:name.c",
    "",
    "/usr/include/c++/7/bits/stl_vector.h",
];
pub const FN_NAMES: &[&str] = &[
    "main",
    "f",
    "_ZN3foo3barEv",
    "foo(int, char)",
    "ns::tmpl<a, b>::m",
    "std::map<int, std::pair<a, b> >::operator[](int const&)",
    "operator,",
    "é_fn",
    "名前",
    "0",
    "",
    "x y",
    ",lead",
    "trail,",
    "a:b",
];
/// names that are not well-formed UTF-8 (lone lead byte, truncated sequences, Latin-1, a
/// surrogate, an overlong form, a lone continuation byte, beyond U+10FFFF) - with ASCII around them
pub const BAD_NAMES: &[&[u8]] = &[
    b"a\xff.c",
    b"\xc3",
    b"dir/\xe2\x82.c",
    b"\xf0\x9f\x92",
    b"caf\xe9.c",
    b"\xed\xa0\x80x",
    b"\xc0\xaf",
    b"x\x80y,z",
    b"\xf4\x90\x80\x80",
    b"ok\xe2\x82\xac\xe2\x82",
    b"f(\xfe, int)",
    b"\xc3:\xa9,\xc3",
];

pub fn gen_name(rng: &mut Rng, pool: &[&str]) -> Vec<u8> {
    if rng.chance(1, 7) {
        rng.pick(BAD_NAMES).to_vec()
    } else {
        rng.pick(pool).as_bytes().to_vec()
    }
}

const OTHERS: &[(&str, &str)] = &[
    ("version", "7.5.0"),
    ("version", "4.9.2:extra"),
    ("cwd", "/build/dir"),
    ("calls", "3,1"),
    ("Lcount", "1,1"),
    ("files", "x"),
    ("branchx", "1,taken"),
    (" lcount", "1,1"),
    ("", "empty key"),
    ("FILE", "a.c"),
];
pub const BRANCH_TOKENS: &[&str] = &["taken", "nottaken", "notexec"];

fn gen_line_no(rng: &mut Rng) -> Dec {
    let val = match rng.below(30) {
        0 => u32::MAX as u128,
        1 => 0,
        2 => rng.range(1, u32::MAX as u64) as u128,
        _ => rng.range(1, 14) as u128,
    };
    Dec {
        plus: rng.chance(1, 25),
        zeros: if rng.chance(1, 20) { rng.range(1, 12) as u8 } else { 0 },
        val,
    }
}

fn gen_count(rng: &mut Rng, allow_overflow: bool) -> Count {
    match rng.below(14) {
        0 => Count::Neg(format!("{}", rng.range(1, 1 << 40))),
        1 => Count::Neg(rng.pick(&["", "1", "9223372036854775808", "0", "x", "-3"]).to_string()),
        2 | 3 => Count::Num(Dec::plain(0)),
        4 => Count::Num(Dec::plain(*rng.pick(&[
            u64::MAX as u128,
            u64::MAX as u128 - 1,
            1u128 << 63,
            (1u128 << 63) - 1,
            u32::MAX as u128 + 1,
        ]))),
        5 if allow_overflow => Count::Num(Dec::plain(*rng.pick(&[
            u64::MAX as u128 + 1,
            u64::MAX as u128 + 2,
            (u64::MAX as u128) * 10,
            (u64::MAX as u128 + 1) * 2,
            1u128 << 100,
            u128::MAX,
        ]))),
        6 => Count::Num(Dec {
            plus: rng.chance(1, 2),
            zeros: rng.below(25) as u8,
            val: rng.below(1000) as u128,
        }),
        7 => Count::Num(Dec::plain(rng.next() as u128)),
        8 => Count::Num(Dec::plain(rng.range(1, 2) as u128)),
        _ => Count::Num(Dec::plain(rng.range(1, 5000) as u128)),
    }
}

pub fn gen_sec(rng: &mut Rng, dups: bool, allow_overflow: bool) -> Sec {
    let name = gen_name(rng, FILE_NAMES);
    let mut recs = vec![];
    // functions
    let mut names: Vec<Vec<u8>> = vec![];
    for _ in 0..rng.below(4) {
        let n = gen_name(rng, FN_NAMES);
        // names are compared AFTER decoding: two different ill-formed names can decode to one
        let key = String::from_utf8_lossy(&n).into_owned();
        if dups || !names.iter().any(|m| String::from_utf8_lossy(m) == key) {
            names.push(n);
        }
    }
    for n in names {
        let val: u128 = match rng.below(6) {
            0 | 1 => 0,
            2 => 1,
            3 => *rng.pick(&[u64::MAX as u128, u64::MAX as u128 + 1, 10, 100, 1u128 << 70]),
            _ => rng.range(1, 100000) as u128,
        };
        // gcov prints the counter with its signed 64-bit formatter: a wrapped counter is negative
        let neg = val != 0 && rng.chance(1, 5);
        let val = if neg && rng.chance(1, 3) { *rng.pick(&[1u128 << 63, 2534, 1, (1u128 << 63) - 1]) } else { val };
        recs.push(Rec::Function(gen_line_no(rng), Calls { neg, val }, n));
    }
    // lines (usually present; a section without any lcount is omitted from the result)
    let nl = if rng.chance(1, 6) { 0 } else { rng.range(1, 8) };
    let mut used: Vec<u128> = vec![];
    for _ in 0..nl {
        let l = gen_line_no(rng);
        if !dups && used.contains(&l.val) {
            continue;
        }
        used.push(l.val);
        recs.push(Rec::Lcount(l, gen_count(rng, allow_overflow)));
    }
    // branches: several per line, in record order
    for _ in 0..rng.below(4) {
        let l = gen_line_no(rng);
        for _ in 0..rng.range(1, 4) {
            recs.push(Rec::Branch(l.clone(), rng.pick(BRANCH_TOKENS).to_string()));
        }
    }
    for _ in 0..rng.below(2) {
        let (k, v) = rng.pick(OTHERS);
        recs.push(Rec::Other(k.to_string(), v.to_string()));
    }
    // gcov writes function records first, then lcount/branch interleaved by line; any order is a
    // well-formed serialisation, so shuffle (branch order for one line is part of the meaning and
    // is whatever results)
    if rng.chance(2, 3) {
        rng.shuffle(&mut recs);
    }
    Sec { name, recs }
}

pub fn gen_report(rng: &mut Rng, dups: bool) -> Report {
    let allow_overflow = rng.chance(1, 25);
    let ns = match rng.below(10) {
        0 => 0,
        1..=5 => 1,
        6..=8 => rng.range(2, 3),
        _ => rng.range(4, 6),
    };
    let mut pre = vec![];
    if rng.chance(1, 3) {
        for _ in 0..rng.range(1, 2) {
            let (k, v) = rng.pick(OTHERS);
            pre.push((k.to_string(), v.to_string()));
        }
    }
    Report {
        pre,
        secs: (0..ns).map(|_| gen_sec(rng, dups, allow_overflow)).collect(),
        eol: *rng.pick(&[0u8, 0, 0, 1, 2]),
        final_newline: !rng.chance(1, 8),
    }
}

pub fn render_rec(r: &Rec) -> Vec<u8> {
    match r {
        Rec::Lcount(l, Count::Num(c)) => format!("lcount:{},{}", l.text(), c.text()).into_bytes(),
        Rec::Lcount(l, Count::Neg(t)) => format!("lcount:{},-{}", l.text(), t).into_bytes(),
        Rec::Function(s, c, n) => {
            let mut b = format!("function:{},{},", s.text(), c.text()).into_bytes();
            b.extend_from_slice(n);
            b
        }
        Rec::Branch(l, t) => format!("branch:{},{}", l.text(), t).into_bytes(),
        Rec::Other(k, v) => format!("{}:{}", k, v).into_bytes(),
    }
}

pub fn render(r: &Report) -> Vec<u8> {
    let mut lines: Vec<Vec<u8>> = vec![];
    for (k, v) in &r.pre {
        lines.push(format!("{}:{}", k, v).into_bytes());
    }
    for s in &r.secs {
        let mut l = b"file:".to_vec();
        l.extend_from_slice(&s.name);
        lines.push(l);
        for rec in &s.recs {
            lines.push(render_rec(rec));
        }
    }
    let mut out: Vec<u8> = vec![];
    let n = lines.len();
    for (i, l) in lines.iter().enumerate() {
        out.extend_from_slice(l);
        let last = i + 1 == n;
        let eol = match r.eol {
            0 => "\n",
            1 => "\r\n",
            _ => ["\n", "\r\n", "\r\r\n"][i % 3],
        };
        if last && !r.final_newline {
            // a last line without LF (a trailing CR alone is still stripped)
            if r.eol == 1 {
                out.push(b'\r');
            }
        } else {
            out.extend_from_slice(eol.as_bytes());
        }
    }
    out
}

/// what a name in the file means: its bytes as text, every maximal ill-formed UTF-8 sequence
/// replaced by U+FFFD (the standard library's decoder, not grcov)
pub fn decode_name(b: &[u8]) -> String {
    String::from_utf8_lossy(b).into_owned()
}

/// What the report says, written independently of grcov: `Ok(sections)` or `Err("Parse")` when a
/// number does not fit (the property: rejected, never wrapped).
pub fn sem(r: &Report) -> Result<Vec<(String, CovResult)>, &'static str> {
    let mut out = vec![];
    for s in &r.secs {
        let mut cov = CovResult::default();
        for rec in &s.recs {
            match rec {
                Rec::Lcount(l, c) => {
                    if l.val > u32::MAX as u128 {
                        return Err("Parse");
                    }
                    let n: u64 = match c {
                        Count::Neg(_) => 0,
                        Count::Num(d) => {
                            if d.val > u64::MAX as u128 {
                                return Err("Parse");
                            }
                            d.val as u64
                        }
                    };
                    cov.lines.insert(l.val as u32, n);
                }
                Rec::Function(st, c, n) => {
                    if st.val > u32::MAX as u128 {
                        return Err("Parse");
                    }
                    // the property: executed iff the call count is non-zero (negative included)
                    cov.functions.insert(
                        decode_name(n),
                        Function {
                            start: st.val as u32,
                            executed: c.val != 0,
                        },
                    );
                }
                Rec::Branch(l, t) => {
                    if l.val > u32::MAX as u128 {
                        return Err("Parse");
                    }
                    cov.branches.entry(l.val as u32).or_default().push(t == "taken");
                }
                Rec::Other(..) => {}
            }
        }
        if !cov.lines.is_empty() {
            out.push((decode_name(&s.name), cov));
        }
    }
    Ok(out)
}

pub fn sem_text(r: &Report) -> String {
    match sem(r) {
        Ok(v) => format!("ok {}", show_results_ordered(&v)).trim_end().to_string(),
        Err(k) => format!("err {}", k),
    }
}

/// the first error of the real reader is the first one in file order; `sem` reports errors per
/// section in record order, which is the same order as the rendering
pub fn features(r: &Report) -> Vec<&'static str> {
    let mut f = vec![];
    if r.secs.is_empty() {
        f.push("no_section");
    }
    if !r.pre.is_empty() {
        f.push("records_before_first_file");
    }
    if !r.final_newline {
        f.push("no_final_newline");
    }
    f.push(match r.eol {
        0 => "eol_lf",
        1 => "eol_crlf",
        _ => "eol_mixed",
    });
    for s in &r.secs {
        let mut has_l = false;
        if std::str::from_utf8(&s.name).is_err() {
            f.push("file.name_not_utf8");
        }
        for rec in &s.recs {
            match rec {
                Rec::Lcount(l, c) => {
                    has_l = true;
                    f.push("rec.lcount");
                    match c {
                        Count::Neg(_) => f.push("lcount.negative"),
                        Count::Num(d) if d.val > u64::MAX as u128 => f.push("lcount.overflow"),
                        Count::Num(d) if d.val == u64::MAX as u128 => f.push("lcount.u64max"),
                        Count::Num(d) if d.val == 0 => f.push("lcount.zero"),
                        Count::Num(d) if d.plus || d.zeros > 0 => f.push("lcount.plus_or_leading_zeros"),
                        _ => {}
                    }
                    if l.plus || l.zeros > 0 {
                        f.push("line_no.plus_or_leading_zeros");
                    }
                }
                Rec::Function(_, c, n) => {
                    f.push("rec.function");
                    if n.contains(&b',') {
                        f.push("function.name_with_comma");
                    }
                    if std::str::from_utf8(n).is_err() {
                        f.push("function.name_not_utf8");
                    }
                    if c.neg {
                        f.push("function.negative_call_count");
                    }
                    f.push(if c.val == 0 { "function.not_executed" } else { "function.executed" });
                }
                Rec::Branch(_, t) => {
                    f.push("rec.branch");
                    f.push(match t.as_str() {
                        "taken" => "branch.taken",
                        "nottaken" => "branch.nottaken",
                        _ => "branch.notexec",
                    });
                }
                Rec::Other(..) => f.push("rec.other"),
            }
        }
        if !has_l {
            f.push("section.without_lcount");
        }
    }
    f
}

pub fn nontrivial(r: &Report) -> bool {
    r.secs.iter().any(|s| {
        s.recs.iter().any(|x| matches!(x, Rec::Lcount(..)))
            && s.recs.iter().any(|x| matches!(x, Rec::Branch(..) | Rec::Function(..)))
    })
}

pub fn show_report(r: &Report) -> serde_json::Value {
    serde_json::json!({
        "pre": r.pre, "eol": r.eol, "final_newline": r.final_newline,
        "secs": r.secs.iter().map(|s| serde_json::json!({
            "file": String::from_utf8_lossy(&s.name), "file_hex": hex(&s.name),
            "recs": s.recs.iter().map(|r| String::from_utf8_lossy(&render_rec(r)).into_owned()).collect::<Vec<_>>()})).collect::<Vec<_>>()
    })
}

// ---------------------------------------------------------------------------------------------
// malformed stream (any bytes: since /repo 7f9b2b3 parse_gcov decodes every line lossily)

pub const TOKENS: &[&str] = &[
    "file:", "function:", "lcount:", "branch:", "version:", "file", "lcount", "\n", "\r\n", "\r", ",", ":",
    "-", "+", "0", "1", "00", "+5", "12", "4294967295", "4294967296", "18446744073709551615",
    "18446744073709551616", "99999999999999999999999", "taken", "nottaken", "notexec", "a.c", "main", "é",
    " ", "-5", "f,g", "x", "\n\n", "1,1", "3,taken",
];

pub fn gen_malformed(rng: &mut Rng) -> Vec<u8> {
    let b = match rng.below(5) {
        0 => {
            let n = rng.range(1, 25);
            let mut s = String::new();
            for _ in 0..n {
                s.push_str(*rng.pick(TOKENS));
            }
            s.into_bytes()
        }
        1 => {
            // valid file, truncated
            let mut b = render(&gen_report(rng, true));
            let k = rng.below(b.len() as u64 + 1) as usize;
            b.truncate(k);
            b
        }
        2 => {
            // valid file with 1-3 local corruptions
            let mut b = render(&gen_report(rng, true));
            for _ in 0..rng.range(1, 3) {
                if b.is_empty() {
                    break;
                }
                let k = rng.below(b.len() as u64) as usize;
                match rng.below(3) {
                    0 => {
                        b.remove(k);
                    }
                    1 => {
                        let t = rng.pick(TOKENS).as_bytes().to_vec();
                        b.splice(k..k, t);
                    }
                    _ => b[k] = *rng.pick(&[b'\n', b',', b'-', b'+', b'9', b':', b'f', b'\r', b'0', 0xff, 0xc3, 0x80, 0xe2, 0xf0]),
                }
            }
            b
        }
        3 => {
            // one token substituted in a valid file
            let text = render(&gen_report(rng, true));
            let mut toks: Vec<Vec<u8>> = vec![];
            let mut cur = vec![];
            for &c in &text {
                if c == b',' || c == b':' || c == b'\n' {
                    toks.push(std::mem::take(&mut cur));
                    toks.push(vec![c]);
                } else {
                    cur.push(c);
                }
            }
            toks.push(cur);
            let k = rng.below(toks.len() as u64) as usize;
            toks[k] = rng.pick(TOKENS).as_bytes().to_vec();
            toks.concat()
        }
        _ => {
            // valid file with the first `file:` line removed, or a record moved before it
            let text = render(&gen_report(rng, true));
            let mut lines: Vec<&[u8]> = text.split_inclusive(|&c| c == b'\n').collect();
            if !lines.is_empty() {
                if rng.chance(1, 2) {
                    if let Some(i) = lines.iter().position(|l| l.starts_with(b"file:")) {
                        lines.remove(i);
                    }
                } else {
                    let i = rng.below(lines.len() as u64) as usize;
                    let l = lines.remove(i);
                    lines.insert(0, l);
                }
            }
            lines.concat()
        }
    };
    b
}

// ---------------------------------------------------------------------------------------------
// long lines with multi-byte characters (C14: a malformed record is an error VALUE, whatever the
// line looks like). One long record between `file:main.c / lcount:1,1` and `lcount:2,5`; the long
// token is made of 2-, 3-, 4-byte characters or of invalid bytes (each becomes the 3-byte U+FFFD
// when the line is decoded), slid by 0..3 ASCII bytes so that every byte offset of the decoded
// line - 255, 256, 257 in particular - falls at every position inside a character; line lengths
// from ~200 to ~600 bytes. The record is well formed (three kinds) or malformed in the ordinary
// ways (no ':', missing field, non-number, 20-digit start line).

pub struct LongLine {
    pub label: String,
    pub bytes: Vec<u8>,
    /// what the file says: `ok …` exactly, or the error kind of the malformed record
    pub expected: String,
    pub well_formed: bool,
}

pub fn long_line_cases() -> Vec<LongLine> {
    let units: &[(&str, &[u8])] = &[
        ("2byte", "é".as_bytes()),
        ("3byte", "語".as_bytes()),
        ("4byte", "𝛼".as_bytes()),
        ("invalid_ff", b"\xff"),
        ("latin1", b"caf\xe9"),
        ("mixed", "aé語𝛼\u{7f}".as_bytes()),
        ("truncated_seq", b"x\xe2\x82"),
    ];
    let mut out = vec![];
    for (uname, unit) in units {
        for target in [200usize, 256, 300, 600] {
            for shift in 0..4usize {
                let mut name: Vec<u8> = vec![b'a'; shift];
                while name.len() < target {
                    name.extend_from_slice(unit);
                }
                let dec = decode_name(&name);
                let hexname = hex(dec.as_bytes());
                let n = |pre: &str| -> Vec<u8> {
                    let mut l = pre.as_bytes().to_vec();
                    l.extend_from_slice(&name);
                    l
                };
                let kinds: Vec<(&str, Vec<u8>, String, bool)> = vec![
                    ("wf.function", n("function:3,1,"), format!("ok K6d61696e2e63=L1:1,2:5;B;F{}:3:1", hexname), true),
                    ("wf.other_key", n("version:"), "ok K6d61696e2e63=L1:1,2:5;B;F".to_string(), true),
                    ("wf.file", n("file:"), format!("ok K6d61696e2e63=L1:1;B;F K{}=L2:5;B;F", hexname), true),
                    ("bad.start_not_a_number", n("function:x3,1,"), "err Parse".to_string(), false),
                    ("bad.start_20_digits", n("function:99999999999999999999,1,"), "err Parse".to_string(), false),
                    ("bad.function_missing_name", n("function:3,"), "err InvalidRecord".to_string(), false),
                    ("bad.function_one_field", n("function:"), "err Parse".to_string(), false),
                    ("bad.lcount_count_not_a_number", n("lcount:3,"), "err Parse".to_string(), false),
                    ("bad.lcount_20_digit_count", n("lcount:3,99999999999999999999"), "err Parse".to_string(), false),
                    ("bad.lcount_one_field", n("lcount:"), "err Parse".to_string(), false),
                    ("bad.branch_line_not_a_number", { let mut l = n("branch:"); l.extend_from_slice(b",taken"); l }, "err Parse".to_string(), false),
                    ("bad.no_colon", name.clone(), "err InvalidRecord".to_string(), false),
                ];
                for (kind, line, expected, wf) in kinds {
                    let mut bytes = b"file:main.c\nlcount:1,1\n".to_vec();
                    bytes.extend_from_slice(&line);
                    bytes.extend_from_slice(b"\nlcount:2,5\n");
                    out.push(LongLine {
                        label: format!("{}.{}.len{}.shift{}", kind, uname, target, shift),
                        bytes,
                        expected,
                        well_formed: wf,
                    });
                }
            }
        }
    }
    out
}
