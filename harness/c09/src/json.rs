//! gcov JSON format (gcov >= 9): document AST, generator, value tree, text renderer, independent
//! semantics, tree mutations for the malformed stream.
use corrlib::*;
use grcov::{CovResult, Function};
use std::io::Write;

// ---------------------------------------------------------------------------------------------
// value tree = what serde_json's parser hands to the Deserialize impls

#[derive(Clone, Debug, PartialEq)]
pub enum N {
    Pos(u64),
    /// −n, 1 <= n <= 2^63
    Neg(u64),
    /// a literal that serde_json reads as f64: its text and its exact value ±m·2^e
    Flt { text: String, neg: bool, m: u64, e: i32 },
}

#[derive(Clone, Debug, PartialEq)]
pub enum J {
    Null,
    Bool(bool),
    Num(N),
    Str(String),
    Arr(Vec<J>),
    Obj(Vec<(String, J)>),
}

/// protocol encoding for the Lean driver (Drv/C09.lean)
pub fn encode(j: &J, out: &mut String) {
    match j {
        J::Null => out.push('n'),
        J::Bool(true) => out.push('t'),
        J::Bool(false) => out.push('f'),
        J::Num(N::Pos(n)) => out.push_str(&format!("i{};", n)),
        J::Num(N::Neg(n)) => out.push_str(&format!("m{};", n)),
        J::Num(N::Flt { neg, m, e, .. }) => out.push_str(&format!(
            "d{}{}p{}{};",
            if *neg { '-' } else { '+' },
            m,
            if *e < 0 { '-' } else { '+' },
            e.unsigned_abs()
        )),
        J::Str(s) => out.push_str(&format!("s{};", hex(s.as_bytes()))),
        J::Arr(xs) => {
            out.push('[');
            for x in xs {
                encode(x, out);
            }
            out.push(']');
        }
        J::Obj(kvs) => {
            out.push('{');
            for (k, v) in kvs {
                out.push_str(&format!("s{};", hex(k.as_bytes())));
                encode(v, out);
            }
            out.push('}');
        }
    }
}

fn render_str(s: &str, rng: &mut Rng, out: &mut String) {
    out.push('"');
    for c in s.chars() {
        match c {
            '"' => out.push_str("\\\""),
            '\\' => out.push_str("\\\\"),
            '\n' => out.push_str("\\n"),
            '\t' => out.push_str("\\t"),
            '/' if rng.chance(1, 4) => out.push_str("\\/"),
            c if (c as u32) < 0x20 => out.push_str(&format!("\\u{:04x}", c as u32)),
            c if (c as u32) < 0x10000 && rng.chance(1, 16) => out.push_str(&format!("\\u{:04X}", c as u32)),
            c => out.push(c),
        }
    }
    out.push('"');
}

fn ws(rng: &mut Rng, style: u8, out: &mut String) {
    match style {
        0 => {}
        1 => out.push(' '),
        _ => {
            for _ in 0..rng.below(3) {
                out.push(*rng.pick(&[' ', '\n', '\t', '\r']));
            }
        }
    }
}

/// JSON text of the tree; `style` 0 = compact, 1 = single blanks, 2 = random whitespace
pub fn render(j: &J, rng: &mut Rng, style: u8, out: &mut String) {
    match j {
        J::Null => out.push_str("null"),
        J::Bool(b) => out.push_str(if *b { "true" } else { "false" }),
        J::Num(N::Pos(n)) => out.push_str(&n.to_string()),
        J::Num(N::Neg(n)) => out.push_str(&format!("-{}", n)),
        J::Num(N::Flt { text, .. }) => out.push_str(text),
        J::Str(s) => render_str(s, rng, out),
        J::Arr(xs) => {
            out.push('[');
            for (i, x) in xs.iter().enumerate() {
                if i > 0 {
                    out.push(',');
                }
                ws(rng, style, out);
                render(x, rng, style, out);
                ws(rng, style, out);
            }
            if xs.is_empty() {
                ws(rng, style, out);
            }
            out.push(']');
        }
        J::Obj(kvs) => {
            out.push('{');
            for (i, (k, v)) in kvs.iter().enumerate() {
                if i > 0 {
                    out.push(',');
                }
                ws(rng, style, out);
                render_str(k, rng, out);
                ws(rng, style, out);
                out.push(':');
                ws(rng, style, out);
                render(v, rng, style, out);
                ws(rng, style, out);
            }
            if kvs.is_empty() {
                ws(rng, style, out);
            }
            out.push('}');
        }
    }
}

/// harness self-check: the text we wrote reads back (through serde_json::Value) as the tree we
/// send to the model
pub fn reads_back(j: &J, v: &serde_json::Value) -> bool {
    match (j, v) {
        (J::Null, serde_json::Value::Null) => true,
        (J::Bool(a), serde_json::Value::Bool(b)) => a == b,
        (J::Num(N::Pos(n)), serde_json::Value::Number(x)) => x.is_u64() && x.as_u64() == Some(*n),
        (J::Num(N::Neg(n)), serde_json::Value::Number(x)) => {
            x.is_i64() && !x.is_u64() && x.as_i64().map(|i| i as i128) == Some(-(*n as i128))
        }
        (J::Num(N::Flt { neg, m, e, .. }), serde_json::Value::Number(x)) => {
            let want = (*m as f64) * 2f64.powi(*e) * if *neg { -1.0 } else { 1.0 };
            x.is_f64() && x.as_f64().map(|f| f.to_bits()) == Some(want.to_bits())
        }
        (J::Str(a), serde_json::Value::String(b)) => a == b,
        (J::Arr(a), serde_json::Value::Array(b)) => {
            a.len() == b.len() && a.iter().zip(b.iter()).all(|(x, y)| reads_back(x, y))
        }
        (J::Obj(a), serde_json::Value::Object(b)) => {
            // Value keeps the last of duplicate keys
            let mut last: Vec<(&String, &J)> = vec![];
            for (k, v) in a {
                if let Some(p) = last.iter().position(|(k2, _)| *k2 == k) {
                    last[p].1 = v;
                } else {
                    last.push((k, v));
                }
            }
            last.len() == b.len()
                && last.iter().all(|(k, v)| b.get(k.as_str()).map(|y| reads_back(v, y)).unwrap_or(false))
        }
        _ => false,
    }
}

pub fn gzip(text: &[u8]) -> Vec<u8> {
    let mut enc = flate2::write::GzEncoder::new(Vec::new(), flate2::Compression::fast());
    enc.write_all(text).unwrap();
    enc.finish().unwrap()
}

// ---------------------------------------------------------------------------------------------
// document AST (the coverage model a gcov JSON file serialises)

#[derive(Clone, Debug, PartialEq)]
pub enum Counter {
    Int(u64),
    /// a float literal with its exact value m·2^e (non-negative)
    Flt { text: String, m: u64, e: i32 },
}
impl Counter {
    /// what the counter means as a u64: truncated toward zero (a well-formed float counter is below
    /// 2^64, so the final `min` never cuts anything)
    pub fn value(&self) -> u64 {
        match self {
            Counter::Int(n) => *n,
            Counter::Flt { m, e, .. } => {
                let v: u128 = if *e >= 0 {
                    if *m == 0 {
                        0
                    } else if *e >= 64 {
                        u128::MAX
                    } else {
                        (*m as u128) << *e
                    }
                } else if -*e >= 64 {
                    0
                } else {
                    (*m as u128) >> (-*e)
                };
                v.min(u64::MAX as u128) as u64
            }
        }
    }
    fn tree(&self) -> J {
        match self {
            Counter::Int(n) => J::Num(N::Pos(*n)),
            Counter::Flt { text, m, e } => J::Num(N::Flt { text: text.clone(), neg: false, m: *m, e: *e }),
        }
    }
}

#[derive(Clone, Debug, PartialEq)]
pub struct JBr {
    pub count: Counter,
    pub throw: bool,
    pub fallthrough: bool,
}
#[derive(Clone, Debug, PartialEq)]
pub struct JLine {
    pub line_number: u32,
    /// None = key absent, Some(None) = null
    pub function_name: Option<Option<String>>,
    pub count: Counter,
    pub unexecuted_block: bool,
    pub branches: Vec<JBr>,
}
#[derive(Clone, Debug, PartialEq)]
pub struct JFn {
    pub name: String,
    pub demangled_name: String,
    pub start_line: u32,
    pub start_column: u32,
    pub end_line: u32,
    pub end_column: u32,
    pub blocks: u32,
    pub blocks_executed: u32,
    pub execution_count: Counter,
}
#[derive(Clone, Debug, PartialEq)]
pub struct JFile {
    pub file: String,
    pub functions: Vec<JFn>,
    pub lines: Vec<JLine>,
}
#[derive(Clone, Debug, PartialEq)]
pub struct JDoc {
    pub format_version: String,
    pub gcc_version: String,
    pub cwd: Option<Option<String>>,
    pub data_file: String,
    pub files: Vec<JFile>,
}

/// a float literal whose decimal value is exactly m·2^e and that serde_json's (non-roundtrip)
/// float reader gets exactly: all digits taken together stay below 2^53
pub fn gen_float(rng: &mut Rng) -> Counter {
    let lim53: u64 = 1 << 53;
    match rng.below(9) {
        0 => {
            let a = rng.below(lim53 / 10);
            Counter::Flt { text: format!("{}.0", a), m: a, e: 0 }
        }
        1 => {
            let a = rng.below(1000);
            Counter::Flt { text: format!("{}.000", a), m: a, e: 0 }
        }
        2 => {
            let a = rng.below(lim53 / 10);
            Counter::Flt { text: format!("{}.5", a), m: 2 * a + 1, e: -1 }
        }
        3 => {
            let a = rng.below(1 << 40);
            let q = *rng.pick(&[25u64, 75]);
            Counter::Flt { text: format!("{}.{}", a, q), m: 4 * a + q / 25, e: -2 }
        }
        4 => {
            let a = rng.below(lim53);
            let t = *rng.pick(&["e0", "E0", "e+0", "E-0", "e00"]);
            Counter::Flt { text: format!("{}{}", a, t), m: a, e: 0 }
        }
        5 => {
            let a = rng.below(1 << 40);
            let k = rng.range(1, 3);
            Counter::Flt { text: format!("{}e{}", a, k), m: a * 10u64.pow(k as u32), e: 0 }
        }
        6 => {
            // d.ddd e k with k = number of decimals: an integer
            let a = rng.range(1, 999_999);
            let s = a.to_string();
            let (h, t) = s.split_at(1);
            if t.is_empty() {
                Counter::Flt { text: format!("{}.0e0", h), m: a, e: 0 }
            } else {
                Counter::Flt { text: format!("{}.{}e{}", h, t, t.len()), m: a, e: 0 }
            }
        }
        7 => {
            if rng.chance(1, 3) {
                // the largest f64 below 2^64, (2^53-1)·2^11 = 18446744073709549568: the largest accepted
                // float (2^64 itself is rejected since /repo 5cfb47a); `reads_back` re-checks the literal
                Counter::Flt { text: "1.844674407370955e19".to_string(), m: (1 << 53) - 1, e: 11 }
            } else {
                Counter::Flt { text: rng.pick(&["0.0", "0e0", "0.000", "0E5"]).to_string(), m: 0, e: 0 }
            }
        }
        _ => {
            let a = rng.below(5000);
            Counter::Flt { text: format!("{}.0", a), m: a, e: 0 }
        }
    }
}

pub fn gen_counter(rng: &mut Rng) -> Counter {
    match rng.below(14) {
        0 | 1 => Counter::Int(0),
        12 => Counter::Int(rng.range(1, 2)),
        13 => {
            // floats around the "positive" threshold: 0.5 truncates to 0, 1.0 and 1.5 to 1
            let (t, m, e) = *rng.pick(&[("0.5", 1u64, -1i32), ("1.0", 1, 0), ("1.5", 3, -1), ("0.25", 1, -2), ("2.0", 1, 1), ("1e0", 1, 0)]);
            Counter::Flt { text: t.to_string(), m, e }
        }
        2 => Counter::Int(*rng.pick(&[u64::MAX, u64::MAX - 1, 1 << 63, (1 << 63) - 1, 1 << 53, (1 << 53) + 1])),
        3 => Counter::Int(rng.next()),
        4..=6 => gen_float(rng),
        _ => Counter::Int(rng.range(1, 100000)),
    }
}

fn gen_u32(rng: &mut Rng) -> u32 {
    match rng.below(12) {
        0 => u32::MAX,
        1 => 0,
        2 => rng.next() as u32,
        _ => rng.range(1, 60) as u32,
    }
}

pub fn gen_file(rng: &mut Rng, dups: bool) -> JFile {
    let file = rng.pick(crate::text::FILE_NAMES).to_string();
    let mut functions = vec![];
    let mut names: Vec<String> = vec![];
    for _ in 0..rng.below(4) {
        let d = rng.pick(crate::text::FN_NAMES).to_string();
        if !dups && names.contains(&d) {
            continue;
        }
        names.push(d.clone());
        functions.push(JFn {
            name: format!("_Z{}", rng.below(1000)),
            demangled_name: d,
            start_line: gen_u32(rng),
            start_column: gen_u32(rng),
            end_line: gen_u32(rng),
            end_column: gen_u32(rng),
            blocks: gen_u32(rng),
            blocks_executed: gen_u32(rng),
            execution_count: gen_counter(rng),
        });
    }
    let mut lines = vec![];
    let nl = if rng.chance(1, 6) { 0 } else { rng.range(1, 7) };
    let mut used: Vec<u32> = vec![];
    for _ in 0..nl {
        let l = if rng.chance(1, 25) { gen_u32(rng) } else { rng.range(1, 12) as u32 };
        if !dups && used.contains(&l) {
            continue;
        }
        used.push(l);
        let nb = if rng.chance(1, 2) { 0 } else { rng.range(1, 4) };
        lines.push(JLine {
            line_number: l,
            function_name: match rng.below(4) {
                0 => None,
                1 => Some(None),
                _ => Some(Some(rng.pick(crate::text::FN_NAMES).to_string())),
            },
            count: gen_counter(rng),
            unexecuted_block: rng.chance(1, 3),
            branches: (0..nb)
                .map(|_| JBr { count: gen_counter(rng), throw: rng.chance(1, 4), fallthrough: rng.chance(1, 2) })
                .collect(),
        });
    }
    if dups {
        // gcov >= 9: one entry per instance of a function group - repeat line numbers on purpose,
        // with and without branches and with branch arrays of different lengths; functions that
        // share a demangled name (constructor variants)
        let k = lines.len();
        for i in 0..k {
            if rng.chance(1, 2) {
                let mut l = lines[i].clone();
                l.count = if rng.chance(1, 8) { Counter::Int(u64::MAX - rng.below(3)) } else { gen_counter(rng) };
                let nb = match rng.below(4) {
                    0 => 0,
                    1 => l.branches.len() as u64,
                    2 => l.branches.len() as u64 + rng.range(1, 2),
                    _ => rng.range(1, 4),
                };
                l.branches = (0..nb)
                    .map(|_| JBr { count: gen_counter(rng), throw: rng.chance(1, 4), fallthrough: rng.chance(1, 2) })
                    .collect();
                let at = rng.below(lines.len() as u64 + 1) as usize;
                lines.insert(at, l);
            }
        }
        let k = functions.len();
        for i in 0..k {
            if rng.chance(1, 2) {
                let mut g = functions[i].clone();
                g.name = format!("_Z{}v", rng.below(1000));
                g.execution_count = gen_counter(rng);
                if rng.chance(1, 2) {
                    g.start_line = gen_u32(rng);
                }
                let at = rng.below(functions.len() as u64 + 1) as usize;
                functions.insert(at, g);
            }
        }
    }
    JFile { file, functions, lines }
}

pub fn gen_doc(rng: &mut Rng, dups: bool) -> JDoc {
    let nf = match rng.below(10) {
        0 => 0,
        1..=5 => 1,
        6..=8 => rng.range(2, 3),
        _ => rng.range(4, 5),
    };
    JDoc {
        format_version: rng.pick(&["1", "1", "1", "2", ""]).to_string(),
        gcc_version: rng.pick(&["9.3.0", "13.2.1 20230801", "é"]).to_string(),
        cwd: match rng.below(4) {
            0 => None,
            1 => Some(None),
            _ => Some(Some(rng.pick(&["/build", "C:\\b \"q\"", "/tmp/\u{1}x"]).to_string())),
        },
        data_file: rng.pick(&["a.gcda", "/x/y/z.gcno", ""]).to_string(),
        files: (0..nf).map(|_| gen_file(rng, dups)).collect(),
    }
}

fn u(n: u32) -> J {
    J::Num(N::Pos(n as u64))
}
fn s(x: &str) -> J {
    J::Str(x.to_string())
}
fn optstr(o: &Option<Option<String>>, key: &str, kvs: &mut Vec<(String, J)>) {
    match o {
        None => {}
        Some(None) => kvs.push((key.to_string(), J::Null)),
        Some(Some(x)) => kvs.push((key.to_string(), s(x))),
    }
}

/// unknown keys that newer gcov versions write (ignored by the reader)
fn extras(rng: &mut Rng, kvs: &mut Vec<(String, J)>) {
    if rng.chance(1, 5) {
        let (k, v) = match rng.below(5) {
            0 => ("block_ids", J::Arr(vec![u(1), u(2)])),
            1 => ("calls", J::Arr(vec![])),
            2 => ("destination_block_id", u(7)),
            3 => ("conditions", J::Arr(vec![J::Obj(vec![("count".into(), J::Num(N::Neg(1)))])])),
            _ => ("comment", J::Null),
        };
        kvs.push((k.to_string(), v));
        if rng.chance(1, 4) {
            // an unknown key may even repeat
            kvs.push((k.to_string(), J::Bool(true)));
        }
    }
}

fn finish_obj(rng: &mut Rng, mut kvs: Vec<(String, J)>, shuffle: bool) -> J {
    extras(rng, &mut kvs);
    if shuffle {
        rng.shuffle(&mut kvs);
    }
    J::Obj(kvs)
}

/// the document as gcov writes it (objects), keys in declaration order or shuffled
pub fn to_tree(d: &JDoc, rng: &mut Rng, shuffle: bool) -> J {
    let files = d
        .files
        .iter()
        .map(|f| {
            let functions = f
                .functions
                .iter()
                .map(|x| {
                    finish_obj(
                        rng,
                        vec![
                            ("name".into(), s(&x.name)),
                            ("demangled_name".into(), s(&x.demangled_name)),
                            ("start_line".into(), u(x.start_line)),
                            ("start_column".into(), u(x.start_column)),
                            ("end_line".into(), u(x.end_line)),
                            ("end_column".into(), u(x.end_column)),
                            ("blocks".into(), u(x.blocks)),
                            ("blocks_executed".into(), u(x.blocks_executed)),
                            ("execution_count".into(), x.execution_count.tree()),
                        ],
                        shuffle,
                    )
                })
                .collect();
            let lines = f
                .lines
                .iter()
                .map(|l| {
                    let branches = l
                        .branches
                        .iter()
                        .map(|b| {
                            finish_obj(
                                rng,
                                vec![
                                    ("count".into(), b.count.tree()),
                                    ("throw".into(), J::Bool(b.throw)),
                                    ("fallthrough".into(), J::Bool(b.fallthrough)),
                                ],
                                shuffle,
                            )
                        })
                        .collect();
                    let mut kvs = vec![("line_number".to_string(), u(l.line_number))];
                    optstr(&l.function_name, "function_name", &mut kvs);
                    kvs.push(("count".into(), l.count.tree()));
                    kvs.push(("unexecuted_block".into(), J::Bool(l.unexecuted_block)));
                    kvs.push(("branches".into(), J::Arr(branches)));
                    finish_obj(rng, kvs, shuffle)
                })
                .collect();
            finish_obj(
                rng,
                vec![
                    ("file".into(), s(&f.file)),
                    ("functions".into(), J::Arr(functions)),
                    ("lines".into(), J::Arr(lines)),
                ],
                shuffle,
            )
        })
        .collect();
    let mut kvs = vec![
        ("format_version".to_string(), s(&d.format_version)),
        ("gcc_version".to_string(), s(&d.gcc_version)),
    ];
    optstr(&d.cwd, "current_working_directory", &mut kvs);
    kvs.push(("data_file".into(), s(&d.data_file)));
    kvs.push(("files".into(), J::Arr(files)));
    finish_obj(rng, kvs, shuffle)
}

/// What the document says, written independently of grcov and key by key (no running map):
/// * a line's count is the SUM of the counts of all entries with its number, clamped at 2^64-1
///   (gcov >= 9 lists a line once per template instantiation / constructor variant);
/// * its branch vector is as long as the longest `branches` array among those entries, slot i taken
///   iff some entry has a positive count at position i; lines none of whose entries has branches have
///   no vector;
/// * a function (demangled name) is executed iff some entry with that name has a positive execution
///   count, and starts where the first such entry starts.
pub fn sem(d: &JDoc) -> Vec<(String, CovResult)> {
    let mut out = vec![];
    for f in &d.files {
        if f.lines.is_empty() {
            continue;
        }
        let mut cov = CovResult::default();
        let mut nums: Vec<u32> = f.lines.iter().map(|l| l.line_number).collect();
        nums.sort();
        nums.dedup();
        for n in nums {
            let entries: Vec<&JLine> = f.lines.iter().filter(|l| l.line_number == n).collect();
            let total: u128 = entries.iter().map(|l| l.count.value() as u128).sum();
            cov.lines.insert(n, total.min(u64::MAX as u128) as u64);
            let slots = entries.iter().map(|l| l.branches.len()).max().unwrap_or(0);
            if slots > 0 {
                let v: Vec<bool> = (0..slots)
                    .map(|i| entries.iter().any(|l| l.branches.get(i).map(|b| b.count.value() > 0).unwrap_or(false)))
                    .collect();
                cov.branches.insert(n, v);
            }
        }
        let mut names: Vec<&String> = f.functions.iter().map(|x| &x.demangled_name).collect();
        names.sort();
        names.dedup();
        for name in names {
            let entries: Vec<&JFn> = f.functions.iter().filter(|x| &x.demangled_name == name).collect();
            cov.functions.insert(
                name.clone(),
                Function { start: entries[0].start_line, executed: entries.iter().any(|x| x.execution_count.value() > 0) },
            );
        }
        out.push((f.file.clone(), cov));
    }
    out
}

pub fn sem_json(d: &JDoc) -> String {
    format!("ok {}", show_results_ordered(&sem(d))).trim_end().to_string()
}

pub fn features(d: &JDoc) -> Vec<&'static str> {
    let mut f = vec![];
    if d.files.is_empty() {
        f.push("no_file");
    }
    f.push(match &d.cwd {
        None => "cwd.absent",
        Some(None) => "cwd.null",
        _ => "cwd.string",
    });
    let ctr = |c: &Counter, f: &mut Vec<&'static str>| match c {
        Counter::Int(0) => f.push("counter.int_zero"),
        Counter::Int(n) if *n >= 1 << 53 => f.push("counter.int_ge_2^53"),
        Counter::Int(_) => f.push("counter.int"),
        Counter::Flt { m: 0, .. } => f.push("counter.float_zero"),
        Counter::Flt { e: 11, .. } => f.push("counter.float_largest_below_2^64"),
        Counter::Flt { e, .. } if *e < 0 => f.push("counter.float_fraction"),
        Counter::Flt { .. } => f.push("counter.float_integral"),
    };
    for x in &d.files {
        if x.lines.is_empty() {
            f.push("file.without_lines");
        }
        let mut nums: Vec<u32> = x.lines.iter().map(|l| l.line_number).collect();
        nums.sort();
        nums.dedup();
        for n in nums {
            let es: Vec<&JLine> = x.lines.iter().filter(|l| l.line_number == n).collect();
            if es.len() > 1 {
                f.push("line.listed_several_times");
                let lens: Vec<usize> = es.iter().map(|l| l.branches.len()).collect();
                if lens.iter().any(|&k| k == 0) && lens.iter().any(|&k| k > 0) {
                    f.push("line.repeated.with_and_without_branches");
                }
                let pos: Vec<usize> = lens.iter().cloned().filter(|&k| k > 0).collect();
                if pos.iter().any(|&k| k != pos[0]) {
                    f.push("line.repeated.branch_arrays_of_different_length");
                }
                if es.iter().map(|l| l.count.value() as u128).sum::<u128>() > u64::MAX as u128 {
                    f.push("line.repeated.sum_saturates");
                }
                if es.iter().any(|l| l.count.value() > 0) && es.last().map(|l| l.count.value() == 0).unwrap_or(false) {
                    f.push("line.repeated.last_entry_zero_but_executed");
                }
            }
        }
        let mut names: Vec<&String> = x.functions.iter().map(|g| &g.demangled_name).collect();
        names.sort();
        names.dedup();
        for name in names {
            let es: Vec<&JFn> = x.functions.iter().filter(|g| &g.demangled_name == name).collect();
            if es.len() > 1 {
                f.push("function.demangled_name_shared");
                if es.iter().any(|g| g.execution_count.value() > 0) && es.last().map(|g| g.execution_count.value() == 0).unwrap_or(false) {
                    f.push("function.shared_name.last_entry_not_executed_but_executed");
                }
            }
        }
        for l in &x.lines {
            f.push("line");
            ctr(&l.count, &mut f);
            if l.branches.is_empty() {
                f.push("line.no_branches");
            }
            for b in &l.branches {
                f.push(if b.count.value() > 0 { "branch.taken" } else { "branch.not_taken" });
                ctr(&b.count, &mut f);
            }
        }
        for g in &x.functions {
            f.push(if g.execution_count.value() > 0 { "function.executed" } else { "function.not_executed" });
            if g.demangled_name.contains(',') {
                f.push("function.name_with_comma");
            }
        }
    }
    f
}

pub fn nontrivial(d: &JDoc) -> bool {
    d.files
        .iter()
        .any(|f| !f.lines.is_empty() && (!f.functions.is_empty() || f.lines.iter().any(|l| !l.branches.is_empty())))
}

// ---------------------------------------------------------------------------------------------
// tree mutations (malformed / unusual but possibly still valid documents)

fn count_nodes(j: &J) -> usize {
    1 + match j {
        J::Arr(xs) => xs.iter().map(count_nodes).sum(),
        J::Obj(kvs) => kvs.iter().map(|(_, v)| count_nodes(v)).sum(),
        _ => 0,
    }
}

fn nth_mut<'a>(j: &'a mut J, n: &mut usize) -> Option<&'a mut J> {
    if *n == 0 {
        return Some(j);
    }
    *n -= 1;
    match j {
        J::Arr(xs) => {
            for x in xs.iter_mut() {
                if let Some(r) = nth_mut(x, n) {
                    return Some(r);
                }
            }
            None
        }
        J::Obj(kvs) => {
            for (_, v) in kvs.iter_mut() {
                if let Some(r) = nth_mut(v, n) {
                    return Some(r);
                }
            }
            None
        }
        _ => None,
    }
}

const DECL_ORDER: &[&[&str]] = &[
    &["format_version", "gcc_version", "current_working_directory", "data_file", "files"],
    &["file", "functions", "lines"],
    &["line_number", "function_name", "count", "unexecuted_block", "branches"],
    &["count", "throw", "fallthrough"],
    &[
        "name", "demangled_name", "start_line", "start_column", "end_line", "end_column", "blocks",
        "blocks_executed", "execution_count",
    ],
];

/// exact value of a literal that serde_json reads with a single correctly rounded operation
/// (one digit group times/over an exactly representable power of ten)
pub fn flt_of_text(text: &str) -> N {
    let v: f64 = text.parse().unwrap();
    let bits = v.to_bits();
    let neg = bits >> 63 == 1;
    let exp = ((bits >> 52) & 0x7ff) as i32;
    let frac = bits & ((1u64 << 52) - 1);
    let (mut m, mut e) = if exp == 0 { (frac, -1074) } else { (frac | (1 << 52), exp - 1075) };
    while m != 0 && m % 2 == 0 {
        m /= 2;
        e += 1;
    }
    if m == 0 {
        e = 0;
    }
    N::Flt { text: text.to_string(), neg, m, e }
}

fn odd_number(rng: &mut Rng) -> J {
    J::Num(match rng.below(12) {
        0 => N::Neg(1),
        1 => N::Neg(1 << 63),
        2 => N::Neg(rng.range(1, 1000)),
        3 => N::Flt { text: "-0.0".into(), neg: true, m: 0, e: 0 },
        4 => N::Flt { text: "-0".into(), neg: true, m: 0, e: 0 },
        5 => N::Flt { text: "-1.0".into(), neg: true, m: 1, e: 0 },
        6 => N::Flt { text: "-2.5e0".into(), neg: true, m: 5, e: -1 },
        // 2^64 exactly (both rounding steps of serde_json's reader are exact here, see final report)
        7 => N::Flt { text: "1.8446744073709552e19".into(), neg: false, m: 1, e: 64 },
        // the next f64 above 2^64
        8 => N::Flt { text: "1.8446744073709556e19".into(), neg: false, m: (1 << 52) + 1, e: 12 },
        9 => N::Pos(*rng.pick(&[u32::MAX as u64 + 1, u64::MAX, 1 << 32, 1 << 40])),
        10 => flt_of_text("1e300"),
        _ => N::Flt { text: "3.0".into(), neg: false, m: 3, e: 0 },
    })
}

/// one random structural mutation; returns its name
pub fn mutate(j: &mut J, rng: &mut Rng) -> &'static str {
    for _ in 0..8 {
        let what = mutate_once(j, rng);
        if what != "none" {
            return what;
        }
    }
    "none"
}

fn is_num(j: &J) -> bool {
    matches!(j, J::Num(_))
}

/// index (pre-order) of a random node satisfying `pred`, if any
fn pick_where(j: &J, rng: &mut Rng, pred: fn(&J) -> bool) -> Option<usize> {
    fn walk(j: &J, pred: fn(&J) -> bool, i: &mut usize, out: &mut Vec<usize>) {
        if pred(j) {
            out.push(*i);
        }
        *i += 1;
        match j {
            J::Arr(xs) => xs.iter().for_each(|x| walk(x, pred, i, out)),
            J::Obj(kvs) => kvs.iter().for_each(|(_, v)| walk(v, pred, i, out)),
            _ => {}
        }
    }
    let mut out = vec![];
    walk(j, pred, &mut 0, &mut out);
    if out.is_empty() {
        None
    } else {
        Some(*rng.pick(&out))
    }
}

fn mutate_once(j: &mut J, rng: &mut Rng) -> &'static str {
    let choice = rng.below(10);
    let total = count_nodes(j);
    let mut k = match choice {
        // numbers are where the interesting boundaries are
        2 | 9 => pick_where(j, rng, is_num).unwrap_or(0),
        0 | 1 | 4 | 5 | 6 | 8 => pick_where(j, rng, |x| matches!(x, J::Obj(_))).unwrap_or(0),
        _ => rng.below(total as u64) as usize,
    };
    let node = nth_mut(j, &mut k).unwrap();
    match choice {
        0 => {
            if let J::Obj(kvs) = node {
                if !kvs.is_empty() {
                    let i = rng.below(kvs.len() as u64) as usize;
                    kvs.remove(i);
                    return "drop_key";
                }
            }
            *node = J::Null;
            "to_null"
        }
        1 => {
            if let J::Obj(kvs) = node {
                if !kvs.is_empty() {
                    let i = rng.below(kvs.len() as u64) as usize;
                    let kv = kvs[i].clone();
                    let at = rng.below(kvs.len() as u64 + 1) as usize;
                    kvs.insert(at, kv);
                    return "duplicate_key";
                }
            }
            *node = J::Bool(rng.chance(1, 2));
            "to_bool"
        }
        2 | 9 => {
            let num = is_num(node);
            *node = odd_number(rng);
            if num { "number_to_odd_number" } else { "to_odd_number" }
        }
        3 => {
            *node = match rng.below(5) {
                0 => J::Null,
                1 => J::Str("1".into()),
                2 => J::Arr(vec![]),
                3 => J::Obj(vec![]),
                _ => J::Bool(false),
            };
            "to_other_type"
        }
        4 | 5 => {
            // struct as a JSON array in declaration order (serde accepts it), sometimes one short/long
            if let J::Obj(kvs) = node {
                for decl in DECL_ORDER {
                    let known: Vec<&String> = kvs.iter().map(|(k, _)| k).filter(|k| decl.contains(&k.as_str())).collect();
                    if !known.is_empty() && kvs.iter().any(|(k, _)| k == decl[0]) && kvs.iter().any(|(k, _)| k == decl[decl.len() - 1]) {
                        let mut xs = vec![];
                        for key in decl.iter() {
                            match kvs.iter().find(|(k, _)| k == key) {
                                Some((_, v)) => xs.push(v.clone()),
                                None => xs.push(J::Null), // only an absent Option<String> field
                            }
                        }
                        let what = match rng.below(5) {
                            0 => {
                                xs.pop();
                                "struct_as_short_array"
                            }
                            1 => {
                                xs.push(J::Null);
                                "struct_as_long_array"
                            }
                            _ => "struct_as_array",
                        };
                        *node = J::Arr(xs);
                        return what;
                    }
                }
            }
            *node = J::Str("x".into());
            "to_string"
        }
        6 => {
            if let J::Obj(kvs) = node {
                kvs.push(("unknown_key".into(), J::Arr(vec![J::Null, J::Obj(vec![])])));
                return "add_unknown_key";
            }
            if let J::Arr(xs) = node {
                if !xs.is_empty() {
                    let i = rng.below(xs.len() as u64) as usize;
                    let x = xs[i].clone();
                    xs.push(x);
                    return "repeat_element";
                }
            }
            "none"
        }
        7 => {
            if let J::Arr(xs) = node {
                xs.push(J::Num(N::Pos(1)));
                return "array_gets_number";
            }
            if let J::Num(_) = node {
                *node = J::Str("5".into());
                return "number_as_string";
            }
            "none"
        }
        _ => {
            if let J::Obj(kvs) = node {
                if !kvs.is_empty() {
                    // rename a key (missing + unknown)
                    let i = rng.below(kvs.len() as u64) as usize;
                    kvs[i].0 = format!("{}_", kvs[i].0);
                    return "rename_key";
                }
            }
            "none"
        }
    }
}
