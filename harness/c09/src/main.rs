//! C09 — gcov report fidelity (intermediate text format and gzip JSON format).
//! (1) spec oracle on the implementation: `parse_gcov(render ast) = sem ast`,
//!     `parse_gcov_gz(gzip(render(toJson doc))) = sem doc`, with shrinking;
//! (2) tie of `parse_gcov` to the Lean model `Gcov.Text.parse` (bytes) and of `parse_gcov_gz` to
//!     `Gcov.Json.fromReader` (JSON value tree) on well-formed and malformed inputs;
//! (3) robustness oracle (shared with C14): no input may panic the reader; the witnesses of the two
//!     defects repaired in /repo 9e71186 are replayed first and must give `err …`.
mod bytes;
mod json;
mod text;

use corrlib::lcov::{show_outcome, LAST_PANIC_SITE};
use corrlib::*;
use json::J;
use serde_json::json;
use std::path::PathBuf;

const MODEL: &str = "gm_c09";

struct Ctx {
    text_path: PathBuf,
    gz_path: PathBuf,
}
impl Ctx {
    fn new(rep: &Report) -> Ctx {
        let dir = rep.workdir.join("tmp");
        std::fs::create_dir_all(&dir).unwrap();
        Ctx { text_path: dir.join("case.gcov"), gz_path: dir.join("case.gcov.json.gz") }
    }
}

/// (canonical outcome, panic site + message when it panicked)
fn impl_text(ctx: &Ctx, bytes: &[u8]) -> (String, String) {
    std::fs::write(&ctx.text_path, bytes).unwrap();
    let p = ctx.text_path.clone();
    let out = show_outcome(&guarded(move || grcov::parse_gcov(&p)));
    let site = if out == "panic" { LAST_PANIC_SITE.with(|c| c.borrow().clone()) } else { String::new() };
    (out, site)
}

fn impl_gz(ctx: &Ctx, gz: &[u8]) -> (String, String) {
    std::fs::write(&ctx.gz_path, gz).unwrap();
    let p = ctx.gz_path.clone();
    let out = show_outcome(&guarded(move || grcov::parse_gcov_gz(&p)));
    let site = if out == "panic" { LAST_PANIC_SITE.with(|c| c.borrow().clone()) } else { String::new() };
    (out, site)
}

fn text_req(bytes: &[u8]) -> String {
    format!("gcov.text {}", hex(bytes)).trim_end().to_string()
}
fn json_req(tree: Option<&J>) -> String {
    match tree {
        None => "gcov.json !".to_string(),
        Some(j) => {
            let mut s = String::from("gcov.json ");
            json::encode(j, &mut s);
            s
        }
    }
}

// ---------------------------------------------------------------------------------------------
// spec oracle, text

fn text_fidelity_fails(ctx: &Ctx, r: &text::Report) -> Option<(String, String)> {
    let got = impl_text(ctx, &text::render(r)).0;
    let want = text::sem_text(r);
    if got != want {
        Some((got, want))
    } else {
        None
    }
}

fn text_has_dups(r: &text::Report) -> bool {
    r.secs.iter().any(|s| {
        let mut ls = vec![];
        let mut fs = vec![];
        for rec in &s.recs {
            match rec {
                text::Rec::Lcount(l, _) => {
                    if ls.contains(&l.val) {
                        return true;
                    }
                    ls.push(l.val)
                }
                text::Rec::Function(_, _, n) => {
                    // names meet after decoding
                    let n = text::decode_name(n);
                    if fs.contains(&n) {
                        return true;
                    }
                    fs.push(n)
                }
                _ => {}
            }
        }
        false
    })
}

fn shrink_text(ctx: &Ctx, mut r: text::Report) -> text::Report {
    loop {
        let mut progressed = false;
        let mut i = 0;
        while i < r.secs.len() {
            let mut t = r.clone();
            t.secs.remove(i);
            if text_fidelity_fails(ctx, &t).is_some() {
                r = t;
                progressed = true;
            } else {
                i += 1;
            }
        }
        for s in 0..r.secs.len() {
            let mut j = 0;
            while j < r.secs[s].recs.len() {
                let mut t = r.clone();
                t.secs[s].recs.remove(j);
                if text_fidelity_fails(ctx, &t).is_some() {
                    r = t;
                    progressed = true;
                } else {
                    j += 1;
                }
            }
        }
        if !r.pre.is_empty() {
            let mut t = r.clone();
            t.pre.clear();
            if text_fidelity_fails(ctx, &t).is_some() {
                r = t;
                progressed = true;
            }
        }
        if r.eol != 0 || !r.final_newline {
            let mut t = r.clone();
            t.eol = 0;
            t.final_newline = true;
            if text_fidelity_fails(ctx, &t).is_some() {
                r = t;
                progressed = true;
            }
        }
        if !progressed {
            return r;
        }
    }
}

/// returns true when the oracle failed
fn check_text_fidelity(rep: &mut Report, ctx: &Ctx, r: &text::Report) -> bool {
    if text_fidelity_fails(ctx, r).is_none() {
        return false;
    }
    let min = shrink_text(ctx, r.clone());
    let (got, want) = text_fidelity_fails(ctx, &min).unwrap();
    let bytes = text::render(&min);
    rep.fail(
        "oracle",
        None,
        "parse_gcov(render report) != what the records say (minimised)".into(),
        json!({"op": "gcov.text", "input_hex": hex(&bytes), "input": String::from_utf8_lossy(&bytes),
               "ast": text::show_report(&min), "impl": got, "spec": want}),
    );
    true
}

// ---------------------------------------------------------------------------------------------
// spec oracle, JSON

struct JsonCase {
    tree: J,
    text: String,
    gz: Vec<u8>,
}

fn build_json_case(tree: J, rng: &mut Rng, style: u8) -> JsonCase {
    let mut text = String::new();
    json::render(&tree, rng, style, &mut text);
    // harness self-check: what we wrote is what we say we wrote
    let v: serde_json::Value = serde_json::from_str(&text)
        .unwrap_or_else(|e| panic!("harness bug: rendered JSON does not parse: {} in {}", e, text));
    if !json::reads_back(&tree, &v) {
        eprintln!("harness self-check failed: JSON text does not read back as the tree sent to the model\n{}", text);
        std::process::exit(2);
    }
    let gz = json::gzip(text.as_bytes());
    JsonCase { tree, text, gz }
}

fn json_fidelity_fails(ctx: &Ctx, d: &json::JDoc, seed: u64, shuffle: bool, style: u8) -> Option<(String, String, JsonCase)> {
    let mut rng = Rng(seed);
    let tree = json::to_tree(d, &mut rng, shuffle);
    let case = build_json_case(tree, &mut rng, style);
    let got = impl_gz(ctx, &case.gz).0;
    let want = json::sem_json(d);
    if got != want {
        Some((got, want, case))
    } else {
        None
    }
}

fn json_has_dups(d: &json::JDoc) -> bool {
    d.files.iter().any(|f| {
        let mut ls = vec![];
        for l in &f.lines {
            if ls.contains(&l.line_number) {
                return true;
            }
            ls.push(l.line_number);
        }
        let mut ns = vec![];
        for g in &f.functions {
            if ns.contains(&&g.demangled_name) {
                return true;
            }
            ns.push(&g.demangled_name);
        }
        false
    })
}

fn shrink_json(ctx: &Ctx, mut d: json::JDoc, seed: u64, shuffle: bool, style: u8) -> json::JDoc {
    let fails = |d: &json::JDoc| json_fidelity_fails(ctx, d, seed, shuffle, style).is_some();
    loop {
        let mut progressed = false;
        let mut i = 0;
        while i < d.files.len() {
            let mut t = d.clone();
            t.files.remove(i);
            if fails(&t) {
                d = t;
                progressed = true;
            } else {
                i += 1;
            }
        }
        for f in 0..d.files.len() {
            let mut j = 0;
            while j < d.files[f].lines.len() {
                let mut t = d.clone();
                t.files[f].lines.remove(j);
                if fails(&t) {
                    d = t;
                    progressed = true;
                    continue;
                }
                let mut k = 0;
                while k < d.files[f].lines[j].branches.len() {
                    let mut t = d.clone();
                    t.files[f].lines[j].branches.remove(k);
                    if fails(&t) {
                        d = t;
                        progressed = true;
                    } else {
                        k += 1;
                    }
                }
                j += 1;
            }
            let mut j = 0;
            while j < d.files[f].functions.len() {
                let mut t = d.clone();
                t.files[f].functions.remove(j);
                if fails(&t) {
                    d = t;
                    progressed = true;
                } else {
                    j += 1;
                }
            }
        }
        if !progressed {
            return d;
        }
    }
}

fn check_json_fidelity(rep: &mut Report, ctx: &Ctx, d: &json::JDoc, seed: u64, shuffle: bool, style: u8) -> bool {
    if json_fidelity_fails(ctx, d, seed, shuffle, style).is_none() {
        return false;
    }
    let min = shrink_json(ctx, d.clone(), seed, shuffle, style);
    let (got, want, case) = json_fidelity_fails(ctx, &min, seed, shuffle, style).unwrap();
    rep.fail(
        "oracle",
        None,
        "parse_gcov_gz(gzip(json of document)) != what the document says (minimised)".into(),
        json!({"op": "gcov.json", "gz_hex": hex(&case.gz), "json": case.text, "tree": json_req(Some(&case.tree)),
               "impl": got, "spec": want}),
    );
    true
}

// ---------------------------------------------------------------------------------------------

struct TieCase {
    req: String,
    impl_out: String,
    site: String,
    /// text: the input bytes; json: the gz bytes
    bytes: Vec<u8>,
    json_text: Option<String>,
    is_text: bool,
    oracle_failed: bool,
}

/// robustness oracle: a panic of either reader on any input is a violation
fn report_panic(rep: &mut Report, ctx: &Ctx, c: &TieCase, budget: &mut u32) {
    if c.impl_out != "panic" {
        return;
    }
    rep.count(if c.is_text { "robustness.panic.text" } else { "robustness.panic.json" });
    if *budget == 0 {
        return;
    }
    *budget -= 1;
    if c.is_text {
        let min = shrink_text_panic(ctx, &c.bytes);
        rep.fail(
            "oracle",
            None,
            format!("parse_gcov panics: {}", truncate(&c.site, 300)),
            json!({"op": "gcov.text", "input_hex": hex(&min), "input": String::from_utf8_lossy(&min),
                   "impl": "panic", "site": truncate(&c.site, 300)}),
        );
    } else {
        rep.fail(
            "oracle",
            None,
            format!("parse_gcov_gz panics: {}", truncate(&c.site, 300)),
            json!({"op": "gcov.json", "gz_hex": hex(&c.bytes), "json": c.json_text,
                   "tree": c.req.strip_prefix("gcov.json ").unwrap_or("!"), "impl": "panic",
                   "site": truncate(&c.site, 300)}),
        );
    }
}

fn truncate(s: &str, n: usize) -> String {
    s.chars().take(n).collect()
}

/// smallest set of lines that still panics
fn shrink_text_panic(ctx: &Ctx, bytes: &[u8]) -> Vec<u8> {
    let mut cur = bytes.to_vec();
    loop {
        let lines: Vec<&[u8]> = cur.split_inclusive(|&c| c == b'\n').collect();
        let mut next = None;
        for i in 0..lines.len() {
            let t: Vec<u8> = lines.iter().enumerate().filter(|(j, _)| *j != i).flat_map(|(_, l)| l.iter().cloned()).collect();
            if impl_text(ctx, &t).0 == "panic" {
                next = Some(t);
                break;
            }
        }
        match next {
            Some(t) => cur = t,
            None => return cur,
        }
    }
}

fn model_one(rep: &Report, req: &str) -> String {
    run_model_named(MODEL, &[req.to_string()], &rep.workdir, "one").remove(0)
}

/// minimise a text input on which model and implementation differ (drop lines, then bytes)
fn shrink_text_disagreement(rep: &Report, ctx: &Ctx, bytes: &[u8]) -> Vec<u8> {
    let differs = |b: &[u8]| -> bool { impl_text(ctx, b).0 != model_one(rep, &text_req(b)) };
    let mut cur = bytes.to_vec();
    loop {
        let lines: Vec<&[u8]> = cur.split_inclusive(|&c| c == b'\n').collect();
        let mut next = None;
        for i in 0..lines.len() {
            let t: Vec<u8> = lines.iter().enumerate().filter(|(j, _)| *j != i).flat_map(|(_, l)| l.iter().cloned()).collect();
            if differs(&t) {
                next = Some(t);
                break;
            }
        }
        match next {
            Some(t) => cur = t,
            None => break,
        }
    }
    let mut i = 0;
    let mut budget = 200;
    while i < cur.len() && budget > 0 {
        let mut t = cur.clone();
        t.remove(i);
        budget -= 1;
        if differs(&t) {
            cur = t;
        } else {
            i += 1;
        }
    }
    cur
}

fn tie(rep: &mut Report, ctx: &Ctx, cases: &[TieCase]) {
    if std::env::var("VERIF_NO_MODEL").is_ok() {
        return;
    }
    let reqs: Vec<String> = cases.iter().map(|c| c.req.clone()).collect();
    let model = run_model_named(MODEL, &reqs, &rep.workdir, "gcov");
    let mut shown = 0;
    for (i, c) in cases.iter().enumerate() {
        rep.count(&format!(
            "model.{}.{}",
            if c.is_text { "text" } else { "json" },
            model[i].split(' ').take(if model[i].starts_with("err") { 2 } else { 1 }).collect::<Vec<_>>().join("_")
        ));
        if model[i] == c.impl_out {
            continue;
        }
        rep.disagreements_checked += 1;
        if c.oracle_failed || shown >= 20 {
            // the failing input of this case is already reported by the spec oracle
            continue;
        }
        shown += 1;
        if c.is_text {
            let min = shrink_text_disagreement(rep, ctx, &c.bytes);
            let got = impl_text(ctx, &min).0;
            let m = model_one(rep, &text_req(&min));
            rep.fail(
                "disagreement",
                None,
                "parse_gcov differs from the Lean model Gcov.Text.parse (C09 theorems no longer transfer)".into(),
                json!({"op": "gcov.text", "input_hex": hex(&min), "input": String::from_utf8_lossy(&min),
                       "impl": got, "model": m}),
            );
        } else {
            rep.fail(
                "disagreement",
                None,
                "parse_gcov_gz differs from the Lean model Gcov.Json.fromReader (C09 theorems no longer transfer)".into(),
                json!({"op": "gcov.json", "gz_hex": hex(&c.bytes), "json": c.json_text,
                       "tree": c.req.strip_prefix("gcov.json ").unwrap_or("!"),
                       "impl": c.impl_out, "model": model[i]}),
            );
        }
    }
}

/// fixed corpus: the witnesses of the two repaired robustness defects (must now be errors) and a
/// few boundary files, each with the outcome the property demands
fn witnesses_text() -> Vec<(&'static str, Vec<u8>, &'static str)> {
    vec![
        ("lcount_before_any_file", b"lcount:1,1\n".to_vec(), "err InvalidRecord"),
        ("function_then_lcount_no_file", b"version:7\nfunction:1,1,f\nlcount:2,0\n".to_vec(), "err InvalidRecord"),
        ("lcount_before_file_is_dropped", b"lcount:1,1\nfile:a.c\nlcount:2,3\n".to_vec(), "ok K612e63=L2:3;B;F"),
        ("count_2^64", b"file:a.c\nlcount:1,18446744073709551616\n".to_vec(), "err Parse"),
        ("count_u64max", b"file:a.c\nlcount:1,18446744073709551615\n".to_vec(), "ok K612e63=L1:18446744073709551615;B;F"),
        ("negative", b"file:a.c\nlcount:1,-7\nlcount:2,-\n".to_vec(), "ok K612e63=L1:0,2:0;B;F"),
        ("blank_line", b"file:a.c\n\nlcount:1,1\n".to_vec(), "err InvalidRecord"),
        // gcov 8 (routed to parse_gcov by lib.rs, outside the property's quantifier): Lean
        // C09_text_gcov8_lcount_is_parse_error and the example next to it
        ("gcov8_lcount_three_fields", b"file:a.c\nlcount:10,1,0\n".to_vec(), "err Parse"),
        ("gcov8_function_four_fields", b"file:a.c\nfunction:10,12,0,foo\nlcount:10,1\n".to_vec(), "ok K612e63=L10:1;B;F302c666f6f:10:1"),
        (
            "crlf_and_no_final_newline",
            b"file:a.c\r\nfunction:3,0,a,b,c\r\nbranch:3,taken\r\nbranch:3,nottaken\r\nlcount:3,+07\r".to_vec(),
            "ok K612e63=L3:7;B3:10;F612c622c63:3:0",
        ),
        // /repo 7f9b2b3 (review item 10, probe3_nonutf8_gcov_name.rs): names that are not UTF-8 are decoded
        // lossily - FF and a lone C3 become U+FFFD; Lean example `exLossy`
        ("non_utf8_names_decoded_lossily", b"file:a\xff.c\nfunction:1,-5,f\xc3\nlcount:1,1\n".to_vec(), "ok K61efbfbd2e63=L1:1;B;F66efbfbd:1:1"),
        // two ill-formed names that decode to the same text are one function (last record wins)
        ("non_utf8_names_meet_after_decoding", b"file:a.c\nfunction:1,0,\xff\nfunction:2,3,\xfe\nlcount:1,1\n".to_vec(), "ok K612e63=L1:1;B;Fefbfbd:2:1"),
        // an ill-formed byte next to a separator does not move the separator
        ("non_utf8_next_to_separators", b"file:\xc3\nfunction:1,\xc3,\xc3,x\nlcount:1,1\n".to_vec(), "ok Kefbfbd=L1:1;B;Fefbfbd2c78:1:1"),
        // review item 35 / property text: executed iff the call count is non-zero - a negative count
        // (gcov prints a wrapped counter with its signed formatter) is executed; only lcount clamps
        ("function_negative_call_count_is_executed", b"file:a.c\nfunction:10,-2534,_Z3hotv\nfunction:11,-9223372036854775808,g\nfunction:12,0,h\nlcount:10,-2534\n".to_vec(), "ok K612e63=L10:0;B;F5f5a33686f7476:10:1,67:11:1,68:12:0"),
    ]
}

/// corpus/C09/*.json: minimised past failures (gzip bytes, the JSON text, the value tree in the
/// driver encoding, the outcome the document calls for); each must hold on the current tree and
/// agree with the model
fn corpus(rep: &mut Report, ctx: &Ctx, cases: &mut Vec<TieCase>) {
    let mut files: Vec<PathBuf> = std::fs::read_dir("/verif/corpus/C09")
        .map(|d| d.filter_map(|e| e.ok().map(|e| e.path())).collect())
        .unwrap_or_default();
    files.retain(|p| p.extension().map(|e| e == "json").unwrap_or(false));
    files.sort();
    for p in files {
        let v: serde_json::Value = match std::fs::read_to_string(&p).ok().and_then(|t| serde_json::from_str(&t).ok()) {
            Some(v) => v,
            None => {
                rep.notes.push(format!("corpus file {} is not JSON", p.display()));
                continue;
            }
        };
        let case = &v["case"];
        let (Some(gzh), Some(tree), Some(spec)) = (case["gz_hex"].as_str(), case["tree"].as_str(), case["spec"].as_str()) else {
            rep.notes.push(format!("corpus file {} is not a C09 gcov.json case", p.display()));
            continue;
        };
        let gz = unhex(gzh);
        let (out, site) = impl_gz(ctx, &gz);
        rep.count("corpus.cases");
        rep.case(&format!("corpus {}", gzh), true);
        if out != spec {
            rep.fail(
                "oracle",
                None,
                format!("corpus case {}: parse_gcov_gz gives {} instead of {}", p.display(), out, spec),
                case.clone(),
            );
        }
        cases.push(TieCase {
            req: format!("gcov.json {}", tree),
            impl_out: out,
            site,
            bytes: gz,
            json_text: case["json"].as_str().map(|s| s.to_string()),
            is_text: false,
            oracle_failed: false,
        });
    }
}

pub fn run(rep: &mut Report) {
    rep.rule = "text: reports of 0-6 file sections (shuffled lcount/function/branch/other records; negative, zero, \
u64::MAX and >2^64 counts; '+' and leading zeros; names with commas, colons, UTF-8 and (1 in 7) ill-formed \
                UTF-8; negative function call counts; sections without \
                lcount; LF/CRLF/mixed line ends; optional final newline) rendered to a .gcov file and read by \
                parse_gcov; JSON: documents of 0-5 files (integer and exactly representable float counters, absent/null \
                optional keys, unknown keys, shuffled key order, three whitespace styles; in 1 of 5 documents lines \
                listed several times - with/without branches, branch arrays of different length, sums beyond 2^64 - \
                and functions sharing a demangled name) gzip-compressed and read by \
                parse_gcov_gz; gzip files with trailing bytes / a second member; plus malformed streams (token soup, truncation, corruption, token substitution, record \
                moved before the first file: for text; tree mutations, non-gzip bytes, truncated gzip, broken JSON text: \
                for JSON). non-trivial = some file has >=1 line and (>=1 branch or >=1 function), or the input is \
                malformed; distinct = distinct input bytes (text) / distinct JSON text"
        .to_string();
    let ctx = Ctx::new(rep);
    let mut rng = Rng::new(rep.seed ^ 0xC09);
    let mut cases: Vec<TieCase> = vec![];

    // ---- corpus/C09/*.json: minimised past failures, replayed first ------------------------------
    corpus(rep, &ctx, &mut cases);

    // ---- fixed witnesses ------------------------------------------------------------------------
    for (name, bytes, want) in witnesses_text() {
        let (out, site) = impl_text(&ctx, &bytes);
        rep.count(&format!("witness.text.{}", name));
        rep.case(&format!("witness {}", name), true);
        if out != want {
            rep.fail(
                "oracle",
                None,
                format!("corpus witness {}: parse_gcov gives {} instead of {}", name, out, want),
                json!({"op": "gcov.text", "input_hex": hex(&bytes), "input": String::from_utf8_lossy(&bytes),
                       "impl": out, "spec": want}),
            );
        }
        cases.push(TieCase { req: text_req(&bytes), impl_out: out, site, bytes, json_text: None, is_text: true, oracle_failed: false });
    }
    for (name, gz, tree, text, want) in witnesses_json(&mut rng) {
        let (out, site) = impl_gz(&ctx, &gz);
        rep.count(&format!("witness.json.{}", name));
        rep.case(&format!("witness {}", name), true);
        if out != want {
            rep.fail(
                "oracle",
                None,
                format!("corpus witness {}: parse_gcov_gz gives {} instead of {}", name, out, want),
                json!({"op": "gcov.json", "gz_hex": hex(&gz), "json": text,
                       "tree": json_req(tree.as_ref()).strip_prefix("gcov.json ").unwrap_or("!"),
                       "impl": out, "spec": want}),
            );
        }
        cases.push(TieCase { req: json_req(tree.as_ref()), impl_out: out, site, bytes: gz, json_text: text, is_text: false, oracle_failed: false });
    }

    // ---- text, well-formed ------------------------------------------------------------------
    let n = rep.budget(3_000, 30);
    for i in 0..n {
        let dups = rng.chance(1, 5);
        let r = text::gen_report(&mut rng, dups);
        let bytes = text::render(&r);
        rep.case(&hex(&bytes), text::nontrivial(&r));
        for f in text::features(&r) {
            rep.count(&format!("text.{}", f));
        }
        let dups = text_has_dups(&r);
        rep.count(if dups { "text.ast.with_duplicate_keys(tie only)" } else { "text.ast.spec_oracle" });
        let oracle_failed = if dups { false } else { check_text_fidelity(rep, &ctx, &r) };
        let (out, site) = impl_text(&ctx, &bytes);
        rep.count(&format!("text.impl.{}", out.split(' ').take(if out.starts_with("err") { 2 } else { 1 }).collect::<Vec<_>>().join("_")));
        if i < 1 {
            rep.sample(json!({"gcov": String::from_utf8_lossy(&bytes), "impl": out, "spec": text::sem_text(&r)}));
        }
        cases.push(TieCase { req: text_req(&bytes), impl_out: out, site, bytes, json_text: None, is_text: true, oracle_failed });
    }

    // ---- text, malformed --------------------------------------------------------------------
    let m = rep.budget(3_000, 30);
    for i in 0..m {
        let bytes = text::gen_malformed(&mut rng);
        let (out, site) = impl_text(&ctx, &bytes);
        rep.case(&hex(&bytes), true);
        rep.count(&format!("text.malformed.{}", out.split(' ').take(if out.starts_with("err") { 2 } else { 1 }).collect::<Vec<_>>().join("_")));
        if i < 1 {
            rep.sample(json!({"gcov_malformed": String::from_utf8_lossy(&bytes), "impl": out}));
        }
        cases.push(TieCase { req: text_req(&bytes), impl_out: out, site, bytes, json_text: None, is_text: true, oracle_failed: false });
    }

    // ---- text, long lines with multi-byte characters at every alignment (C14 / seed C14-5) ------
    for c in text::long_line_cases() {
        let (out, site) = impl_text(&ctx, &c.bytes);
        rep.case(&hex(&c.bytes), true);
        let kind: String = c.label.split('.').take(2).collect::<Vec<_>>().join(".");
        rep.count(&format!("text.longline.{}", kind));
        rep.count(if c.well_formed { "text.longline.well_formed" } else { "text.longline.malformed" });
        rep.count(&format!("text.longline.outcome.{}", out.split(' ').take(if out.starts_with("err") { 2 } else { 1 }).collect::<Vec<_>>().join("_")));
        let failed = out != c.expected;
        if failed && out != "panic" {
            // (a panic is reported by the robustness oracle below, with its site)
            rep.fail(
                "oracle",
                None,
                format!(
                    "long line ({}): parse_gcov gives {} instead of {}",
                    c.label,
                    out.chars().take(120).collect::<String>(),
                    c.expected.chars().take(120).collect::<String>()
                ),
                json!({"op": "gcov.text", "input_hex": hex(&c.bytes), "input": String::from_utf8_lossy(&c.bytes),
                       "impl": out, "spec": c.expected}),
            );
        }
        cases.push(TieCase { req: text_req(&c.bytes), impl_out: out, site, bytes: c.bytes, json_text: None, is_text: true, oracle_failed: failed });
    }

    // ---- JSON, well-formed ------------------------------------------------------------------
    let n = rep.budget(1_500, 30);
    for i in 0..n {
        let dups = rng.chance(1, 5);
        let d = json::gen_doc(&mut rng, dups);
        let seed = rng.next();
        let shuffle = rng.chance(1, 2);
        let style = rng.below(3) as u8;
        let mut r2 = Rng(seed);
        let tree = json::to_tree(&d, &mut r2, shuffle);
        let case = build_json_case(tree, &mut r2, style);
        rep.case(&case.text, json::nontrivial(&d));
        for f in json::features(&d) {
            rep.count(&format!("json.{}", f));
        }
        rep.count(if shuffle { "json.keys_shuffled" } else { "json.keys_in_gcov_order" });
        rep.count(&format!("json.whitespace_style_{}", style));
        // since /repo 5a9c87e the meaning of repeated lines / shared demangled names is part of the
        // property oracle (sum, OR): every document goes through it
        let dups = json_has_dups(&d);
        rep.count(if dups { "json.ast.spec_oracle.with_repeated_lines_or_functions" } else { "json.ast.spec_oracle" });
        let oracle_failed = check_json_fidelity(rep, &ctx, &d, seed, shuffle, style);
        let (out, site) = impl_gz(&ctx, &case.gz);
        rep.count(&format!("json.impl.{}", out.split(' ').next().unwrap()));
        if i < 1 {
            rep.sample(json!({"json": case.text, "impl": out, "spec": json::sem_json(&d)}));
        }
        cases.push(TieCase { req: json_req(Some(&case.tree)), impl_out: out, site, bytes: case.gz, json_text: Some(case.text), is_text: false, oracle_failed });
    }

    // ---- JSON, mutated trees ----------------------------------------------------------------
    let m = rep.budget(2_000, 30);
    for i in 0..m {
        let d = json::gen_doc(&mut rng, true);
        let sh = rng.chance(1, 2);
        let mut tree = json::to_tree(&d, &mut rng, sh);
        for _ in 0..(if rng.chance(1, 4) { 2 } else { 1 }) {
            let what = json::mutate(&mut tree, &mut rng);
            rep.count(&format!("json.mutation.{}", what));
        }
        let case = build_json_case(tree, &mut rng, (i % 3) as u8);
        let (out, site) = impl_gz(&ctx, &case.gz);
        rep.case(&case.text, true);
        rep.count(&format!("json.malformed.{}", out.split(' ').next().unwrap()));
        if i < 1 {
            rep.sample(json!({"json_mutated": case.text, "impl": out}));
        }
        cases.push(TieCase { req: json_req(Some(&case.tree)), impl_out: out, site, bytes: case.gz, json_text: Some(case.text), is_text: false, oracle_failed: false });
    }

    // ---- JSON, reader errors (gzip / JSON text level: the trusted layer reports an error) ------
    let m = rep.budget(200, 10);
    for _ in 0..m {
        let d = json::gen_doc(&mut rng, true);
        let tree = json::to_tree(&d, &mut rng, false);
        let case = build_json_case(tree, &mut rng, 0);
        let (kind, gz): (&str, Vec<u8>) = match rng.below(5) {
            0 => {
                // not gzip at all: the JSON text under a .gz name
                ("plain_json_named_gz", case.text.clone().into_bytes())
            }
            1 => {
                let n = rng.below(40) as usize;
                let mut b: Vec<u8> = (0..n).map(|_| rng.next() as u8).collect();
                if b.len() >= 2 && b[0] == 0x1f && b[1] == 0x8b {
                    b[0] = 0;
                }
                ("random_bytes", b)
            }
            2 => {
                // gzip stream cut in its first half
                let k = rng.below(case.gz.len() as u64 / 2 + 1) as usize;
                ("truncated_gzip", case.gz[..k].to_vec())
            }
            3 => {
                // JSON text cut before its last byte
                let k = rng.below(case.text.len() as u64) as usize;
                let mut k = k;
                while !case.text.is_char_boundary(k) {
                    k -= 1;
                }
                ("truncated_json_text", json::gzip(case.text[..k].as_bytes()))
            }
            _ => {
                let t = format!("{}{}", case.text, rng.pick(&["x", "{}", ",", "]", "1"]));
                ("trailing_characters", json::gzip(t.as_bytes()))
            }
        };
        let (out, site) = impl_gz(&ctx, &gz);
        rep.case(&hex(&gz), true);
        rep.count(&format!("json.reader_error.{}.{}", kind, out.split(' ').next().unwrap()));
        cases.push(TieCase { req: json_req(None), impl_out: out, site, bytes: gz, json_text: None, is_text: false, oracle_failed: false });
    }

    // ---- gzip layer: what follows the first member is ignored (review item 35) -------------------
    // `GzDecoder` reads one member and serde_json stops after the value: a second member or any
    // trailing bytes in the FILE are never looked at. Recorded behaviour (model header of Gcov.lean):
    // the result is that of the first member alone.
    let m = rep.budget(60, 10);
    for i in 0..m {
        let d = json::gen_doc(&mut rng, true);
        let tree = json::to_tree(&d, &mut rng, false);
        let case = build_json_case(tree, &mut rng, 0);
        let mut gz = case.gz.clone();
        let kind = match i % 3 {
            0 => {
                let n = rng.range(1, 40) as usize;
                gz.extend((0..n).map(|_| rng.next() as u8));
                "garbage_after_member"
            }
            1 => {
                let d2 = json::gen_doc(&mut rng, true);
                let t2 = json::to_tree(&d2, &mut rng, false);
                let c2 = build_json_case(t2, &mut rng, 0);
                gz.extend_from_slice(&c2.gz);
                "second_member"
            }
            _ => {
                gz.extend_from_slice(&json::gzip(b"  \n"));
                "second_member_of_blanks"
            }
        };
        let (out, site) = impl_gz(&ctx, &gz);
        let alone = impl_gz(&ctx, &case.gz).0;
        rep.case(&hex(&gz), true);
        rep.count(&format!("json.gzip_trailing.{}.{}", kind, out.split(' ').next().unwrap()));
        if out != alone {
            rep.fail(
                "oracle",
                None,
                format!("parse_gcov_gz: {} changes the result of the first gzip member (recorded behaviour: ignored)", kind),
                json!({"op": "gcov.json", "gz_hex": hex(&gz), "json": case.text, "tree": json_req(Some(&case.tree)).strip_prefix("gcov.json ").unwrap_or("!"),
                       "impl": out, "spec": alone}),
            );
        }
        cases.push(TieCase { req: json_req(Some(&case.tree)), impl_out: out, site, bytes: gz, json_text: Some(case.text), is_text: false, oracle_failed: false });
    }

    // ---- robustness oracle (C14) on every case, then the tie ----------------------------------
    let mut budget = 6u32;
    for c in &cases {
        report_panic(rep, &ctx, c, &mut budget);
    }
    tie(rep, &ctx, &cases);
    if std::env::var("VERIF_NO_MODEL").is_err() {
        bytes::run(rep, &ctx);
    }
}

fn witnesses_json(rng: &mut Rng) -> Vec<(&'static str, Vec<u8>, Option<J>, Option<String>, &'static str)> {
    let mut out = vec![];
    const BAD: &str = "err InvalidData";
    out.push(("not_gzip", b"this is not gzip".to_vec(), None, None, BAD));
    out.push(("empty_file", vec![], None, None, BAD));
    let mut add = |name: &'static str, tree: J, want: &'static str, rng: &mut Rng| {
        let c = build_json_case(tree, rng, 0);
        out.push((name, c.gz, Some(c.tree), Some(c.text), want));
    };
    add("empty_object", J::Obj(vec![]), BAD, rng);
    let line = |count: J| {
        J::Obj(vec![
            ("line_number".into(), J::Num(json::N::Pos(7))),
            ("count".into(), count),
            ("unexecuted_block".into(), J::Bool(false)),
            ("branches".into(), J::Arr(vec![])),
        ])
    };
    let doc = |lines: Vec<J>| {
        J::Obj(vec![
            ("format_version".into(), J::Str("1".into())),
            ("gcc_version".into(), J::Str("9".into())),
            ("data_file".into(), J::Str("a.gcda".into())),
            (
                "files".into(),
                J::Arr(vec![J::Obj(vec![
                    ("file".into(), J::Str("a.c".into())),
                    ("functions".into(), J::Arr(vec![])),
                    ("lines".into(), J::Arr(lines)),
                ])]),
            ),
        ])
    };
    add("minimal_valid", doc(vec![line(J::Num(json::N::Pos(3)))]), "ok K612e63=L7:3;B;F", rng);
    add("missing_key_files", J::Obj(vec![
        ("format_version".into(), J::Str("1".into())),
        ("gcc_version".into(), J::Str("9".into())),
        ("data_file".into(), J::Str("a.gcda".into())),
    ]), BAD, rng);
    // Lean C09_json_two_pow_64_is_rejected (former finding C09-json-counter-2pow64-saturates, repaired in
    // /repo 5cfb47a; the same two inputs are in corpus/C09 and replayed first)
    add("float_2^64_rejected", doc(vec![line(J::Num(json::N::Flt { text: "1.8446744073709552e19".into(), neg: false, m: 1, e: 64 }))]), BAD, rng);
    add("int_literal_2^64_rejected", doc(vec![line(J::Num(json::N::Flt { text: "18446744073709551616".into(), neg: false, m: 1, e: 64 }))]), BAD, rng);
    // the largest f64 below 2^64 is accepted as itself (Lean C09_json_float_counter_accepted_iff_below_two_pow_64)
    add("largest_f64_below_2^64", doc(vec![line(J::Num(json::N::Flt { text: "1.844674407370955e19".into(), neg: false, m: (1 << 53) - 1, e: 11 }))]), "ok K612e63=L7:18446744073709549568;B;F", rng);
    // the 17-digit spelling of the same decimal: serde_json's default float reader (no `float_roundtrip`)
    // is not correctly rounded and reads it as 2^64 (`reads_back` confirms the tree), so it is rejected
    add("literal_1.8446744073709550e19_reads_as_2^64", doc(vec![line(J::Num(json::N::Flt { text: "1.8446744073709550e19".into(), neg: false, m: 1, e: 64 }))]), BAD, rng);
    // Lean C09_json_fractional_counter_truncates
    add("float_0.5_truncates_to_0", doc(vec![line(J::Num(json::N::Flt { text: "0.5".into(), neg: false, m: 1, e: -1 }))]), "ok K612e63=L7:0;B;F", rng);
    // Lean C09_json_unknown_keys_irrelevant / exDoc13: gcov 13/14 keys at every level, keys out of gcov's order
    add("gcov14_unknown_keys_every_level", J::Obj(vec![
        ("x".into(), J::Null),
        ("files".into(), J::Arr(vec![J::Obj(vec![
            ("lines".into(), J::Arr(vec![J::Obj(vec![
                ("branches".into(), J::Arr(vec![J::Obj(vec![
                    ("throw".into(), J::Bool(false)),
                    ("source_block_id".into(), J::Num(json::N::Pos(2))),
                    ("count".into(), J::Num(json::N::Pos(0))),
                    ("fallthrough".into(), J::Bool(true)),
                ])])),
                ("block_ids".into(), J::Arr(vec![J::Num(json::N::Pos(1))])),
                ("count".into(), J::Num(json::N::Pos(7))),
                ("conditions".into(), J::Arr(vec![])),
                ("line_number".into(), J::Num(json::N::Pos(3))),
                ("calls".into(), J::Arr(vec![J::Obj(vec![])])),
                ("unexecuted_block".into(), J::Bool(false)),
            ])])),
            ("file".into(), J::Str("a.c".into())),
            ("z".into(), J::Obj(vec![("file".into(), J::Str("b".into()))])),
            ("functions".into(), J::Arr(vec![J::Obj(vec![
                ("name".into(), J::Str("f".into())),
                ("demangled_name".into(), J::Str("f".into())),
                ("start_line".into(), J::Num(json::N::Pos(3))),
                ("start_column".into(), J::Num(json::N::Pos(1))),
                ("end_line".into(), J::Num(json::N::Pos(9))),
                ("end_column".into(), J::Num(json::N::Pos(1))),
                ("blocks".into(), J::Num(json::N::Pos(4))),
                ("blocks_x".into(), J::Num(json::N::Neg(1))),
                ("blocks_executed".into(), J::Num(json::N::Pos(2))),
                ("execution_count".into(), J::Num(json::N::Pos(5))),
            ])])),
        ])])),
        ("format_version".into(), J::Str("2".into())),
        ("gcc_version".into(), J::Str("14".into())),
        ("data_file".into(), J::Str("d".into())),
    ]), "ok K612e63=L3:7;B3:0;F66:3:1", rng);
    add("float_above_2^64", doc(vec![line(J::Num(json::N::Flt { text: "1.8446744073709556e19".into(), neg: false, m: (1 << 52) + 1, e: 12 }))]), BAD, rng);
    add("float_minus_zero", doc(vec![line(J::Num(json::N::Flt { text: "-0.0".into(), neg: true, m: 0, e: 0 }))]), "ok K612e63=L7:0;B;F", rng);
    add("negative_count", doc(vec![line(J::Num(json::N::Neg(1)))]), BAD, rng);
    add("float_2.5_truncates", doc(vec![line(J::Num(json::N::Flt { text: "2.5".into(), neg: false, m: 5, e: -1 }))]), "ok K612e63=L7:2;B;F", rng);
    add("struct_as_array", J::Arr(vec![
        J::Str("1".into()), J::Str("9".into()), J::Null, J::Str("d".into()),
        J::Arr(vec![J::Arr(vec![J::Str("a.c".into()), J::Arr(vec![]),
            J::Arr(vec![J::Arr(vec![J::Num(json::N::Pos(1)), J::Null, J::Num(json::N::Pos(5)), J::Bool(false), J::Arr(vec![])])])])]),
    ]), "ok K612e63=L1:5;B;F", rng);
    out
}

pub fn replay(rep: &mut Report, case: &serde_json::Value) {
    let ctx = Ctx::new(rep);
    match case["op"].as_str().unwrap_or("") {
        "gcov.text" => {
            let bytes = unhex(case["input_hex"].as_str().unwrap());
            let (got, site) = impl_text(&ctx, &bytes);
            let model = model_one(rep, &text_req(&bytes));
            rep.case(&hex(&bytes), true);
            if let Some(spec) = case["spec"].as_str() {
                if got != spec {
                    rep.fail("oracle", None, "parse_gcov(file) != recorded spec outcome".into(), case.clone());
                    return;
                }
            }
            if got == "panic" {
                rep.fail("oracle", None, format!("parse_gcov panics: {}", site), case.clone());
                return;
            }
            if got != model {
                rep.fail("disagreement", None, format!("parse_gcov = {} but Gcov.Text.parse = {}", got, model), case.clone());
            }
        }
        "gcov.jsonbytes" => bytes::replay(rep, &ctx, case),
        "gcov.json" => {
            let gz = unhex(case["gz_hex"].as_str().unwrap());
            let (got, site) = impl_gz(&ctx, &gz);
            let tree = case["tree"].as_str().unwrap_or("!");
            let model = model_one(rep, &format!("gcov.json {}", tree));
            rep.case(&hex(&gz), true);
            if let Some(spec) = case["spec"].as_str() {
                if got != spec {
                    rep.fail("oracle", None, "parse_gcov_gz(file) != recorded spec outcome".into(), case.clone());
                    return;
                }
            }
            if got == "panic" {
                rep.fail("oracle", None, format!("parse_gcov_gz panics: {}", truncate(&site, 300)), case.clone());
                return;
            }
            if got != model {
                rep.fail("disagreement", None, format!("parse_gcov_gz = {} but Gcov.Json.fromReader = {}", got, model), case.clone());
            }
        }
        _ => {}
    }
}

/// `c09 --probe-float <literal>`: how serde_json (as built for /repo) reads a number literal, and
/// what parse_gcov_gz makes of it as a line count
fn probe_float(lit: &str) {
    let v: serde_json::Value = serde_json::from_str(lit).expect("not a JSON value");
    if let serde_json::Value::Number(n) = &v {
        println!("is_u64={} is_f64={} as_f64={:?} bits={:x?} as_u128_trunc={:?}", n.is_u64(), n.is_f64(), n.as_f64(),
                 n.as_f64().map(|f| f.to_bits()), n.as_f64().map(|f| f as u128));
    }
    let text = format!("{{\"format_version\":\"1\",\"gcc_version\":\"9\",\"data_file\":\"d\",\"files\":[{{\"file\":\"a.c\",\"functions\":[],\"lines\":[{{\"line_number\":7,\"count\":{},\"unexecuted_block\":false,\"branches\":[]}}]}}]}}", lit);
    let dir = std::env::temp_dir().join("c09probe");
    std::fs::create_dir_all(&dir).unwrap();
    let p = dir.join("p.gcov.json.gz");
    std::fs::write(&p, json::gzip(text.as_bytes())).unwrap();
    println!("{}", show_outcome(&guarded(move || grcov::parse_gcov_gz(&p))));
}

fn main() {
    let args: Vec<String> = std::env::args().collect();
    if args.len() == 3 && args[1] == "--probe-float" {
        probe_float(&args[2]);
        return;
    }
    corrlib::run_main("C09", run, replay);
}
