//! corrlib — shared machinery of the correspondence harness (one binary crate per property).
pub mod common;
pub mod gen;
pub mod lcov;
pub mod pipe;
pub use common::*;

/// Entry point shared by every property binary:
/// `<bin> [--tier quick|thorough] [--seed N] [--replay file]`
pub fn run_main(
    prop: &str,
    run: fn(&mut Report),
    replay: fn(&mut Report, &serde_json::Value),
) {
    let args: Vec<String> = std::env::args().collect();
    let mut tier = std::env::var("VERIF_TIER").unwrap_or_else(|_| "quick".into());
    let mut seed: u64 = std::env::var("VERIF_SEED")
        .ok()
        .and_then(|s| s.parse().ok())
        .unwrap_or(1);
    let mut replay_file: Option<String> = None;
    let mut i = 1;
    while i < args.len() {
        match args[i].as_str() {
            "--tier" => {
                tier = args[i + 1].clone();
                i += 1;
            }
            "--seed" => {
                seed = args[i + 1].parse().unwrap();
                i += 1;
            }
            "--replay" => {
                replay_file = Some(args[i + 1].clone());
                i += 1;
            }
            _ => {}
        }
        i += 1;
    }
    install_panic_hook();
    let mut rep = Report::new(prop, &tier, seed);
    if let Some(path) = replay_file {
        let text = std::fs::read_to_string(&path).expect("cannot read replay file");
        let v: serde_json::Value = serde_json::from_str(&text).expect("replay file is not JSON");
        let case = if v.get("case").is_some() {
            v["case"].clone()
        } else {
            v
        };
        replay(&mut rep, &case);
    } else {
        // A harness-side unwrap on something the implementation returned (e.g. the real parser
        // rejecting a well-formed generated input) must end in a verdict, not in a crash.
        let r = std::panic::catch_unwind(std::panic::AssertUnwindSafe(|| run(&mut rep)));
        if r.is_err() {
            let msg = common::take_last_panic().unwrap_or_else(|| "panic".to_string());
            rep.fail(
                "oracle",
                None,
                format!("the check could not continue because the implementation returned something a correct implementation never returns: {}", msg),
                serde_json::json!({"op": "harness-abort", "panic": msg}),
            );
        }
    }
    rep.finish();
}
