//! lcov tracefile AST, generator, renderer and independent semantics (shared by C04/C05/C06/C14).
use crate::common::*;
use grcov::{CovResult, Function};
use std::collections::BTreeMap;

#[derive(Clone, Debug)]
pub enum Rec {
    /// line, count, optional checksum field (`DA:<line>,<count>[,<checksum>]`)
    Da(u32, i128, Option<String>),
    Fn(u32, String),
    Fnda(u64, String),
    /// line, block, branch, taken (None = '-')
    Brda(u32, u64, u32, Option<u64>),
    Other(String),
    Blank,
}

#[derive(Clone, Debug)]
pub struct Section {
    pub pre: Vec<String>, // TN: records and blank lines before SF
    pub sf: String,
    pub recs: Vec<Rec>,
}

pub const FILE_NAMES: &[&str] = &[
    "src/main.c",
    "a.c",
    "/abs/path/x.cpp",
    "dir with space/f.rs",
    "src/é/ü.c",
    "日本/語.c",
    "a,b.c",
    "C:\\win\\p.c",
    "src/notes.txt ",
    " lead/tab.c\t",
];
pub const FN_NAMES: &[&str] = &[
    "main",
    "f",
    "_ZN3foo3barEv",
    "foo(int, char)",
    "ns::tmpl<a, b>::m",
    "é_fn",
    "名前",
    "e",
    "SF",
    "x y",
    "2,init",
    "12",
    "0,0,x",
    "operator ",
    " lead\t",
];
const OTHERS: &[&str] = &[
    "LF:3",
    "LH:2",
    "BRF:4",
    "BRH:1",
    "FNF:2",
    "FNH:1",
    "VER:1a2b",
    "FNL:0,3,9",
    "FNA:0,1,main",
    "MCDC:3,2,t,1,0,'a'",
    "MCF:2",
    "MCH:1",
    "TN:other",
];

/// checksum texts for DA records: lcov writes the base64 MD5 of the source line; the reader must
/// skip the field whatever it starts with (record keys, `e`, digits, `-`) and whatever it contains
pub const CHECKSUMS: &[&str] = &[
    "eAbCd",
    "end_of_record",
    "e",
    "SFxyz",
    "SF:other.c",
    "DA:9,9",
    "D",
    "FN:3,g",
    "FNDA:7,main",
    "F",
    "BRDA:1,0,0,1",
    "B",
    "0",
    "12",
    "7,8",
    "-",
    "-1",
    ",",
    ",,",
    "a,b,c",
    "",
    "TN:",
    " ",
    "1B2M2Y8AsgTpgAmY7PhCfg",
    "1B2M2Y8AsgTpgAmY7PhCfg==",
    "F0lFZ1+Lt7MPUNAZvFL3XA",
    "SG9PbGVMaW5lQ2hlY2tzdQ",
    "Ds/3LPf0mBytSnhxDWVO7A",
    "BaQmVmcmVzaC9jaGVjaw==",
    "e3B0bCBtZDUgY2hlY2tzdQ",
    "4vxxTEcn7pOV8yTNLn8zHw",
];

pub struct GenCfg {
    pub allow_zero_taken: bool,
    pub allow_first_branch_nonzero: bool,
    pub allow_overflow_sum: bool,
    pub allow_non_ascii: bool,
}
impl GenCfg {
    pub fn full() -> GenCfg {
        GenCfg {
            allow_zero_taken: true,
            allow_first_branch_nonzero: true,
            allow_overflow_sum: true,
            allow_non_ascii: true,
        }
    }
}

/// a checksum field for about one DA record in three; a random base64 MD5 now and then
pub fn gen_checksum(rng: &mut Rng) -> Option<String> {
    if !rng.chance(1, 3) {
        return None;
    }
    if rng.chance(1, 4) {
        const B64: &[u8] = b"ABCDEFGHIJKLMNOPQRSTUVWXYZabcdefghijklmnopqrstuvwxyz0123456789+/";
        let mut t: String = (0..22).map(|_| *rng.pick(B64) as char).collect();
        if rng.chance(1, 2) {
            t.push_str("==");
        }
        return Some(t);
    }
    Some(rng.pick(CHECKSUMS).to_string())
}

pub fn gen_section(rng: &mut Rng, cfg: &GenCfg) -> Section {
    let mut recs = vec![];
    let pick_name = |rng: &mut Rng, pool: &[&str]| loop {
        let n = rng.pick(pool).to_string();
        if cfg.allow_non_ascii || n.is_ascii() {
            return n;
        }
    };
    // functions: unique names
    let mut names: Vec<String> = vec![];
    for _ in 0..rng.below(4) {
        let n = pick_name(rng, FN_NAMES);
        if !names.contains(&n) {
            names.push(n);
        }
    }
    let mut fn_recs = vec![];
    let mut fnda_recs = vec![];
    for n in &names {
        fn_recs.push(Rec::Fn(rng.range(1, 500) as u32, n.clone()));
        for _ in 0..rng.below(3) {
            let c = *rng.pick(&[0u64, 0, 1, 2, 17, u32::MAX as u64 + 5]);
            fnda_recs.push(Rec::Fnda(c, n.clone()));
        }
    }
    // lines
    let mut da = vec![];
    for _ in 0..rng.below(8) {
        let l = if rng.chance(1, 30) {
            u32::MAX
        } else {
            rng.range(1, 12) as u32
        };
        let c: i128 = match rng.below(10) {
            0 => -1,
            1 => -(rng.range(1, 1 << 40) as i128),
            2 => 0,
            3 => *rng.pick(&[
                u64::MAX as i128,
                (u64::MAX - 1) as i128,
                1i128 << 63,
                1i128 << 32,
            ]),
            _ => rng.below(1000) as i128,
        };
        let ck = gen_checksum(rng);
        if !cfg.allow_overflow_sum && c > (1i128 << 60) {
            da.push(Rec::Da(l, 7, ck));
        } else {
            da.push(Rec::Da(l, c, ck));
        }
    }
    // branches
    let mut br = vec![];
    for _ in 0..rng.below(4) {
        let l = rng.range(1, 12) as u32;
        let nblocks = rng.range(1, 2);
        let nbr = rng.range(1, 4) as u32;
        for blk in 0..nblocks {
            for b in 0..nbr {
                if rng.chance(1, 6) {
                    continue; // gaps
                }
                let t = match rng.below(4) {
                    0 => None,
                    1 => {
                        if cfg.allow_zero_taken {
                            Some(0)
                        } else {
                            None
                        }
                    }
                    2 => Some(1),
                    _ => Some(rng.range(2, 100000)),
                };
                br.push(Rec::Brda(l, blk * rng.range(1, 3), b, t));
            }
        }
    }
    if !cfg.allow_first_branch_nonzero {
        // keep, per line, the records in ascending branch order starting at 0: insert a 0 record
        let mut lines: Vec<u32> = br
            .iter()
            .map(|r| if let Rec::Brda(l, ..) = r { *l } else { 0 })
            .collect();
        lines.sort();
        lines.dedup();
        let mut fixed = vec![];
        for l in lines {
            let mut of_line: Vec<Rec> = br
                .iter()
                .filter(|r| matches!(r, Rec::Brda(x, ..) if *x == l))
                .cloned()
                .collect();
            of_line.sort_by_key(|r| if let Rec::Brda(_, _, b, _) = r { *b } else { 0 });
            if !matches!(of_line[0], Rec::Brda(_, _, 0, _)) {
                fixed.push(Rec::Brda(l, 0, 0, None));
            }
            fixed.extend(of_line);
        }
        br = fixed;
    }
    if cfg.allow_first_branch_nonzero {
        // any order: FNDA records before or after the FN record of their function
        recs.extend(fn_recs);
        recs.extend(fnda_recs);
        recs.extend(da);
        recs.extend(br);
        rng.shuffle(&mut recs);
    } else {
        // branch order preserved; FN/FNDA in any order; DA anywhere
        let mut groups: Vec<Vec<Rec>> = vec![fn_recs.into_iter().chain(fnda_recs).collect(), br];
        rng.shuffle(&mut groups[0]);
        // interleave the groups preserving each group's internal order, with DA records random
        let mut cursors = vec![0usize; groups.len()];
        loop {
            let avail: Vec<usize> = (0..groups.len())
                .filter(|&g| cursors[g] < groups[g].len())
                .collect();
            if avail.is_empty() {
                break;
            }
            let g = *rng.pick(&avail);
            recs.push(groups[g][cursors[g]].clone());
            cursors[g] += 1;
        }
        for d in da {
            let pos = rng.below(recs.len() as u64 + 1) as usize;
            recs.insert(pos, d);
        }
    }
    // sprinkle other records and blanks
    for _ in 0..rng.below(4) {
        let pos = rng.below(recs.len() as u64 + 1) as usize;
        let r = if rng.chance(1, 4) {
            Rec::Blank
        } else {
            Rec::Other(rng.pick(OTHERS).to_string())
        };
        recs.insert(pos, r);
    }
    let mut pre = vec![];
    if rng.chance(1, 2) {
        pre.push(if rng.chance(1, 2) { "TN:".to_string() } else { "TN:test_1".to_string() });
    }
    if rng.chance(1, 8) {
        pre.push(String::new());
    }
    Section {
        pre,
        sf: pick_name(rng, FILE_NAMES),
        recs,
    }
}

pub fn render(secs: &[Section], crlf: bool) -> Vec<u8> {
    let eol: &[u8] = if crlf { b"\r\n" } else { b"\n" };
    let mut out: Vec<u8> = vec![];
    let mut line = |s: String| {
        out.extend_from_slice(s.as_bytes());
        out.extend_from_slice(eol);
    };
    for s in secs {
        for p in &s.pre {
            line(p.clone());
        }
        line(format!("SF:{}", s.sf));
        for r in &s.recs {
            match r {
                Rec::Da(l, c, None) => line(format!("DA:{},{}", l, c)),
                Rec::Da(l, c, Some(ck)) => line(format!("DA:{},{},{}", l, c, ck)),
                Rec::Fn(st, n) => line(format!("FN:{},{}", st, n)),
                Rec::Fnda(c, n) => line(format!("FNDA:{},{}", c, n)),
                Rec::Brda(l, blk, b, t) => line(format!(
                    "BRDA:{},{},{},{}",
                    l,
                    blk,
                    b,
                    match t {
                        None => "-".to_string(),
                        Some(n) => n.to_string(),
                    }
                )),
                Rec::Other(t) => line(t.clone()),
                Rec::Blank => line(String::new()),
            }
        }
        line("end_of_record".to_string());
    }
    out
}

/// What the records say (property C04), computed without grcov. Order-free: a line's count is the
/// clamped sum of its DA counts (a checksum field says nothing), a branch is taken iff some BRDA
/// record of its (line, number) has a positive count, a function is the one its FN record declares
/// and is executed iff SOME FNDA record of the section names it with a non-zero count – wherever
/// that record stands relative to the FN. Defined for well-formed sections (`well_formed`).
pub fn sem(s: &Section, branch_enabled: bool) -> CovResult {
    let mut lines: BTreeMap<u32, u128> = BTreeMap::new();
    let mut c = CovResult::default();
    for r in &s.recs {
        match r {
            Rec::Da(l, n, _) => {
                *lines.entry(*l).or_insert(0) += if *n < 0 { 0 } else { *n as u128 };
            }
            Rec::Fn(st, n) => {
                let executed = s
                    .recs
                    .iter()
                    .any(|q| matches!(q, Rec::Fnda(k, m) if m == n && *k != 0));
                c.functions.insert(n.clone(), Function { start: *st, executed });
            }
            Rec::Brda(l, _, b, t) if branch_enabled => {
                let v = c.branches.entry(*l).or_default();
                if v.len() <= *b as usize {
                    v.resize(*b as usize + 1, false);
                }
                v[*b as usize] |= t.map(|n| n > 0).unwrap_or(false);
            }
            _ => {}
        }
    }
    for (l, n) in lines {
        c.lines.insert(l, n.min(u64::MAX as u128) as u64);
    }
    c
}

/// the domain of `sem` (C04 `Section.FnOK`): every function is declared once per section and every
/// FNDA names a function declared somewhere in the same section
pub fn well_formed(secs: &[Section]) -> bool {
    secs.iter().all(|s| {
        let names: Vec<&String> = s
            .recs
            .iter()
            .filter_map(|r| if let Rec::Fn(_, n) = r { Some(n) } else { None })
            .collect();
        let unique = names.iter().enumerate().all(|(i, n)| !names[..i].contains(n));
        unique
            && s.recs.iter().all(|r| match r {
                Rec::Fnda(_, n) => names.contains(&n),
                _ => true,
            })
    })
}

/// an FNDA record whose function no FN record of its section declares: the reader must answer
/// `Err(Parse)` ("FN record missing", C04_fnda_without_fn_rejected)
pub fn has_undeclared_fnda(secs: &[Section]) -> bool {
    secs.iter().any(|s| {
        s.recs.iter().any(|r| match r {
            Rec::Fnda(_, n) => !s.recs.iter().any(|q| matches!(q, Rec::Fn(_, m) if m == n)),
            _ => false,
        })
    })
}

pub fn sem_all(secs: &[Section], branch_enabled: bool) -> Vec<(String, CovResult)> {
    secs.iter()
        .map(|s| (s.sf.clone(), sem(s, branch_enabled)))
        .collect()
}

pub fn features(s: &Section) -> Vec<&'static str> {
    let mut v = vec![];
    let mut sums: BTreeMap<u32, u128> = BTreeMap::new();
    let mut seen_fn: Vec<&String> = vec![];
    let mut first_branch: BTreeMap<u32, u32> = BTreeMap::new();
    let mut next_expected: BTreeMap<u32, u32> = BTreeMap::new();
    for r in &s.recs {
        match r {
            Rec::Da(l, n, ck) => {
                *sums.entry(*l).or_insert(0) += if *n < 0 { 0 } else { *n as u128 };
                if let Some(ck) = ck {
                    if !v.contains(&"da_checksum") {
                        v.push("da_checksum");
                    }
                    let key_like = matches!(ck.as_bytes().first(), Some(b'e' | b'S' | b'D' | b'F' | b'B'));
                    if key_like && !v.contains(&"da_checksum_like_record") {
                        v.push("da_checksum_like_record");
                    }
                    let num_like = matches!(ck.as_bytes().first(), Some(b'0'..=b'9' | b'-'));
                    if num_like && !v.contains(&"da_checksum_like_number") {
                        v.push("da_checksum_like_number");
                    }
                }
            }
            Rec::Fn(_, n) => seen_fn.push(n),
            Rec::Fnda(_, n) => {
                if !seen_fn.contains(&n) && !v.contains(&"fnda_precedes_fn") {
                    v.push("fnda_precedes_fn");
                }
            }
            Rec::Brda(l, _, b, t) => {
                first_branch.entry(*l).or_insert(*b);
                let _ = next_expected.entry(*l).or_insert(0);
                if *t == Some(0) && !v.contains(&"taken_zero") {
                    v.push("taken_zero");
                }
            }
            _ => {}
        }
    }
    if first_branch.values().any(|b| *b != 0) {
        v.push("first_branch_nonzero");
    }
    if sums.values().any(|s| *s > u64::MAX as u128) {
        v.push("da_sum_overflow");
    }
    if !s.sf.is_ascii()
        || s.recs.iter().any(|r| match r {
            Rec::Fn(_, n) | Rec::Fnda(_, n) => !n.is_ascii(),
            _ => false,
        })
    {
        v.push("non_ascii_name");
    }
    v
}

thread_local! { pub static LAST_PANIC_SITE: std::cell::RefCell<String> = std::cell::RefCell::new(String::new()); }

/// canonical text for a parse outcome
pub fn show_outcome(r: &Result<Result<Vec<(String, CovResult)>, grcov::ParserError>, String>) -> String {
    match r {
        Ok(Ok(v)) => format!("ok {}", show_results_ordered(v)).trim_end().to_string(),
        Ok(Err(e)) => format!(
            "err {}",
            match e {
                grcov::ParserError::Io(_) => "Io",
                grcov::ParserError::Parse(_) => "Parse",
                grcov::ParserError::InvalidRecord(_) => "InvalidRecord",
                grcov::ParserError::InvalidData(_) => "InvalidData",
            }
        ),
        Err(p) => {
            LAST_PANIC_SITE.with(|c| *c.borrow_mut() = p.clone());
            "panic".to_string()
        }
    }
}
