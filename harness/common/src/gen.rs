//! Generators of aggregated result sets (what the writers receive).
use crate::common::*;
use grcov::{CovResult, Function};
use std::path::PathBuf;

pub const PATHS: &[&str] = &[
    "src/main.c",
    "src/lib/util.c",
    "a.c",
    "deep/er/tree/x.rs",
    "deep/er/y.rs",
    "with space/f.cpp",
    "naïve/ünï.c",
    "日本/語.c",
    "/abs/outside/z.c",
    "top.js",
    "trailing/space.txt ",
];
pub const FNS: &[&str] = &[
    "main",
    "f",
    "_ZN3foo3barEv",
    "foo(int, char)",
    "ns::tmpl<a, b>::m",
    "é_fn",
    "名前",
    "Cls#m",
    "top-level",
    "a&b<c>\"d'",
    "2,init",
    "7",
    "0,0,x",
    "operator ",
    " lead\t",
];

pub fn gen_result(rng: &mut Rng, big: bool) -> CovResult {
    let mut c = CovResult::default();
    for _ in 0..rng.below(10) {
        let l = if big && rng.chance(1, 40) {
            rng.range(1000, 100000) as u32
        } else {
            rng.range(1, 40) as u32
        };
        let n = match rng.below(8) {
            0 => 0,
            1 => *rng.pick(&[u64::MAX, u64::MAX - 1, 1 << 63, (1 << 63) - 1, 1 << 32, 1 << 53]),
            _ => rng.below(500),
        };
        c.lines.insert(l, n);
    }
    for _ in 0..rng.below(4) {
        let l = rng.range(1, 40) as u32;
        let len = rng.range(1, 5);
        c.branches
            .insert(l, (0..len).map(|_| rng.chance(1, 2)).collect());
    }
    let mut last_start = 0u32;
    for _ in 0..rng.below(5) {
        // a third of the functions share their start line with the previous one (template
        // instantiations, constructors, closures on one line)
        let start = if last_start != 0 && rng.chance(1, 3) {
            last_start
        } else {
            rng.range(1, 40) as u32
        };
        last_start = start;
        c.functions.insert(
            rng.pick(FNS).to_string(),
            Function {
                start,
                executed: rng.chance(1, 2),
            },
        );
    }
    c
}

/// (abs, rel, result) with distinct rel paths
pub fn gen_result_set(rng: &mut Rng, max_files: u64) -> Vec<(PathBuf, PathBuf, CovResult)> {
    let k = rng.below(max_files + 1);
    let mut used = std::collections::BTreeSet::new();
    let mut out = vec![];
    for _ in 0..k {
        let p = rng.pick(PATHS).to_string();
        if !used.insert(p.clone()) {
            continue;
        }
        let abs = if p.starts_with('/') {
            PathBuf::from(&p)
        } else {
            PathBuf::from("/src_root").join(&p)
        };
        out.push((abs, PathBuf::from(&p), gen_result(rng, true)));
    }
    out
}
