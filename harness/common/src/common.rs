//! Shared machinery of the correspondence harness: PRNG, hex/Cov codecs, the model driver pipe,
//! panic capture, result/replay files.
#![allow(dead_code)]
use grcov::{CovResult, Function};
use rustc_hash::FxHashMap;
use serde_json::{json, Value};
use std::collections::{BTreeMap, BTreeSet, HashSet};
use std::io::Write;
use std::path::{Path, PathBuf};
use std::process::{Command, Stdio};
use std::sync::Mutex;

pub const U64MAX: u64 = u64::MAX;

// ---------------------------------------------------------------------------------------------
// PRNG: every random choice of a run derives from one splitmix64 state.
#[derive(Clone)]
pub struct Rng(pub u64);
impl Rng {
    pub fn new(seed: u64) -> Self {
        // hash the seed first: neighbouring seeds must not give shifted copies of one stream
        let mut z = seed.wrapping_add(0x9E3779B97F4A7C15);
        z = (z ^ (z >> 30)).wrapping_mul(0xBF58476D1CE4E5B9);
        z = (z ^ (z >> 27)).wrapping_mul(0x94D049BB133111EB);
        z ^= z >> 31;
        Rng(z.wrapping_mul(0x2545F4914F6CDD1D) ^ 0x1234567)
    }
    pub fn next(&mut self) -> u64 {
        self.0 = self.0.wrapping_add(0x9E3779B97F4A7C15);
        let mut z = self.0;
        z = (z ^ (z >> 30)).wrapping_mul(0xBF58476D1CE4E5B9);
        z = (z ^ (z >> 27)).wrapping_mul(0x94D049BB133111EB);
        z ^ (z >> 31)
    }
    pub fn below(&mut self, n: u64) -> u64 {
        if n == 0 {
            0
        } else {
            self.next() % n
        }
    }
    pub fn range(&mut self, lo: u64, hi: u64) -> u64 {
        lo + self.below(hi - lo + 1)
    }
    pub fn chance(&mut self, num: u64, den: u64) -> bool {
        self.below(den) < num
    }
    pub fn pick<'a, T>(&mut self, xs: &'a [T]) -> &'a T {
        &xs[self.below(xs.len() as u64) as usize]
    }
    pub fn shuffle<T>(&mut self, xs: &mut [T]) {
        for i in (1..xs.len()).rev() {
            let j = self.below(i as u64 + 1) as usize;
            xs.swap(i, j);
        }
    }
    pub fn fork(&mut self) -> Rng {
        Rng(self.next())
    }
}

// ---------------------------------------------------------------------------------------------
pub fn hex(bs: &[u8]) -> String {
    let mut s = String::with_capacity(bs.len() * 2);
    for b in bs {
        s.push_str(&format!("{:02x}", b));
    }
    s
}
pub fn unhex(s: &str) -> Vec<u8> {
    (0..s.len() / 2)
        .map(|i| u8::from_str_radix(&s[2 * i..2 * i + 2], 16).unwrap())
        .collect()
}

pub fn bits(v: &[bool]) -> String {
    v.iter().map(|&b| if b { '1' } else { '0' }).collect()
}

/// canonical text of a CovResult: maps in key order, names hex-encoded
pub fn show_cov(c: &CovResult) -> String {
    let mut s = String::from("L");
    s.push_str(
        &c.lines
            .iter()
            .map(|(l, n)| format!("{}:{}", l, n))
            .collect::<Vec<_>>()
            .join(","),
    );
    s.push_str(";B");
    s.push_str(
        &c.branches
            .iter()
            .map(|(l, v)| format!("{}:{}", l, bits(v)))
            .collect::<Vec<_>>()
            .join(","),
    );
    s.push_str(";F");
    let mut fs: Vec<(&String, &Function)> = c.functions.iter().collect();
    fs.sort_by(|a, b| a.0.as_bytes().cmp(b.0.as_bytes()));
    s.push_str(
        &fs.iter()
            .map(|(n, f)| {
                format!(
                    "{}:{}:{}",
                    hex(n.as_bytes()),
                    f.start,
                    if f.executed { 1 } else { 0 }
                )
            })
            .collect::<Vec<_>>()
            .join(","),
    );
    s
}

pub fn parse_cov(s: &str) -> CovResult {
    let parts: Vec<&str> = s.split(';').collect();
    let mut c = CovResult::default();
    for e in parts[0][1..].split(',').filter(|e| !e.is_empty()) {
        let (l, n) = e.split_once(':').unwrap();
        c.lines.insert(l.parse().unwrap(), n.parse().unwrap());
    }
    for e in parts[1][1..].split(',').filter(|e| !e.is_empty()) {
        let (l, v) = e.split_once(':').unwrap();
        c.branches
            .insert(l.parse().unwrap(), v.chars().map(|c| c == '1').collect());
    }
    for e in parts[2][1..].split(',').filter(|e| !e.is_empty()) {
        let p: Vec<&str> = e.split(':').collect();
        c.functions.insert(
            String::from_utf8_lossy(&unhex(p[0])).to_string(),
            Function {
                start: p[1].parse().unwrap(),
                executed: p[2] == "1",
            },
        );
    }
    c
}

/// canonical text of a list of (path, CovResult): sorted by path bytes
pub fn show_results(rs: &[(String, CovResult)]) -> String {
    let mut v: Vec<String> = rs
        .iter()
        .map(|(k, c)| format!("K{}={}", hex(k.as_bytes()), show_cov(c)))
        .collect();
    v.sort();
    v.join(" ")
}
/// same, order preserved (for parsers whose section order is part of the result)
pub fn show_results_ordered(rs: &[(String, CovResult)]) -> String {
    rs.iter()
        .map(|(k, c)| format!("K{}={}", hex(k.as_bytes()), show_cov(c)))
        .collect::<Vec<_>>()
        .join(" ")
}

// ---------------------------------------------------------------------------------------------
// Panic capture
static LAST_PANIC: Mutex<Option<String>> = Mutex::new(None);

struct NullLogger;
impl log::Log for NullLogger {
    fn enabled(&self, _: &log::Metadata) -> bool {
        true
    }
    fn log(&self, r: &log::Record) {
        // format the arguments like a real logger would (their evaluation can panic)
        let _ = format!("{}", r.args());
    }
    fn flush(&self) {}
}
static NULL_LOGGER: NullLogger = NullLogger;

pub fn install_panic_hook() {
    let _ = log::set_logger(&NULL_LOGGER);
    log::set_max_level(log::LevelFilter::Trace);
    std::panic::set_hook(Box::new(|info| {
        let loc = info
            .location()
            .map(|l| format!("{}:{}", l.file(), l.line()))
            .unwrap_or_default();
        let msg = if let Some(s) = info.payload().downcast_ref::<&str>() {
            s.to_string()
        } else if let Some(s) = info.payload().downcast_ref::<String>() {
            s.clone()
        } else {
            String::new()
        };
        *LAST_PANIC.lock().unwrap() = Some(format!("{} {}", loc, msg));
    }));
}

pub fn take_last_panic() -> Option<String> {
    LAST_PANIC.lock().unwrap_or_else(|e| e.into_inner()).take()
}

/// Ok(value) or Err("file:line message") when `f` panicked
pub fn guarded<T>(f: impl FnOnce() -> T + std::panic::UnwindSafe) -> Result<T, String> {
    match std::panic::catch_unwind(f) {
        Ok(v) => Ok(v),
        Err(_) => Err(LAST_PANIC
            .lock()
            .unwrap()
            .take()
            .unwrap_or_else(|| "panic".to_string())),
    }
}

// ---------------------------------------------------------------------------------------------
// The Lean model driver
pub fn gmodel_path() -> PathBuf {
    std::env::var("GMODEL")
        .map(PathBuf::from)
        .unwrap_or_else(|_| PathBuf::from("/verif/lean/.lake/build/bin/gmodel"))
}

/// Send all request lines through the compiled Lean driver; one answer per request.
pub fn run_model(requests: &[String], workdir: &Path, tag: &str) -> Vec<String> {
    run_model_exe(&gmodel_path(), requests, workdir, tag)
}

/// same, through a component driver `gm_<name>` (lean/lakefile.toml)
pub fn run_model_named(exe: &str, requests: &[String], workdir: &Path, tag: &str) -> Vec<String> {
    run_model_exe(
        &PathBuf::from(format!("/verif/lean/.lake/build/bin/{}", exe)),
        requests,
        workdir,
        tag,
    )
}

pub fn run_model_exe(exe: &Path, requests: &[String], workdir: &Path, tag: &str) -> Vec<String> {
    let req_path = workdir.join(format!("{}.req", tag));
    {
        let mut f = std::io::BufWriter::new(std::fs::File::create(&req_path).unwrap());
        for r in requests {
            debug_assert!(!r.contains('\n'));
            writeln!(f, "{}", r).unwrap();
        }
    }
    let out = Command::new(exe)
        .stdin(Stdio::from(std::fs::File::open(&req_path).unwrap()))
        .stdout(Stdio::piped())
        .stderr(Stdio::inherit())
        .output()
        .expect("cannot run the Lean model driver (lake build it first)");
    if !out.status.success() {
        eprintln!("gmodel exited with {:?}", out.status);
        std::process::exit(2);
    }
    let text = String::from_utf8(out.stdout).expect("gmodel output not utf-8");
    let answers: Vec<String> = text.lines().map(|s| s.to_string()).collect();
    if answers.len() != requests.len() {
        eprintln!(
            "gmodel answered {} lines for {} requests",
            answers.len(),
            requests.len()
        );
        std::process::exit(2);
    }
    answers
}

// ---------------------------------------------------------------------------------------------
// Outcome of one property run

#[derive(Clone, Debug)]
pub struct Failure {
    /// "disagreement" (model ≠ impl) or "oracle" (property oracle fails on the implementation)
    pub kind: String,
    /// name of the known-finding matcher that recognises this case, if any
    pub finding: Option<String>,
    pub what: String,
    pub case: Value,
}

pub struct Report {
    pub prop: String,
    pub tier: String,
    pub seed: u64,
    pub workdir: PathBuf,
    pub evaluations: u64,
    nontrivial: HashSet<u64>,
    pub rule: String,
    pub samples: Vec<Value>,
    pub distribution: BTreeMap<String, u64>,
    pub failures: Vec<Failure>,
    pub disagreements_checked: u64,
    pub notes: Vec<String>,
    pub findings_seen: BTreeSet<String>,
    /// failures that no known-finding matcher recognised (for early exit once a verdict is clear)
    pub unnamed_failures: u64,
}

pub fn fnv64(s: &[u8]) -> u64 {
    let mut h: u64 = 0xcbf29ce484222325;
    for b in s {
        h ^= *b as u64;
        h = h.wrapping_mul(0x100000001b3);
    }
    h
}

impl Report {
    pub fn new(prop: &str, tier: &str, seed: u64) -> Report {
        let workdir = PathBuf::from(format!("/verif/work/{}", prop));
        let _ = std::fs::remove_dir_all(&workdir);
        std::fs::create_dir_all(&workdir).unwrap();
        Report {
            prop: prop.to_string(),
            tier: tier.to_string(),
            seed,
            workdir,
            evaluations: 0,
            nontrivial: HashSet::new(),
            rule: String::new(),
            samples: vec![],
            distribution: BTreeMap::new(),
            failures: vec![],
            disagreements_checked: 0,
            notes: vec![],
            findings_seen: BTreeSet::new(),
            unnamed_failures: 0,
        }
    }
    /// enough unexplained failures have been collected: stop generating (and shrinking) more
    pub fn verdict_clear(&self) -> bool {
        self.unnamed_failures >= 12
    }
    pub fn thorough(&self) -> bool {
        self.tier == "thorough"
    }
    /// budget multiplier: thorough × `t`, and ×5 when the anchored files changed
    pub fn budget(&self, quick: u64, thorough_factor: u64) -> u64 {
        let mut n = quick;
        if self.thorough() {
            n *= thorough_factor;
        }
        if std::env::var("VERIF_ANCHOR_CHANGED").map(|v| v == "1").unwrap_or(false) {
            n *= 5;
        }
        n
    }
    pub fn count(&mut self, key: &str) {
        *self.distribution.entry(key.to_string()).or_insert(0) += 1;
    }
    pub fn count_n(&mut self, key: &str, n: u64) {
        *self.distribution.entry(key.to_string()).or_insert(0) += n;
    }
    /// record one evaluated case; `nontrivial` = it exercised the branch named in `rule`
    pub fn case(&mut self, canonical: &str, nontrivial: bool) {
        self.evaluations += 1;
        if nontrivial {
            self.nontrivial.insert(fnv64(canonical.as_bytes()));
        }
    }
    pub fn sample(&mut self, v: Value) {
        if self.samples.len() < 4 {
            self.samples.push(v);
        }
    }
    pub fn fail(&mut self, kind: &str, finding: Option<&str>, what: String, case: Value) {
        if let Some(f) = finding {
            self.findings_seen.insert(f.to_string());
        }
        // keep at most 40 failures per (kind, finding) so that a systematic difference does not
        // flood the result file
        let n = self
            .failures
            .iter()
            .filter(|f| f.kind == kind && f.finding.as_deref() == finding)
            .count();
        if finding.is_none() {
            self.unnamed_failures += 1;
        }
        if n < 40 {
            self.failures.push(Failure {
                kind: kind.to_string(),
                finding: finding.map(|s| s.to_string()),
                what,
                case,
            });
        }
    }
    pub fn finish(self) {
        let res = json!({
            "property": self.prop,
            "tier": self.tier,
            "seed": self.seed,
            "evaluations": self.evaluations,
            "distinct_nontrivial": self.nontrivial.len(),
            "rule": self.rule,
            "samples": self.samples,
            "distribution": self.distribution,
            "disagreements_checked": self.disagreements_checked,
            "notes": self.notes,
            "findings_seen": self.findings_seen.iter().collect::<Vec<_>>(),
            "failures": self.failures.iter().map(|f| json!({
                "kind": f.kind, "finding": f.finding, "what": f.what, "case": f.case
            })).collect::<Vec<_>>(),
        });
        let p = self.workdir.join("result.json");
        std::fs::write(&p, serde_json::to_string_pretty(&res).unwrap()).unwrap();
        println!("result {}", p.display());
    }
}

pub fn fxmap<K: std::hash::Hash + Eq, V>() -> FxHashMap<K, V> {
    FxHashMap::default()
}
