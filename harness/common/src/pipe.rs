//! Driving the hooked `grcov` binary (C02/C07 and other CLI-level checks): input-set generation,
//! process runs with event log / perturbation / fault injection, log → `pipe.replay` request,
//! independent lcov-report decoder and independent aggregate.
use crate::common::*;
use crate::lcov::*;
use grcov::{CovResult, Function};
use std::collections::BTreeMap;
use std::io::Read;
use std::path::{Path, PathBuf};
use std::process::{Command, Stdio};
use std::time::{Duration, Instant};

pub fn grcov_bin() -> PathBuf {
    std::env::var("GRCOV_BIN")
        .map(PathBuf::from)
        .unwrap_or_else(|_| PathBuf::from("/verif/harness/target-grcov/debug/grcov"))
}

pub fn fnv_id(format: &str, content: &[u8]) -> String {
    format!("{}:{:016x}", format, fnv64(content))
}

#[derive(Clone, Debug)]
pub struct Input {
    pub name: String,      // file name inside the case directory
    pub format: &'static str, // "Info" | "JacocoXml"
    pub bytes: Vec<u8>,
    pub id: String,
    /// what this input contains, parsed independently of the pipeline (by the real parser
    /// in-process, itself tied to its model by C04/C10)
    pub parsed: Vec<(String, CovResult)>,
}

/// a small JaCoCo report (≥ 256 bytes so that the sniffing accepts it)
pub fn gen_jacoco(rng: &mut Rng, files: &[&str]) -> Vec<u8> {
    let mut s = String::from("<?xml version=\"1.0\" encoding=\"UTF-8\" standalone=\"yes\"?><!DOCTYPE report PUBLIC \"-//JACOCO//DTD Report 1.0//EN\" \"report.dtd\">\n<report name=\"r\"><sessioninfo id=\"s\" start=\"1\" dump=\"2\"/>\n");
    s.push_str("<package name=\"pkg\">\n");
    for f in files {
        let cls = f.trim_end_matches(".java");
        s.push_str(&format!(
            "<class name=\"pkg/{}\" sourcefilename=\"{}\">",
            cls, f
        ));
        for m in 0..rng.range(0, 2) {
            let cov = rng.below(2);
            s.push_str(&format!("<method name=\"m{}\" desc=\"()V\" line=\"{}\"><counter type=\"METHOD\" missed=\"{}\" covered=\"{}\"/></method>", m, 3 + 2 * m, 1 - cov, cov));
        }
        s.push_str("</class>\n");
    }
    for f in files {
        s.push_str(&format!("<sourcefile name=\"{}\">", f));
        let mut used = std::collections::BTreeSet::new();
        for _ in 0..rng.range(1, 4) {
            let nr = rng.range(1, 9);
            if !used.insert(nr) {
                continue;
            }
            if rng.chance(1, 3) {
                s.push_str(&format!(
                    "<line nr=\"{}\" mi=\"0\" ci=\"2\" mb=\"{}\" cb=\"{}\"/>",
                    nr,
                    rng.range(0, 2),
                    rng.range(1, 2)
                ));
            } else {
                s.push_str(&format!(
                    "<line nr=\"{}\" mi=\"{}\" ci=\"{}\" mb=\"0\" cb=\"0\"/>",
                    nr,
                    rng.below(3),
                    rng.below(3)
                ));
            }
        }
        s.push_str("</sourcefile>\n");
    }
    s.push_str("</package></report>\n");
    s.into_bytes()
}

/// inputs whose file records overlap (so that merging matters)
pub fn gen_inputs(rng: &mut Rng, k: usize) -> Vec<Input> {
    let sf_pool = ["src/a.c", "src/b.c", "lib/c.rs", "d.cpp"];
    let java_pool = ["A.java", "B.java"];
    let mut out = vec![];
    for i in 0..k {
        if rng.chance(1, 4) {
            let n = rng.range(1, 2) as usize;
            let files: Vec<&str> = java_pool[..n].to_vec();
            let mut bytes = gen_jacoco(rng, &files);
            // make contents unique so that ids are unique
            bytes.extend_from_slice(format!("<!-- {} -->\n", i).as_bytes());
            let parsed = grcov::parse_jacoco_xml_report(std::io::BufReader::new(std::io::Cursor::new(
                bytes.clone(),
            )))
            .unwrap_or_else(|e| panic!("the JaCoCo reader rejected a well-formed generated report: {}", e));
            out.push(Input {
                name: format!("in{}.xml", i),
                format: "JacocoXml",
                id: fnv_id("JacocoXml", &bytes),
                bytes,
                parsed,
            });
        } else {
            let cfg = GenCfg {
                allow_zero_taken: true,
                allow_first_branch_nonzero: true,
                allow_overflow_sum: true,
                allow_non_ascii: false,
            };
            let ns = rng.range(1, 3);
            let mut secs: Vec<Section> = vec![];
            for _ in 0..ns {
                let mut s = gen_section(rng, &cfg);
                s.sf = rng.pick(&sf_pool).to_string();
                // function names without commas/odd bytes are fine here; keep start lines stable
                // per name so that merged start lines are schedule-independent
                for r in s.recs.iter_mut() {
                    if let Rec::Fn(st, n) = r {
                        *st = 10 + (fnv64(n.as_bytes()) % 50) as u32;
                    }
                }
                // a tracefile may describe one source file in several sections (they are
                // aggregated like separate inputs); keep that frequent but not dominant
                if !secs.iter().any(|x: &Section| x.sf == s.sf) || rng.chance(1, 3) {
                    secs.push(s);
                }
            }
            // the producer only accepts .info files that start with TN: or SF: (C17)
            secs[0].pre.retain(|l| !l.is_empty());
            let mut bytes = render(&secs, false);
            bytes.extend_from_slice(format!("TN:u{}\n", i).as_bytes());
            let parsed = grcov::parse_lcov(bytes.clone(), true).unwrap_or_else(|e| panic!("parse_lcov rejected a well-formed generated tracefile ({}): {}", e, String::from_utf8_lossy(&bytes)));
            out.push(Input {
                name: format!("in{}.info", i),
                format: "Info",
                id: fnv_id("Info", &bytes),
                bytes,
                parsed,
            });
        }
    }
    out
}

/// C01's closed form, computed without merge_results; start line from any input (they agree)
pub fn aggregate(inputs: &[&Input]) -> BTreeMap<String, CovResult> {
    let mut m: BTreeMap<String, CovResult> = BTreeMap::new();
    for inp in inputs {
        for (k, c) in &inp.parsed {
            let out = m.entry(k.clone()).or_default();
            for (&l, &n) in &c.lines {
                let e = out.lines.entry(l).or_insert(0u64);
                *e = ((*e as u128 + n as u128).min(u64::MAX as u128)) as u64;
            }
            for (&l, v) in &c.branches {
                let e = out.branches.entry(l).or_default();
                if e.len() < v.len() {
                    e.resize(v.len(), false);
                }
                for (i, &t) in v.iter().enumerate() {
                    e[i] = e[i] || t;
                }
            }
            for (n, f) in &c.functions {
                let e = out.functions.entry(n.clone()).or_insert(Function {
                    start: f.start,
                    executed: false,
                });
                e.executed = e.executed || f.executed;
            }
        }
    }
    m
}

/// Independent reader of grcov's lcov output (not parse_lcov): SF/FN/FNDA/BRDA/DA records.
pub fn decode_lcov_report(text: &str) -> Result<BTreeMap<String, CovResult>, String> {
    let mut m: BTreeMap<String, CovResult> = BTreeMap::new();
    let mut cur: Option<(String, CovResult)> = None;
    for line in text.lines() {
        if let Some(sf) = line.strip_prefix("SF:") {
            cur = Some((sf.to_string(), CovResult::default()));
        } else if line == "end_of_record" {
            let (k, c) = cur.take().ok_or("end_of_record without SF")?;
            if m.insert(k.clone(), c).is_some() {
                return Err(format!("file {} listed twice", k));
            }
        } else if let Some(c) = cur.as_mut() {
            if let Some(r) = line.strip_prefix("DA:") {
                let (l, n) = r.split_once(',').ok_or("bad DA")?;
                let n = n.split(',').next().unwrap();
                if c.1
                    .lines
                    .insert(l.parse().map_err(|_| "bad DA line")?, n.parse().map_err(|_| "bad DA count")?)
                    .is_some()
                {
                    return Err(format!("line {} listed twice", l));
                }
            } else if let Some(r) = line.strip_prefix("FN:") {
                let (st, n) = r.split_once(',').ok_or("bad FN")?;
                c.1.functions.insert(
                    n.to_string(),
                    Function {
                        start: st.parse().map_err(|_| "bad FN start")?,
                        executed: false,
                    },
                );
            } else if let Some(r) = line.strip_prefix("FNDA:") {
                let (n, name) = r.split_once(',').ok_or("bad FNDA")?;
                let f = c.1.functions.get_mut(name).ok_or("FNDA without FN")?;
                f.executed |= n != "0";
            } else if let Some(r) = line.strip_prefix("BRDA:") {
                let p: Vec<&str> = r.split(',').collect();
                if p.len() != 4 {
                    return Err("bad BRDA".into());
                }
                let l: u32 = p[0].parse().map_err(|_| "bad BRDA line")?;
                let b: usize = p[2].parse().map_err(|_| "bad BRDA branch")?;
                let v = c.1.branches.entry(l).or_default();
                if v.len() <= b {
                    v.resize(b + 1, false);
                }
                v[b] |= p[3] != "-" && p[3] != "0";
            }
        }
    }
    Ok(m)
}

pub struct RunOut {
    pub exit: Option<i32>, // None = killed after the time limit
    pub stdout: String,
    pub stderr: String,
    pub log: Vec<(String, String, String)>, // thread, kind, id
    pub wall_ms: u128,
}

pub struct RunCfg<'a> {
    pub dir: &'a Path,
    pub args: Vec<String>,
    pub threads: usize,
    pub perturb: Option<u64>,
    pub fault: Option<String>,
    pub limit: Duration,
    pub extra: Vec<String>,
}

pub fn run_grcov(cfg: &RunCfg) -> RunOut {
    let log_path = cfg.dir.join("events.log");
    let _ = std::fs::remove_file(&log_path);
    let mut cmd = Command::new(grcov_bin());
    cmd.current_dir(cfg.dir)
        .args(&cfg.args)
        .arg("--threads")
        .arg(cfg.threads.to_string())
        .args(&cfg.extra)
        .env("GRCOV_VERIF_LOG", &log_path)
        .env_remove("GRCOV_VERIF_PERTURB")
        .env_remove("GRCOV_VERIF_FAULT")
        .stdout(Stdio::piped())
        .stderr(Stdio::piped());
    if let Some(p) = cfg.perturb {
        cmd.env("GRCOV_VERIF_PERTURB", p.to_string());
    }
    if let Some(f) = &cfg.fault {
        cmd.env("GRCOV_VERIF_FAULT", f);
    }
    let t0 = Instant::now();
    let mut child = cmd.spawn().expect("cannot start the grcov binary");
    // read the pipes on threads so that a large report cannot block the child
    let mut so = child.stdout.take().unwrap();
    let mut se = child.stderr.take().unwrap();
    let h1 = std::thread::spawn(move || {
        let mut s = String::new();
        let _ = so.read_to_string(&mut s);
        s
    });
    let h2 = std::thread::spawn(move || {
        let mut s = Vec::new();
        let _ = se.read_to_end(&mut s);
        String::from_utf8_lossy(&s).to_string()
    });
    let mut exit = None;
    loop {
        match child.try_wait() {
            Ok(Some(st)) => {
                exit = Some(st.code().unwrap_or(-1));
                break;
            }
            Ok(None) => {
                if t0.elapsed() > cfg.limit {
                    let _ = child.kill();
                    let _ = child.wait();
                    break;
                }
                std::thread::sleep(Duration::from_millis(2));
            }
            Err(_) => break,
        }
    }
    let stdout = h1.join().unwrap_or_default();
    let stderr = h2.join().unwrap_or_default();
    let mut log = vec![];
    if let Ok(text) = std::fs::read_to_string(&log_path) {
        for l in text.lines() {
            let p: Vec<&str> = l.splitn(4, ' ').collect();
            if p.len() == 4 {
                log.push((p[1].to_string(), p[2].to_string(), p[3].to_string()));
            }
        }
    }
    RunOut {
        exit,
        stdout,
        stderr,
        log,
        wall_ms: t0.elapsed().as_millis(),
    }
}

/// Translate the event log into a `pipe.replay` request. `n_inputs` is the number of work items
/// the producer has to send; `die_ids` are the ids configured to kill their worker.
pub fn log_to_request(
    out: &RunOut,
    threads: usize,
    rx_main: bool,
    n_inputs: usize,
    die_ids: &[String],
) -> Result<String, String> {
    log_to_request_ext(out, threads, rx_main, n_inputs, die_ids, false)
}

/// Largest number of items sent (send line written before the send) but not yet logged as received
/// at the moment a further send is announced: with capacity C and N workers it is at most C + N.
pub fn max_backlog(out: &RunOut) -> usize {
    let (mut sends, mut recvs, mut mx) = (0usize, 0usize, 0usize);
    for (_, kind, _) in &out.log {
        if kind == "send" {
            mx = mx.max(sends.saturating_sub(recvs));
            sends += 1;
        } else if kind == "recv" {
            recvs += 1;
        }
    }
    mx
}

/// `prod_died`: the producer thread panicked for a reason other than a failed send (no input
/// files, unreadable path mapping, …) after its last logged send.
/// Besides the per-thread event lists the request carries `O:`, the order of the `send` / `recv`
/// log lines (for the capacity bound), and – if the hooks log them – the events `lock`, `unlock`
/// (inside `add_results`) and `died_idle` of the consumers.
pub fn log_to_request_ext(
    out: &RunOut,
    threads: usize,
    rx_main: bool,
    n_inputs: usize,
    die_ids: &[String],
    prod_died: bool,
) -> Result<String, String> {
    // number the send attempts in producer order; the k-th recv of an id is the k-th send of it
    let mut sends: Vec<&str> = vec![];
    for (_, kind, id) in &out.log {
        if kind == "send" {
            sends.push(id);
        }
    }
    // an injected producer death (`panic_producer:<k>`) is logged after the `send` line of the
    // send it prevents: that last announced send never happened
    let injected_pd = out.log.iter().any(|(_, kind, _)| kind == "producer_died");
    if injected_pd {
        sends.pop();
    }
    let prod_died = prod_died || injected_pd;
    let mut taken = vec![false; sends.len()];
    let mut holding: BTreeMap<String, usize> = BTreeMap::new(); // thread -> item number
    let mut wev: Vec<Vec<String>> = vec![vec![]; threads];
    let mut mev: Vec<&str> = vec![];
    for (thread, kind, id) in &out.log {
        if let Some(w) = thread.strip_prefix("Consumer_") {
            let w: usize = w.parse().map_err(|_| "bad consumer name")?;
            if w >= threads {
                return Err(format!("consumer index {} >= threads", w));
            }
            match kind.as_str() {
                "recv" => {
                    let k = (0..sends.len())
                        .find(|&k| !taken[k] && sends[k] == id)
                        .ok_or_else(|| format!("recv of {} without a matching send", id))?;
                    taken[k] = true;
                    if let Some(prev) = holding.insert(thread.clone(), k + 1) {
                        // previous item was neither merged nor fatal: it was rejected
                        wev[w].push(format!("x{}", prev));
                    }
                    wev[w].push(format!("r{}", k + 1));
                }
                "merged" => {
                    let k = holding
                        .remove(thread)
                        .ok_or("merged without a held item")?;
                    wev[w].push(format!("m{}", k));
                }
                "recv_stop" => {
                    if let Some(prev) = holding.remove(thread) {
                        wev[w].push(format!("x{}", prev));
                    }
                    wev[w].push("s".into());
                }
                "exit" => wev[w].push("e".into()),
                "lock" => wev[w].push("l".into()),
                "unlock" => wev[w].push("u".into()),
                "died_idle" => wev[w].push("D".into()),
                _ => {}
            }
        } else if thread == "main" {
            match kind.as_str() {
                "main_prod_joined" => mev.push("j"),
                "main_stop" => mev.push("t"),
                "main_worker_joined" => mev.push("w"),
                _ => {}
            }
        }
    }
    // dangling held items: died if configured to, otherwise rejected-at-end is impossible
    // (a rejected item is followed by another recv or a stop), so the process ended meanwhile
    for (thread, k) in holding {
        let w: usize = thread.strip_prefix("Consumer_").unwrap().parse().unwrap();
        if die_ids.iter().any(|d| d == sends[k - 1]) {
            wev[w].push(format!("d{}", k));
        }
    }
    let extra = n_inputs.saturating_sub(sends.len());
    let mut req = format!(
        "pipe.replay {} {} P:{}{} M:{}",
        threads,
        if rx_main { 1 } else { 0 },
        (1..=sends.len())
            .map(|k| k.to_string())
            .collect::<Vec<_>>()
            .join(","),
        if extra > 0 {
            format!("+{}", extra)
        } else {
            String::new()
        },
        mev.join(",")
    );
    for w in wev {
        req.push_str(&format!(" W:{}", w.join(",")));
    }
    let order: String = out
        .log
        .iter()
        .filter_map(|(_, kind, _)| match kind.as_str() {
            "send" => Some('s'),
            "recv" => Some('r'),
            _ => None,
        })
        .collect();
    req.push_str(&format!(" O:{}", order));
    // the order of the lock / unlock log lines of all consumers: both are written inside the
    // critical section, so for a mutex that excludes they must alternate
    let locks: Vec<String> = out
        .log
        .iter()
        .filter_map(|(thread, kind, _)| {
            let w = thread.strip_prefix("Consumer_")?;
            match kind.as_str() {
                "lock" => Some(format!("{}l", w)),
                "unlock" => Some(format!("{}u", w)),
                _ => None,
            }
        })
        .collect();
    if !locks.is_empty() {
        req.push_str(&format!(" X:{}", locks.join(",")));
    }
    if prod_died {
        req.push_str(" PD");
    }
    // main left through process::exit(1) while workers could still be running: an event of a
    // worker that had just taken an element may be missing from the log
    if matches!(out.exit, Some(c) if c != 0) {
        req.push_str(" G");
    }
    Ok(req)
}

pub fn write_inputs(dir: &Path, inputs: &[Input]) {
    std::fs::create_dir_all(dir).unwrap();
    for i in inputs {
        std::fs::write(dir.join(&i.name), &i.bytes).unwrap();
    }
}

pub fn show_map(m: &BTreeMap<String, CovResult>) -> String {
    m.iter()
        .map(|(k, c)| format!("K{}={}", hex(k.as_bytes()), show_cov(c)))
        .collect::<Vec<_>>()
        .join(" ")
}
