//! Driving the hooked `grcov` binary (C02/C07 and other CLI-level checks): input-set generation,
//! process runs with event log / perturbation / fault injection, log → `pipe.replay` request,
//! independent lcov-report decoder and independent aggregate.
use crate::common::*;
use crate::lcov::*;
use grcov::{CovResult, Function};
use std::collections::BTreeMap;
use std::io::Read;
use std::path::{Path, PathBuf};
use std::process::{Command, Stdio};
use std::time::{Duration, Instant};

pub fn grcov_bin() -> PathBuf {
    std::env::var("GRCOV_BIN")
        .map(PathBuf::from)
        .unwrap_or_else(|_| PathBuf::from("/verif/harness/target-grcov/debug/grcov"))
}

pub fn fnv_id(format: &str, content: &[u8]) -> String {
    format!("{}:{:016x}", format, fnv64(content))
}

#[derive(Clone, Debug)]
pub struct Input {
    pub name: String,      // file name inside the case directory
    pub format: &'static str, // "Info" | "JacocoXml"
    pub bytes: Vec<u8>,
    pub id: String,
    /// what this input contains, parsed independently of the pipeline (by the real parser
    /// in-process, itself tied to its model by C04/C10)
    pub parsed: Vec<(String, CovResult)>,
}

/// a small JaCoCo report (≥ 256 bytes so that the sniffing accepts it)
pub fn gen_jacoco(rng: &mut Rng, files: &[&str]) -> Vec<u8> {
    let mut s = String::from("<?xml version=\"1.0\" encoding=\"UTF-8\" standalone=\"yes\"?><!DOCTYPE report PUBLIC \"-//JACOCO//DTD Report 1.0//EN\" \"report.dtd\">\n<report name=\"r\"><sessioninfo id=\"s\" start=\"1\" dump=\"2\"/>\n");
    s.push_str("<package name=\"pkg\">\n");
    for f in files {
        let cls = f.trim_end_matches(".java");
        s.push_str(&format!(
            "<class name=\"pkg/{}\" sourcefilename=\"{}\">",
            cls, f
        ));
        for m in 0..rng.range(0, 2) {
            let cov = rng.below(2);
            s.push_str(&format!("<method name=\"m{}\" desc=\"()V\" line=\"{}\"><counter type=\"METHOD\" missed=\"{}\" covered=\"{}\"/></method>", m, 3 + 2 * m, 1 - cov, cov));
        }
        s.push_str("</class>\n");
    }
    for f in files {
        s.push_str(&format!("<sourcefile name=\"{}\">", f));
        let mut used = std::collections::BTreeSet::new();
        for _ in 0..rng.range(1, 4) {
            let nr = rng.range(1, 9);
            if !used.insert(nr) {
                continue;
            }
            if rng.chance(1, 3) {
                s.push_str(&format!(
                    "<line nr=\"{}\" mi=\"0\" ci=\"2\" mb=\"{}\" cb=\"{}\"/>",
                    nr,
                    rng.range(0, 2),
                    rng.range(1, 2)
                ));
            } else {
                s.push_str(&format!(
                    "<line nr=\"{}\" mi=\"{}\" ci=\"{}\" mb=\"0\" cb=\"0\"/>",
                    nr,
                    rng.below(3),
                    rng.below(3)
                ));
            }
        }
        s.push_str("</sourcefile>\n");
    }
    s.push_str("</package></report>\n");
    s.into_bytes()
}

/// inputs whose file records overlap (so that merging matters)
pub fn gen_inputs(rng: &mut Rng, k: usize) -> Vec<Input> {
    let sf_pool = ["src/a.c", "src/b.c", "lib/c.rs", "d.cpp"];
    let java_pool = ["A.java", "B.java"];
    let mut out = vec![];
    for i in 0..k {
        if rng.chance(1, 4) {
            let n = rng.range(1, 2) as usize;
            let files: Vec<&str> = java_pool[..n].to_vec();
            let mut bytes = gen_jacoco(rng, &files);
            // make contents unique so that ids are unique
            bytes.extend_from_slice(format!("<!-- {} -->\n", i).as_bytes());
            let parsed = grcov::parse_jacoco_xml_report(std::io::BufReader::new(std::io::Cursor::new(
                bytes.clone(),
            )))
            .unwrap_or_else(|e| panic!("the JaCoCo reader rejected a well-formed generated report: {}", e));
            out.push(Input {
                name: format!("in{}.xml", i),
                format: "JacocoXml",
                id: fnv_id("JacocoXml", &bytes),
                bytes,
                parsed,
            });
        } else {
            let cfg = GenCfg {
                allow_zero_taken: true,
                allow_first_branch_nonzero: true,
                allow_overflow_sum: true,
                allow_non_ascii: false,
            };
            let ns = rng.range(1, 3);
            let mut secs: Vec<Section> = vec![];
            for _ in 0..ns {
                let mut s = gen_section(rng, &cfg);
                s.sf = rng.pick(&sf_pool).to_string();
                // function names without commas/odd bytes are fine here; keep start lines stable
                // per name so that merged start lines are schedule-independent
                for r in s.recs.iter_mut() {
                    if let Rec::Fn(st, n) = r {
                        *st = 10 + (fnv64(n.as_bytes()) % 50) as u32;
                    }
                }
                // a tracefile may describe one source file in several sections (they are
                // aggregated like separate inputs); keep that frequent but not dominant
                if !secs.iter().any(|x: &Section| x.sf == s.sf) || rng.chance(1, 3) {
                    secs.push(s);
                }
            }
            // the producer only accepts .info files that start with TN: or SF: (C17)
            secs[0].pre.retain(|l| !l.is_empty());
            let mut bytes = render(&secs, false);
            bytes.extend_from_slice(format!("TN:u{}\n", i).as_bytes());
            let parsed = grcov::parse_lcov(bytes.clone(), true).unwrap_or_else(|e| panic!("parse_lcov rejected a well-formed generated tracefile ({}): {}", e, String::from_utf8_lossy(&bytes)));
            out.push(Input {
                name: format!("in{}.info", i),
                format: "Info",
                id: fnv_id("Info", &bytes),
                bytes,
                parsed,
            });
        }
    }
    out
}

/// C01's closed form, computed without merge_results; start line from any input (they agree)
pub fn aggregate(inputs: &[&Input]) -> BTreeMap<String, CovResult> {
    let mut m: BTreeMap<String, CovResult> = BTreeMap::new();
    for inp in inputs {
        for (k, c) in &inp.parsed {
            let out = m.entry(k.clone()).or_default();
            for (&l, &n) in &c.lines {
                let e = out.lines.entry(l).or_insert(0u64);
                *e = ((*e as u128 + n as u128).min(u64::MAX as u128)) as u64;
            }
            for (&l, v) in &c.branches {
                let e = out.branches.entry(l).or_default();
                if e.len() < v.len() {
                    e.resize(v.len(), false);
                }
                for (i, &t) in v.iter().enumerate() {
                    e[i] = e[i] || t;
                }
            }
            for (n, f) in &c.functions {
                let e = out.functions.entry(n.clone()).or_insert(Function {
                    start: f.start,
                    executed: false,
                });
                e.executed = e.executed || f.executed;
            }
        }
    }
    m
}

/// Independent reader of grcov's lcov output (not parse_lcov): SF/FN/FNDA/BRDA/DA records.
pub fn decode_lcov_report(text: &str) -> Result<BTreeMap<String, CovResult>, String> {
    let mut m: BTreeMap<String, CovResult> = BTreeMap::new();
    let mut cur: Option<(String, CovResult)> = None;
    for line in text.lines() {
        if let Some(sf) = line.strip_prefix("SF:") {
            cur = Some((sf.to_string(), CovResult::default()));
        } else if line == "end_of_record" {
            let (k, c) = cur.take().ok_or("end_of_record without SF")?;
            if m.insert(k.clone(), c).is_some() {
                return Err(format!("file {} listed twice", k));
            }
        } else if let Some(c) = cur.as_mut() {
            if let Some(r) = line.strip_prefix("DA:") {
                let (l, n) = r.split_once(',').ok_or("bad DA")?;
                let n = n.split(',').next().unwrap();
                if c.1
                    .lines
                    .insert(l.parse().map_err(|_| "bad DA line")?, n.parse().map_err(|_| "bad DA count")?)
                    .is_some()
                {
                    return Err(format!("line {} listed twice", l));
                }
            } else if let Some(r) = line.strip_prefix("FN:") {
                let (st, n) = r.split_once(',').ok_or("bad FN")?;
                c.1.functions.insert(
                    n.to_string(),
                    Function {
                        start: st.parse().map_err(|_| "bad FN start")?,
                        executed: false,
                    },
                );
            } else if let Some(r) = line.strip_prefix("FNDA:") {
                let (n, name) = r.split_once(',').ok_or("bad FNDA")?;
                let f = c.1.functions.get_mut(name).ok_or("FNDA without FN")?;
                f.executed |= n != "0";
            } else if let Some(r) = line.strip_prefix("BRDA:") {
                let p: Vec<&str> = r.split(',').collect();
                if p.len() != 4 {
                    return Err("bad BRDA".into());
                }
                let l: u32 = p[0].parse().map_err(|_| "bad BRDA line")?;
                let b: usize = p[2].parse().map_err(|_| "bad BRDA branch")?;
                let v = c.1.branches.entry(l).or_default();
                if v.len() <= b {
                    v.resize(b + 1, false);
                }
                v[b] |= p[3] != "-" && p[3] != "0";
            }
        }
    }
    Ok(m)
}

pub struct RunOut {
    pub exit: Option<i32>, // None = killed after the time limit
    pub stdout: String,
    pub stderr: String,
    pub log: Vec<(String, String, String)>, // thread, kind, id
    pub wall_ms: u128,
}

pub struct RunCfg<'a> {
    pub dir: &'a Path,
    pub args: Vec<String>,
    pub threads: usize,
    pub perturb: Option<u64>,
    pub fault: Option<String>,
    pub limit: Duration,
    pub extra: Vec<String>,
}

pub fn run_grcov(cfg: &RunCfg) -> RunOut {
    let log_path = cfg.dir.join("events.log");
    let _ = std::fs::remove_file(&log_path);
    let mut cmd = Command::new(grcov_bin());
    cmd.current_dir(cfg.dir)
        .args(&cfg.args)
        .arg("--threads")
        .arg(cfg.threads.to_string())
        .args(&cfg.extra)
        .env("GRCOV_VERIF_LOG", &log_path)
        .env_remove("GRCOV_VERIF_PERTURB")
        .env_remove("GRCOV_VERIF_FAULT")
        .stdout(Stdio::piped())
        .stderr(Stdio::piped());
    if let Some(p) = cfg.perturb {
        cmd.env("GRCOV_VERIF_PERTURB", p.to_string());
    }
    if let Some(f) = &cfg.fault {
        cmd.env("GRCOV_VERIF_FAULT", f);
    }
    let t0 = Instant::now();
    let mut child = cmd.spawn().expect("cannot start the grcov binary");
    // read the pipes on threads so that a large report cannot block the child
    let mut so = child.stdout.take().unwrap();
    let mut se = child.stderr.take().unwrap();
    let h1 = std::thread::spawn(move || {
        let mut s = String::new();
        let _ = so.read_to_string(&mut s);
        s
    });
    let h2 = std::thread::spawn(move || {
        let mut s = Vec::new();
        let _ = se.read_to_end(&mut s);
        String::from_utf8_lossy(&s).to_string()
    });
    let mut exit = None;
    loop {
        match child.try_wait() {
            Ok(Some(st)) => {
                exit = Some(st.code().unwrap_or(-1));
                break;
            }
            Ok(None) => {
                if t0.elapsed() > cfg.limit {
                    let _ = child.kill();
                    let _ = child.wait();
                    break;
                }
                std::thread::sleep(Duration::from_millis(2));
            }
            Err(_) => break,
        }
    }
    let stdout = h1.join().unwrap_or_default();
    let stderr = h2.join().unwrap_or_default();
    let mut log = vec![];
    if let Ok(text) = std::fs::read_to_string(&log_path) {
        for l in text.lines() {
            let p: Vec<&str> = l.splitn(4, ' ').collect();
            if p.len() == 4 {
                log.push((p[1].to_string(), p[2].to_string(), p[3].to_string()));
            }
        }
    }
    RunOut {
        exit,
        stdout,
        stderr,
        log,
        wall_ms: t0.elapsed().as_millis(),
    }
}

/// Translate the event log into a `pipe.replay` request. `n_inputs` is the number of work items
/// the producer has to send; `die_ids` are the ids configured to kill their worker.
pub fn log_to_request(
    out: &RunOut,
    threads: usize,
    rx_main: bool,
    n_inputs: usize,
    die_ids: &[String],
) -> Result<String, String> {
    log_to_request_ext(out, threads, rx_main, n_inputs, die_ids, false)
}

/// Largest number of items sent (send line written before the send) but not yet logged as received
/// at the moment a further send is announced: with capacity C and N workers it is at most C + N.
pub fn max_backlog(out: &RunOut) -> usize {
    let (mut sends, mut recvs, mut mx) = (0usize, 0usize, 0usize);
    for (_, kind, _) in &out.log {
        if kind == "send" {
            mx = mx.max(sends.saturating_sub(recvs));
            sends += 1;
        } else if kind == "recv" {
            recvs += 1;
        }
    }
    mx
}

/// `prod_died`: the producer thread panicked for a reason other than a failed send (no input
/// files, unreadable path mapping, …) after its last logged send.
/// Besides the per-thread event lists the request carries `O:`, the order of the `send` / `recv`
/// log lines (for the capacity bound), and – if the hooks log them – the events `lock`, `unlock`
/// (inside `add_results`) and `died_idle` of the consumers.
pub fn log_to_request_ext(
    out: &RunOut,
    threads: usize,
    rx_main: bool,
    n_inputs: usize,
    die_ids: &[String],
    prod_died: bool,
) -> Result<String, String> {
    // number the send attempts in producer order; the k-th recv of an id is the k-th send of it
    let mut sends: Vec<&str> = vec![];
    for (_, kind, id) in &out.log {
        if kind == "send" {
            sends.push(id);
        }
    }
    // an injected producer death (`panic_producer:<k>`) is logged after the `send` line of the
    // send it prevents: that last announced send never happened
    let injected_pd = out.log.iter().any(|(_, kind, _)| kind == "producer_died");
    if injected_pd {
        sends.pop();
    }
    let prod_died = prod_died || injected_pd;
    let mut taken = vec![false; sends.len()];
    let mut holding: BTreeMap<String, usize> = BTreeMap::new(); // thread -> item number
    let mut wev: Vec<Vec<String>> = vec![vec![]; threads];
    let mut mev: Vec<&str> = vec![];
    for (thread, kind, id) in &out.log {
        if let Some(w) = thread.strip_prefix("Consumer_") {
            let w: usize = w.parse().map_err(|_| "bad consumer name")?;
            if w >= threads {
                return Err(format!("consumer index {} >= threads", w));
            }
            match kind.as_str() {
                "recv" => {
                    let k = (0..sends.len())
                        .find(|&k| !taken[k] && sends[k] == id)
                        .ok_or_else(|| format!("recv of {} without a matching send", id))?;
                    taken[k] = true;
                    if let Some(prev) = holding.insert(thread.clone(), k + 1) {
                        // previous item was neither merged nor fatal: it was rejected
                        wev[w].push(format!("x{}", prev));
                    }
                    wev[w].push(format!("r{}", k + 1));
                }
                "merged" => {
                    let k = holding
                        .remove(thread)
                        .ok_or("merged without a held item")?;
                    wev[w].push(format!("m{}", k));
                }
                "recv_stop" => {
                    if let Some(prev) = holding.remove(thread) {
                        wev[w].push(format!("x{}", prev));
                    }
                    wev[w].push("s".into());
                }
                "exit" => wev[w].push("e".into()),
                "lock" => wev[w].push("l".into()),
                "unlock" => wev[w].push("u".into()),
                "died_idle" => wev[w].push("D".into()),
                _ => {}
            }
        } else if thread == "main" {
            match kind.as_str() {
                "main_prod_joined" => mev.push("j"),
                "main_stop" => mev.push("t"),
                "main_worker_joined" => mev.push("w"),
                _ => {}
            }
        }
    }
    // dangling held items: died if configured to, otherwise rejected-at-end is impossible
    // (a rejected item is followed by another recv or a stop), so the process ended meanwhile
    for (thread, k) in holding {
        let w: usize = thread.strip_prefix("Consumer_").unwrap().parse().unwrap();
        if die_ids.iter().any(|d| d == sends[k - 1]) {
            wev[w].push(format!("d{}", k));
        }
    }
    let extra = n_inputs.saturating_sub(sends.len());
    let mut req = format!(
        "pipe.replay {} {} P:{}{} M:{}",
        threads,
        if rx_main { 1 } else { 0 },
        (1..=sends.len())
            .map(|k| k.to_string())
            .collect::<Vec<_>>()
            .join(","),
        if extra > 0 {
            format!("+{}", extra)
        } else {
            String::new()
        },
        mev.join(",")
    );
    for w in wev {
        req.push_str(&format!(" W:{}", w.join(",")));
    }
    let order: String = out
        .log
        .iter()
        .filter_map(|(_, kind, _)| match kind.as_str() {
            "send" => Some('s'),
            "recv" => Some('r'),
            _ => None,
        })
        .collect();
    req.push_str(&format!(" O:{}", order));
    // the order of the lock / unlock log lines of all consumers: both are written inside the
    // critical section, so for a mutex that excludes they must alternate
    let locks: Vec<String> = out
        .log
        .iter()
        .filter_map(|(thread, kind, _)| {
            let w = thread.strip_prefix("Consumer_")?;
            match kind.as_str() {
                "lock" => Some(format!("{}l", w)),
                "unlock" => Some(format!("{}u", w)),
                _ => None,
            }
        })
        .collect();
    if !locks.is_empty() {
        req.push_str(&format!(" X:{}", locks.join(",")));
    }
    if prod_died {
        req.push_str(" PD");
    }
    // main left through process::exit(1) while workers could still be running: an event of a
    // worker that had just taken an element may be missing from the log
    if matches!(out.exit, Some(c) if c != 0) {
        req.push_str(" G");
    }
    Ok(req)
}

pub fn write_inputs(dir: &Path, inputs: &[Input]) {
    std::fs::create_dir_all(dir).unwrap();
    for i in inputs {
        std::fs::write(dir.join(&i.name), &i.bytes).unwrap();
    }
}

pub fn show_map(m: &BTreeMap<String, CovResult>) -> String {
    m.iter()
        .map(|(k, c)| format!("K{}={}", hex(k.as_bytes()), show_cov(c)))
        .collect::<Vec<_>>()
        .join(" ")
}

// =================================================================================================
// Session 4, second wave (package W7): new functions only.
//  * `write_stored_zip`, `build_layout`: input sets packed into 1-2 zips and 2-3 directories and
//    plain files, an LLVM gcno/gcda pair, a `-s` tree with `./` spellings, really shuffled arguments
//    (review item 16);
//  * `HangBudget`: bounds the wall time a check spends on runs that do not terminate;
//  * `log_to_request_full`: `died_in_merge` (hook `panic_in_merge`), hook-rejected items that were
//    still held when `main` left through `process::exit(1)` (review item 17).
// =================================================================================================

pub fn crc32(data: &[u8]) -> u32 {
    let mut c: u32 = 0xFFFF_FFFF;
    for b in data {
        c ^= *b as u32;
        for _ in 0..8 {
            c = if c & 1 != 0 { (c >> 1) ^ 0xEDB8_8320 } else { c >> 1 };
        }
    }
    !c
}

/// a zip archive with stored (uncompressed) entries, written by hand (corrlib has no zip crate)
pub fn write_stored_zip(path: &Path, entries: &[(String, Vec<u8>)]) {
    let mut out: Vec<u8> = vec![];
    let mut central: Vec<u8> = vec![];
    let le16 = |v: u16| v.to_le_bytes();
    let le32 = |v: u32| v.to_le_bytes();
    for (name, data) in entries {
        let off = out.len() as u32;
        let crc = crc32(data);
        out.extend_from_slice(&le32(0x0403_4b50));
        out.extend_from_slice(&le16(20)); // version needed
        out.extend_from_slice(&le16(0)); // flags
        out.extend_from_slice(&le16(0)); // stored
        out.extend_from_slice(&le16(0)); // time
        out.extend_from_slice(&le16(0x21)); // date 1980-01-01
        out.extend_from_slice(&le32(crc));
        out.extend_from_slice(&le32(data.len() as u32));
        out.extend_from_slice(&le32(data.len() as u32));
        out.extend_from_slice(&le16(name.len() as u16));
        out.extend_from_slice(&le16(0));
        out.extend_from_slice(name.as_bytes());
        out.extend_from_slice(data);
        central.extend_from_slice(&le32(0x0201_4b50));
        central.extend_from_slice(&le16(20)); // made by
        central.extend_from_slice(&le16(20)); // needed
        central.extend_from_slice(&le16(0));
        central.extend_from_slice(&le16(0));
        central.extend_from_slice(&le16(0));
        central.extend_from_slice(&le16(0x21));
        central.extend_from_slice(&le32(crc));
        central.extend_from_slice(&le32(data.len() as u32));
        central.extend_from_slice(&le32(data.len() as u32));
        central.extend_from_slice(&le16(name.len() as u16));
        central.extend_from_slice(&le16(0)); // extra
        central.extend_from_slice(&le16(0)); // comment
        central.extend_from_slice(&le16(0)); // disk
        central.extend_from_slice(&le16(0)); // internal attrs
        central.extend_from_slice(&le32(0o100644 << 16)); // external attrs: a regular file
        central.extend_from_slice(&le32(off));
        central.extend_from_slice(name.as_bytes());
    }
    let cd_off = out.len() as u32;
    out.extend_from_slice(&central);
    out.extend_from_slice(&le32(0x0605_4b50));
    out.extend_from_slice(&le16(0));
    out.extend_from_slice(&le16(0));
    out.extend_from_slice(&le16(entries.len() as u16));
    out.extend_from_slice(&le16(entries.len() as u16));
    out.extend_from_slice(&le32(central.len() as u32));
    out.extend_from_slice(&le32(cd_off));
    out.extend_from_slice(&le16(0));
    std::fs::write(path, out).unwrap();
}

/// the spellings under which a tracefile may name a file that exists below the `-s` directory
pub fn spellings_of(p: &str) -> Vec<String> {
    let mut v = vec![p.to_string(), format!("./{}", p)];
    if let Some((d, f)) = p.rsplit_once('/') {
        v.push(format!("{}/./{}", d, f));
        v.push(format!("{}//{}", d, f));
        v.push(format!("./{}/./{}", d, f));
    }
    v
}

/// `./`, `/./` and `//` removed (what canonicalisation below the source directory does to an
/// existing file's name)
pub fn normalise_spelling(k: &str) -> String {
    k.split('/').filter(|c| !c.is_empty() && *c != ".").collect::<Vec<_>>().join("/")
}

/// An input set as it lies on disk and is named on the command line.
pub struct Layout {
    /// every file written below the case directory (zips as their bytes): enough to replay
    pub files: Vec<(String, Vec<u8>)>,
    /// the artifacts with what each one contains (independent in-process parse; for the LLVM
    /// gcno/gcda pair: the decoded report of a reference run on the pair alone)
    pub inputs: Vec<Input>,
    /// path arguments, relative to the case directory, in the (shuffled) order given
    pub args: Vec<String>,
    /// the arguments in generation order (to tell whether the shuffle changed anything)
    pub args_canonical: Vec<String>,
    /// `-s tree` when the layout has a source tree
    pub extra: Vec<String>,
    /// number of work items the producer must send
    pub n_items: usize,
    pub has_pair: bool,
    pub source_tree: bool,
    /// short description for the distribution counters
    pub shape: String,
}

impl Layout {
    pub fn materialise(&self, dir: &Path) {
        let _ = std::fs::remove_dir_all(dir);
        std::fs::create_dir_all(dir).unwrap();
        for (p, b) in &self.files {
            let path = dir.join(p);
            std::fs::create_dir_all(path.parent().unwrap()).unwrap();
            std::fs::write(path, b).unwrap();
        }
    }
    /// the report every run must decode to: the C01 aggregate of what each artifact contains,
    /// two spellings of one existing file being one file
    pub fn expected(&self) -> BTreeMap<String, CovResult> {
        let refs: Vec<&Input> = self.inputs.iter().collect();
        let agg = aggregate(&refs);
        if !self.source_tree {
            return agg;
        }
        // merge the entries whose keys are spellings of one existing file
        let existing: Vec<String> = self.files.iter().filter_map(|(p, _)| p.strip_prefix("tree/").map(|s| s.to_string())).collect();
        let respelled: Vec<Input> = self.inputs.iter().map(|inp| Input {
            name: String::new(), format: inp.format, bytes: vec![], id: String::new(),
            parsed: inp.parsed.iter().map(|(k, c)| {
                let n = normalise_spelling(k);
                (if existing.contains(&n) { n } else { k.clone() }, c.clone())
            }).collect(),
        }).collect();
        let refs: Vec<&Input> = respelled.iter().collect();
        aggregate(&refs)
    }
    pub fn to_json(&self) -> serde_json::Value {
        serde_json::json!({
            "files": self.files.iter().map(|(p, b)| serde_json::json!([p, hex(b)])).collect::<Vec<_>>(),
            "args": self.args, "extra": self.extra, "n_items": self.n_items,
            "expected": show_map(&self.expected()), "shape": self.shape,
        })
    }
}

/// like `gen_inputs`, with the source files named under varying spellings when `spell` is set
/// (all spellings denote files that exist below the source tree, except `d.cpp`)
pub fn gen_inputs_spelled(rng: &mut Rng, k: usize, spell: bool) -> Vec<Input> {
    let mut inputs = gen_inputs(rng, k);
    if !spell {
        return inputs;
    }
    for inp in inputs.iter_mut() {
        if inp.format != "Info" {
            continue;
        }
        let text = String::from_utf8_lossy(&inp.bytes).to_string();
        let mut out = String::new();
        for l in text.split_inclusive('\n') {
            match l.strip_prefix("SF:") {
                Some(sf) if sf.trim_end() != "d.cpp" => {
                    let sp = spellings_of(sf.trim_end());
                    out.push_str(&format!("SF:{}\n", rng.pick(&sp)));
                }
                _ => out.push_str(l),
            }
        }
        inp.bytes = out.into_bytes();
        inp.id = fnv_id("Info", &inp.bytes);
        inp.parsed = grcov::parse_lcov(inp.bytes.clone(), true).expect("respelled tracefile is well formed");
    }
    inputs
}

/// A random packaging of `k` overlapping .info/.xml artifacts: each goes into one of 2-3
/// directories (possibly a sub-directory), one of 1-2 zip archives, or stays a plain-file argument;
/// now and then two artifacts get the SAME relative name in different archives; with probability
/// 1/3 an LLVM gcno/gcda pair (/repo/test/llvm) lies in a directory or a zip; with probability 1/3
/// there is a source tree `tree/` (given as `-s tree`) and the tracefiles name its files under
/// `./`, `/./`, `//` spellings. The argument list is shuffled (a real permutation whenever there
/// are two arguments). `dir` is where reference runs may be made.
pub fn build_layout(rng: &mut Rng, dir: &Path, k: usize) -> Layout {
    let source_tree = rng.chance(1, 3);
    let mut inputs = gen_inputs_spelled(rng, k, source_tree);
    let nd = rng.range(2, 3) as usize;
    let nz = rng.range(1, 2) as usize;
    let mut dirs: Vec<Vec<(String, Vec<u8>)>> = vec![vec![]; nd];
    let mut zips: Vec<Vec<(String, Vec<u8>)>> = vec![vec![]; nz];
    let mut plain: Vec<(String, Vec<u8>)> = vec![];
    let mut same_name_used = 0;
    for (i, inp) in inputs.iter_mut().enumerate() {
        let ext = if inp.format == "Info" { "info" } else { "xml" };
        let mut rel = match rng.below(4) {
            0 => format!("sub/in{}.{}", i, ext),
            1 => format!("sub/deep/in{}.{}", i, ext),
            _ => format!("in{}.{}", i, ext),
        };
        if rng.chance(1, 4) {
            rel = format!("cov.{}", ext); // the same relative name in several archives
        }
        let place = rng.below(8);
        let slot: &mut Vec<(String, Vec<u8>)> = if place < 2 {
            rel = format!("in{}.{}", i, ext);
            &mut plain
        } else if place < 5 {
            &mut dirs[rng.below(nd as u64) as usize]
        } else {
            &mut zips[rng.below(nz as u64) as usize]
        };
        if slot.iter().any(|e| e.0 == rel) {
            rel = format!("in{}.{}", i, ext);
        } else if rel.starts_with("cov.") {
            same_name_used += 1;
        }
        slot.push((rel.clone(), inp.bytes.clone()));
        inp.name = rel;
    }
    // the LLVM pair
    let has_pair = rng.chance(1, 3) && Path::new("/repo/test/llvm/file.gcno").exists();
    let mut pair_in_zip = false;
    if has_pair {
        let stem = *rng.pick(&["file", "file_branch"]);
        let gcno = std::fs::read(format!("/repo/test/llvm/{}.gcno", stem)).unwrap();
        let gcda = std::fs::read(format!("/repo/test/llvm/{}.gcda", stem)).unwrap();
        let pre = if rng.chance(1, 2) { "obj/" } else { "" };
        pair_in_zip = rng.chance(1, 2);
        let slot = if pair_in_zip { &mut zips[rng.below(nz as u64) as usize] } else { &mut dirs[rng.below(nd as u64) as usize] };
        slot.push((format!("{}{}.gcno", pre, stem), gcno.clone()));
        slot.push((format!("{}{}.gcda", pre, stem), gcda.clone()));
        // what the pair contains: a reference run on the pair alone
        let refdir = dir.join("pair_reference");
        let _ = std::fs::remove_dir_all(&refdir);
        std::fs::create_dir_all(refdir.join("p")).unwrap();
        std::fs::write(refdir.join("p").join(format!("{}.gcno", stem)), &gcno).unwrap();
        std::fs::write(refdir.join("p").join(format!("{}.gcda", stem)), &gcda).unwrap();
        let out = run_grcov(&RunCfg { dir: &refdir, args: vec!["p".into()], threads: 1, perturb: None, fault: None,
            limit: Duration::from_secs(60), extra: vec!["-t".into(), "lcov".into(), "--branch".into(), "--no-demangle".into()] });
        let parsed: Vec<(String, CovResult)> = decode_lcov_report(&out.stdout).map(|m| m.into_iter().collect()).unwrap_or_default();
        let _ = std::fs::remove_dir_all(&refdir);
        inputs.push(Input { name: format!("{}{}.gcno", pre, stem), format: "Gcno", bytes: gcno,
            id: format!("Gcno:buffers:{}{}:1", pre, stem), parsed });
    }
    let mut files: Vec<(String, Vec<u8>)> = vec![];
    let mut args: Vec<String> = vec![];
    for (j, d) in dirs.iter().enumerate() {
        if d.is_empty() {
            continue;
        }
        for (rel, b) in d {
            files.push((format!("d{}/{}", j, rel), b.clone()));
        }
        // a decoy beside the artifacts
        files.push((format!("d{}/README.txt", j), b"not coverage\n".to_vec()));
        args.push(format!("d{}", j));
    }
    for (j, z) in zips.iter().enumerate() {
        if z.is_empty() {
            continue;
        }
        let tmp = dir.join(format!("layout_z{}.zip", j));
        std::fs::create_dir_all(dir).unwrap();
        write_stored_zip(&tmp, z);
        files.push((format!("z{}.zip", j), std::fs::read(&tmp).unwrap()));
        let _ = std::fs::remove_file(&tmp);
        args.push(format!("z{}.zip", j));
    }
    for (rel, b) in &plain {
        files.push((rel.clone(), b.clone()));
        args.push(rel.clone());
    }
    let mut extra = vec![];
    if source_tree {
        for f in ["src/a.c", "src/b.c", "lib/c.rs", "pkg/A.java", "pkg/B.java"] {
            files.push((format!("tree/{}", f), format!("// {}\n", f).into_bytes()));
        }
        extra.push("-s".to_string());
        extra.push("tree".to_string());
    }
    let args_canonical = args.clone();
    if args.len() >= 2 {
        // a real permutation
        for _ in 0..8 {
            rng.shuffle(&mut args);
            if args != args_canonical {
                break;
            }
        }
        if args == args_canonical {
            args.reverse();
        }
    }
    let shape = format!("dirs={} zips={} plain={}{}{}{}", dirs.iter().filter(|d| !d.is_empty()).count(),
        zips.iter().filter(|z| !z.is_empty()).count(), plain.len(),
        if has_pair { if pair_in_zip { " pair-in-zip" } else { " pair-in-dir" } } else { "" },
        if source_tree { " -s" } else { "" }, if same_name_used >= 2 { " same-rel-name" } else { "" });
    let n_items = inputs.len();
    Layout { files, inputs, args, args_canonical, extra, n_items, has_pair, source_tree, shape }
}

/// Bounds the time a check spends on runs that do not terminate: the first hung run may take
/// `first`, every later one `later`; after `max_hangs` hung runs `exhausted()` says "stop starting
/// runs that can hang" (each hung run is reported as a violation by the caller anyway).
pub struct HangBudget {
    pub hangs: usize,
    pub max_hangs: usize,
    pub first: Duration,
    pub later: Duration,
    pub skipped: usize,
}

impl HangBudget {
    pub fn new(first_s: u64, later_s: u64, max_hangs: usize) -> HangBudget {
        HangBudget { hangs: 0, max_hangs, first: Duration::from_secs(first_s), later: Duration::from_secs(later_s), skipped: 0 }
    }
    pub fn limit(&self) -> Duration {
        if self.hangs == 0 { self.first } else { self.later }
    }
    pub fn exhausted(&self) -> bool {
        self.hangs >= self.max_hangs
    }
    /// to be called with every finished run
    pub fn note(&mut self, out: &RunOut) {
        if out.exit.is_none() {
            self.hangs += 1;
        }
    }
    pub fn skip(&mut self) {
        self.skipped += 1;
    }
}

/// `log_to_request_ext` plus: `died_in_merge` (the consumer panicked inside `add_results`, after its
/// `lock` line: event `M`); and a held item that the hook was going to reject (`rej_ids`) when
/// `main` left through `process::exit(1)`: the rejection is immediate and silent, the worker may
/// even have taken one more element without reaching its log call, so the item counts as rejected.
/// The request ends with `E:<0|1>`, the exit status class of the process: only a realisation that
/// ends with it counts (whether the producer's last announced send failed is not in the log).
pub fn log_to_request_full(
    out: &RunOut,
    threads: usize,
    rx_main: bool,
    n_inputs: usize,
    die_ids: &[String],
    rej_ids: &[String],
    prod_died: bool,
) -> Result<String, String> {
    // `main` left through `process::exit(1)` while a worker was writing its log line (the hook
    // writes a line piecewise): the LAST line may be cut short – a `recv` whose id is no send's id.
    // The worker then counts as one that took an element without reaching its log call (`G`).
    let nonzero0 = matches!(out.exit, Some(c) if c != 0) || out.exit.is_none();
    let mut log = out.log.clone();
    if nonzero0 {
        if let Some(last) = log.last() {
            if last.1 == "recv" && !log.iter().any(|e| e.1 == "send" && e.2 == last.2) {
                log.pop();
            }
        }
    }
    let out = &RunOut { exit: out.exit, stdout: String::new(), stderr: String::new(), log, wall_ms: out.wall_ms };
    let base = log_to_request_ext(out, threads, rx_main, n_inputs, die_ids, prod_died)?;
    // recompute the per-worker tails that the base translation does not know about
    let mut sends: Vec<&str> = out.log.iter().filter(|e| e.1 == "send").map(|e| e.2.as_str()).collect();
    if out.log.iter().any(|e| e.1 == "producer_died") {
        sends.pop();
    }
    let mut taken = vec![false; sends.len()];
    let mut holding: BTreeMap<usize, usize> = BTreeMap::new();
    let mut insert_m: Vec<(usize, usize)> = vec![]; // (worker, number of W-events before the M)
    let mut nev: Vec<usize> = vec![0; threads];
    for (thread, kind, id) in &out.log {
        let Some(w) = thread.strip_prefix("Consumer_").and_then(|w| w.parse::<usize>().ok()) else { continue };
        if w >= threads {
            continue;
        }
        match kind.as_str() {
            "recv" => {
                if let Some(k) = (0..sends.len()).find(|&k| !taken[k] && sends[k] == id) {
                    taken[k] = true;
                    if holding.insert(w, k + 1).is_some() {
                        nev[w] += 1; // the x event
                    }
                    nev[w] += 1;
                }
            }
            "merged" => {
                holding.remove(&w);
                nev[w] += 1;
            }
            "recv_stop" => {
                if holding.remove(&w).is_some() {
                    nev[w] += 1;
                }
                nev[w] += 1;
            }
            "exit" | "lock" | "unlock" | "died_idle" => nev[w] += 1,
            "died_in_merge" => {
                insert_m.push((w, nev[w]));
                holding.remove(&w);
            }
            _ => {}
        }
    }
    let nonzero = matches!(out.exit, Some(c) if c != 0);
    let mut toks: Vec<String> = base.split(' ').map(|s| s.to_string()).collect();
    let mut wi = 0usize;
    for t in toks.iter_mut() {
        if !t.starts_with("W:") {
            continue;
        }
        let w = wi;
        wi += 1;
        let mut evs: Vec<String> = t[2..].split(',').filter(|e| !e.is_empty()).map(|s| s.to_string()).collect();
        if let Some((_, at)) = insert_m.iter().find(|e| e.0 == w) {
            // a `d<k>` the base translation may have appended for this worker does not apply
            evs.retain(|e| !e.starts_with('d'));
            let at = (*at).min(evs.len());
            evs.insert(at, "M".into());
        } else if let Some(k) = holding.get(&w) {
            let id = sends[*k - 1];
            if nonzero && rej_ids.iter().any(|r| r == id) && !evs.iter().any(|e| e.starts_with('d')) {
                evs.push(format!("x{}", k));
            }
        }
        *t = format!("W:{}", evs.join(","));
    }
    // the exit status of the process decides between realisations that differ in silent steps only
    if let Some(c) = out.exit {
        toks.push(format!("E:{}", if c == 0 { 0 } else { 1 }));
    }
    Ok(toks.join(" "))
}

// =================================================================================================
// Session 4, third wave (package W7, round-5 seeds C02-5 / C07-5): a CLI-level stream with a
// SCRIPTED `$GCOV` (the variable grcov itself reads). A "gcno" of this stream is a one-line control
// file `W7STUB <dir> <status>`: the stub copies the prepared output files of `<dir>` into its
// working directory (the consumer's) and exits with `<status>`; `--version` prints the text of the
// file named by `$W7_GCOV_VERSION`. Two emulations:
//  * text: gcov 7.5 – several intermediate-format `.gcov` files per translation unit (one per
//    source file, a header shared between units), grcov's "multiple files" mode; some units have
//    ONE output file the parser rejects (truncated record, non-numeric line): the unit is rejected
//    as a whole and must contribute NOTHING, also not its other source files;
//  * json: gcov 12.2 – one `<unit>.gcov.json.gz` per unit; some units FAIL (exit status 5, the
//    stale-gcda case) AFTER writing a complete all-zero output: nothing of it may reach the report,
//    whichever item its consumer handles next; role-swapped pairs of sets make sure that in one of
//    them the failing unit is the first gcno item of its consumer.
// Oracle (property texts of C02 / C07, no model): exit status 0; the decoded report is the C01
// aggregate of the units that were not rejected, each taken alone (the expectation is built from
// the generated data, and checked against a reference run on the good units only); one error is
// logged per rejected unit; for --threads 1, 2, 4 and two argument orders.
// =================================================================================================

pub const W7_GCOV_STUB: &str = r#"#!/bin/sh
if [ "$1" = "--version" ]; then cat "$W7_GCOV_VERSION"; exit 0; fi
g=""
for a in "$@"; do case "$a" in *.gcno) g="$a";; esac; done
[ -n "$g" ] || exit 1
read tag dir code < "$g" || true
[ "$tag" = "W7STUB" ] || exit 1
for f in "$dir"/*; do [ -e "$f" ] && cp "$f" .; done
exit "$code"
"#;

pub fn gzip_bytes(data: &[u8]) -> Vec<u8> {
    use std::io::Write;
    let mut child = Command::new("gzip").arg("-c").stdin(Stdio::piped()).stdout(Stdio::piped()).spawn().expect("gzip is needed for the scripted-gcov stream");
    child.stdin.take().unwrap().write_all(data).unwrap();
    let out = child.wait_with_output().unwrap();
    out.stdout
}

#[derive(Clone)]
pub struct StubUnit {
    pub name: String,
    /// files the scripted gcov leaves in the working directory
    pub outputs: Vec<(String, Vec<u8>)>,
    pub status: i32,
    /// what the unit contains (from the generated data, not from a parser)
    pub contains: Vec<(String, CovResult)>,
    /// the unit must contribute nothing: a failed gcov run, or an output file the parser rejects
    pub rejected: bool,
    pub kind: String,
}

pub struct StubCase {
    pub mode: &'static str, // "text" | "json"
    pub units: Vec<StubUnit>,
    pub one_dir: bool,
}

fn stub_cov(lines: &[(u32, u64)], fns: &[(String, u32, bool)]) -> CovResult {
    let mut c = CovResult::default();
    for (l, n) in lines {
        c.lines.insert(*l, *n);
    }
    for (n, st, ex) in fns {
        c.functions.insert(n.clone(), Function { start: *st, executed: *ex });
    }
    c
}

fn text_of(file: &str, lines: &[(u32, u64)], fns: &[(String, u32, bool)]) -> String {
    let mut s = format!("file:{}\n", file);
    for (n, st, ex) in fns {
        s.push_str(&format!("function:{},{},{}\n", st, if *ex { 3 } else { 0 }, n));
    }
    for (l, n) in lines {
        s.push_str(&format!("lcount:{},{}\n", l, n));
    }
    s
}

fn json_of(files: &[(String, Vec<(u32, u64)>, Vec<(String, u32, bool)>)]) -> Vec<u8> {
    let fs: Vec<serde_json::Value> = files.iter().map(|(f, lines, fns)| serde_json::json!({
        "file": f,
        "functions": fns.iter().map(|(n, st, ex)| serde_json::json!({"name": n, "demangled_name": n, "start_line": st, "start_column": 1,
            "end_line": st + 2, "end_column": 1, "blocks": 2, "blocks_executed": if *ex { 2 } else { 0 }, "execution_count": if *ex { 3 } else { 0 }})).collect::<Vec<_>>(),
        "lines": lines.iter().map(|(l, n)| serde_json::json!({"line_number": l, "function_name": null, "count": n, "unexecuted_block": *n == 0, "branches": []})).collect::<Vec<_>>(),
    })).collect();
    let j = serde_json::json!({"format_version": "1", "gcc_version": "12.2.0", "current_working_directory": "/", "data_file": "stub.gcda", "files": fs});
    gzip_bytes(serde_json::to_string(&j).unwrap().as_bytes())
}

/// `n_bad` of the `k` units are rejected; `bad_first`: which of the first two units is bad (for the
/// role-swapped pairs of the json mode)
pub fn gen_stub_case(rng: &mut Rng, mode: &'static str, names: &[String], bad: &[usize], one_dir: bool) -> StubCase {
    let mut units = vec![];
    for (i, name) in names.iter().enumerate() {
        let is_bad = bad.contains(&i);
        let own_c = format!("{}.c", name);
        let own_h = format!("{}.h", name);
        let c_lines: Vec<(u32, u64)> = vec![(1, rng.range(1, 9)), (2, rng.range(0, 5)), (5, 0)];
        let c_fns = vec![(format!("{}_main", name), 1u32, true)];
        let h_lines: Vec<(u32, u64)> = vec![(3, rng.range(1, 4)), (4, rng.range(0, 3))];
        let h_fns = vec![(format!("{}_inline", name), 3u32, true)];
        let shared = rng.chance(2, 3);
        let s_lines: Vec<(u32, u64)> = vec![(7, rng.range(1, 6)), (8, rng.range(0, 2))];
        let s_fns = vec![("common_inline".to_string(), 7u32, true)];
        let mut contains = vec![(own_c.clone(), stub_cov(&c_lines, &c_fns)), (own_h.clone(), stub_cov(&h_lines, &h_fns))];
        if shared {
            contains.push(("common.h".to_string(), stub_cov(&s_lines, &s_fns)));
        }
        let mut outputs: Vec<(String, Vec<u8>)> = vec![];
        let mut status = 0;
        let mut kind = "good".to_string();
        if mode == "text" {
            let mut texts = vec![(format!("{}.c.gcov", name), text_of(&own_c, &c_lines, &c_fns)), (format!("{}.h.gcov", name), text_of(&own_h, &h_lines, &h_fns))];
            if shared {
                texts.push((format!("{}#common.h.gcov", name), text_of("common.h", &s_lines, &s_fns)));
            }
            if is_bad {
                // ONE of the unit's output files is unparsable, the others are fine
                let victim = rng.below(texts.len() as u64) as usize;
                let t = &mut texts[victim].1;
                match rng.below(3) {
                    0 => {
                        // cut in the middle of the last record
                        let cut = t.trim_end().rfind(',').unwrap();
                        t.truncate(cut);
                        kind = format!("bad.truncated.{}", victim);
                    }
                    1 => {
                        t.push_str("lcount:x,1\n");
                        kind = format!("bad.line-number.{}", victim);
                    }
                    _ => {
                        *t = t.replacen("function:", "function:q", 1);
                        kind = format!("bad.function-start.{}", victim);
                    }
                }
            }
            outputs = texts.into_iter().map(|(n, t)| (n, t.into_bytes())).collect();
        } else {
            if is_bad {
                // gcov fails after writing its (all-zero) output: the stale-gcda case
                let zero = |v: &[(u32, u64)]| v.iter().map(|(l, _)| (*l, 0u64)).collect::<Vec<_>>();
                let unex = |v: &[(String, u32, bool)]| v.iter().map(|(n, s, _)| (n.clone(), *s, false)).collect::<Vec<_>>();
                let mut files = vec![(own_c.clone(), zero(&c_lines), unex(&c_fns)), (own_h.clone(), zero(&h_lines), unex(&h_fns))];
                if shared {
                    files.push(("common.h".to_string(), zero(&s_lines), unex(&s_fns)));
                }
                if names.len() > 2 && rng.chance(1, 5) {
                    kind = "bad.failed-run.no-output".into();
                    status = 2;
                } else {
                    outputs.push((format!("{}.gcov.json.gz", name), json_of(&files)));
                    kind = "bad.failed-run.output-left".into();
                    status = 5;
                }
            } else {
                let mut files = vec![(own_c.clone(), c_lines.clone(), c_fns.clone()), (own_h.clone(), h_lines.clone(), h_fns.clone())];
                if shared {
                    files.push(("common.h".to_string(), s_lines.clone(), s_fns.clone()));
                }
                outputs.push((format!("{}.gcov.json.gz", name), json_of(&files)));
            }
        }
        units.push(StubUnit { name: name.clone(), outputs, status, contains, rejected: is_bad, kind });
    }
    StubCase { mode, units, one_dir }
}

impl StubCase {
    pub fn to_json(&self) -> serde_json::Value {
        serde_json::json!({"op": "gcovstub", "mode": self.mode, "one_dir": self.one_dir,
            "units": self.units.iter().map(|u| serde_json::json!({"name": u.name, "status": u.status, "rejected": u.rejected, "kind": u.kind,
                "outputs": u.outputs.iter().map(|(n, b)| serde_json::json!([n, hex(b)])).collect::<Vec<_>>(),
                "contains": u.contains.iter().map(|(k, c)| serde_json::json!([k, show_cov(c)])).collect::<Vec<_>>()})).collect::<Vec<_>>()})
    }
    pub fn from_json(v: &serde_json::Value) -> Option<StubCase> {
        let units = v["units"].as_array()?.iter().map(|u| StubUnit {
            name: u["name"].as_str().unwrap_or("").to_string(),
            status: u["status"].as_i64().unwrap_or(0) as i32,
            rejected: u["rejected"].as_bool().unwrap_or(false),
            kind: u["kind"].as_str().unwrap_or("").to_string(),
            outputs: u["outputs"].as_array().map(|a| a.iter().map(|e| (e[0].as_str().unwrap_or("").to_string(), unhex(e[1].as_str().unwrap_or("")))).collect()).unwrap_or_default(),
            contains: u["contains"].as_array().map(|a| a.iter().map(|e| (e[0].as_str().unwrap_or("").to_string(), parse_cov(e[1].as_str().unwrap_or("L;B;F")))).collect()).unwrap_or_default(),
        }).collect();
        Some(StubCase { mode: if v["mode"].as_str()? == "text" { "text" } else { "json" }, units, one_dir: v["one_dir"].as_bool().unwrap_or(false) })
    }
    /// writes inputs, prepared outputs, the stub and its version file below `dir` (canonical);
    /// returns the path arguments (one directory per unit, or the one data directory)
    pub fn materialise(&self, dir: &Path) -> Vec<String> {
        let _ = std::fs::remove_dir_all(dir);
        std::fs::create_dir_all(dir.join("stubout")).unwrap();
        let stub = dir.join("gcov-stub");
        std::fs::write(&stub, W7_GCOV_STUB).unwrap();
        use std::os::unix::fs::PermissionsExt;
        std::fs::set_permissions(&stub, std::fs::Permissions::from_mode(0o755)).unwrap();
        std::fs::write(dir.join("gcov-version.txt"), if self.mode == "text" { "gcov (GCC) 7.5.0\n" } else { "gcov (GCC) 12.2.0\n" }).unwrap();
        let mut args = vec![];
        for u in &self.units {
            let out = dir.join("stubout").join(&u.name);
            std::fs::create_dir_all(&out).unwrap();
            for (n, b) in &u.outputs {
                std::fs::write(out.join(n), b).unwrap();
            }
            let d = if self.one_dir { dir.join("data") } else { dir.join(format!("u_{}", u.name)) };
            std::fs::create_dir_all(&d).unwrap();
            std::fs::write(d.join(format!("{}.gcno", u.name)), format!("W7STUB {} {}\n", out.display(), u.status)).unwrap();
            std::fs::write(d.join(format!("{}.gcda", u.name)), format!("run data of {}\n", u.name)).unwrap();
            if !self.one_dir {
                args.push(format!("u_{}", u.name));
            }
        }
        if self.one_dir {
            args.push("data".into());
        }
        args
    }
    pub fn expected(&self) -> BTreeMap<String, CovResult> {
        let ins: Vec<Input> = self.units.iter().filter(|u| !u.rejected).map(|u| Input { name: u.name.clone(), format: "Gcno", bytes: vec![], id: String::new(), parsed: u.contains.clone() }).collect();
        let refs: Vec<&Input> = ins.iter().collect();
        aggregate(&refs)
    }
}

/// runs one case: reference run on the good units, then --threads 1, 2, 4 with two argument orders
pub fn eval_stub_case(rep: &mut Report, dir: &Path, c: &StubCase, rng: &mut Rng, prop: &str) -> bool {
    let args0 = c.materialise(dir);
    std::env::set_var("GCOV", dir.join("gcov-stub"));
    std::env::set_var("W7_GCOV_VERSION", dir.join("gcov-version.txt"));
    let want = show_map(&c.expected());
    let n_bad = c.units.iter().filter(|u| u.rejected).count();
    let case = c.to_json();
    let mut ok = true;
    let run = |args: Vec<String>, threads: usize, perturb: Option<u64>| run_grcov(&RunCfg { dir, args, threads, perturb, fault: None,
        limit: Duration::from_secs(60), extra: vec!["-t".into(), "lcov".into(), "--no-demangle".into()] });
    if !c.one_dir && n_bad < c.units.len() {
        let good: Vec<String> = c.units.iter().filter(|u| !u.rejected).map(|u| format!("u_{}", u.name)).collect();
        let out = run(good, 1, None);
        let got = decode_lcov_report(&out.stdout).map(|m| show_map(&m)).unwrap_or_default();
        if out.exit != Some(0) || got != want {
            rep.fail("oracle", None, format!("[{} scripted gcov, {}] the run on the units that are not rejected does not report the aggregate of what they contain (exit {:?})", c.mode, prop, out.exit),
                serde_json::json!({"case": case, "report": got, "aggregate": want, "stderr": out.stderr.chars().take(600).collect::<String>()}));
            ok = false;
        }
    }
    for (r, threads) in [1usize, 1, 2, 2, 4, 4].iter().enumerate() {
        if !ok {
            break;
        }
        let mut args = args0.clone();
        if r % 2 == 1 {
            args.reverse();
        } else {
            rng.shuffle(&mut args);
        }
        let out = run(args.clone(), *threads, if r % 2 == 1 { Some(rng.next() % 100000) } else { None });
        rep.count(&format!("gcovstub.{}.threads={}", c.mode, threads));
        let run_case = serde_json::json!({"case": case, "threads": threads, "args": args});
        match out.exit {
            None => {
                rep.fail("oracle", None, format!("[{} scripted gcov] grcov did not terminate within 60 s", c.mode), run_case);
                ok = false;
                continue;
            }
            Some(0) => {}
            Some(code) => {
                rep.fail("oracle", None, format!("[{} scripted gcov] no worker died but grcov exited with status {} ({} of {} units rejected)", c.mode, code, n_bad, c.units.len()),
                    serde_json::json!({"case": run_case, "stderr": out.stderr.chars().take(600).collect::<String>()}));
                ok = false;
                continue;
            }
        }
        let got = decode_lcov_report(&out.stdout).map(|m| show_map(&m)).unwrap_or_else(|e| format!("undecodable: {}", e));
        if got != want {
            let what = if c.mode == "text" {
                "an input ONE of whose several gcov output files is rejected must be skipped as a whole: the report is not the aggregate of the inputs that were not rejected (the rejected input still contributes its other source files, or a good one was lost)"
            } else {
                "an input whose gcov run FAILED after writing output must contribute nothing: the report is not the aggregate of the inputs whose gcov run succeeded (output left behind by the failed run was parsed as the next item's, or a good input was lost)"
            };
            rep.fail("oracle", None, format!("[{} scripted gcov, --threads {}] {}", c.mode, threads, what),
                serde_json::json!({"case": run_case, "report": got, "aggregate": want}));
            ok = false;
            continue;
        }
        let logged = if c.mode == "text" { out.stderr.matches("Error parsing file").count() } else { out.stderr.matches("Error when running gcov").count() };
        let enough = if c.mode == "text" { logged >= n_bad } else { logged == n_bad };
        if !enough {
            rep.fail("oracle", None, format!("[{} scripted gcov] {} units are rejected but {} errors were logged", c.mode, n_bad, logged), run_case);
            ok = false;
        }
    }
    std::env::remove_var("GCOV");
    std::env::remove_var("W7_GCOV_VERSION");
    ok
}

/// the stream: `n_text` sets with the gcov 7.5 emulation, `n_json` sets with the gcov 12.2 one
pub fn gcov_stub_stream(rep: &mut Report, tag: u64, n_text: u64, n_json: u64, prop: &str) {
    let mut rng = Rng::new(rep.seed ^ tag);
    let root = std::fs::canonicalize(&rep.workdir).unwrap().join("gcovstub");
    let pool = ["alpha", "beta", "gamma", "delta", "epsilon", "zeta", "eta", "theta", "iota", "kappa", "one", "two", "lib_x", "mod7"];
    let mut prev_names: Vec<String> = vec![];
    for i in 0..(n_text + n_json) {
        if rep.verdict_clear() {
            break;
        }
        let mode: &'static str = if i < n_text { "text" } else { "json" };
        let j = if i < n_text { i } else { i - n_text };
        // json sets come in role-swapped pairs over the same unit names: in one of the two the
        // failing unit is the one the producer sends first
        let (names, bad): (Vec<String>, Vec<usize>) = if mode == "json" && j % 2 == 1 && prev_names.len() >= 2 {
            (prev_names.clone(), vec![1])
        } else {
            let k = if mode == "json" && (j / 2) % 2 == 0 { 2 } else { rng.range(3, 7) as usize };
            let mut p: Vec<&str> = pool.to_vec();
            rng.shuffle(&mut p);
            let names: Vec<String> = p[..k].iter().map(|s| format!("{}{}", s, rng.below(90))).collect();
            let mut bad = vec![0usize];
            if mode == "text" {
                bad = vec![rng.below(k as u64) as usize];
                if k >= 4 && rng.chance(1, 2) {
                    bad.push((bad[0] + 1 + rng.below(k as u64 - 1) as usize) % k);
                }
            } else if k >= 5 && rng.chance(1, 2) {
                bad.push(3);
            }
            (names, bad)
        };
        prev_names = names.clone();
        let one_dir = rng.chance(1, 4);
        let c = gen_stub_case(&mut rng, mode, &names, &bad, one_dir);
        rep.case(&format!("gcovstub {} {:?} {:?} {}", mode, names, c.units.iter().map(|u| u.kind.clone()).collect::<Vec<_>>(), one_dir), true);
        rep.count(&format!("gcovstub.{}.sets", mode));
        for u in &c.units {
            rep.count(&format!("gcovstub.{}.unit.{}", mode, u.kind.split('.').take(3).collect::<Vec<_>>().join(".")));
        }
        if eval_stub_case(rep, &root, &c, &mut rng, prop) {
            rep.count(&format!("gcovstub.{}.held", mode));
        }
    }
    let _ = std::fs::remove_dir_all(&root);
}

pub fn gcov_stub_replay(rep: &mut Report, case: &serde_json::Value, prop: &str) -> bool {
    let mut c0 = case;
    for _ in 0..3 {
        if c0.get("case").is_some() {
            c0 = &c0["case"];
        }
    }
    if c0["op"].as_str() != Some("gcovstub") {
        return false;
    }
    let Some(c) = StubCase::from_json(c0) else { return true };
    let root = std::fs::canonicalize(&rep.workdir).unwrap().join("gcovstub_replay");
    let mut rng = Rng::new(7);
    for _ in 0..3 {
        rep.case("gcovstub replay", true);
        if !eval_stub_case(rep, &root, &c, &mut rng, prop) {
            break;
        }
    }
    true
}
