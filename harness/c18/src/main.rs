//! C18 — reports stay well-formed whatever the names and source text contain.
//!
//! Four streams, all from one `Rng::new(seed ^ TAG)`:
//!  * `esc`    the real escape routines (quick-xml `escape` / `push_attribute` / `BytesText::new` /
//!             `partial_escape`, serde_json's string writer, Tera's auto-escape reached through
//!             `grcov::html::gen_dir_index`) on generated strings, byte for byte against the Lean
//!             driver `gm_c18`, plus an independent oracle (own strict decoders);
//!  * `dec`    the reader side of the model (`unescapeEnt`, `jsonUnescape`) against quick-xml's
//!             `unescape` and serde_json's parser on escaped and deliberately broken inputs;
//!  * `report` whole reports: hostile paths / function names / source lines through the real
//!             `output_cobertura`, `output_coveralls`, `output_covdir`, `output_activedata_etl`,
//!             `output_html`, read back by tools/c18_decode.py (expat, json, html.parser) and
//!             compared with (a) the original names and (b) the shape of a benign twin report;
//!             every sink of every html page against the model's fragment (sinks.rs);
//!  * `xmlread` the strict XML readers of the model against expat (sinks.rs).
use corrlib::*;
use grcov::html::HtmlResources;
use grcov::{CovResult, Function, HtmlDirStats, HtmlFileStats, HtmlStats, ResultTuple};
use quick_xml::events::{BytesStart, BytesText, Event};
use serde_json::{json, Value};
use std::collections::{BTreeMap, BTreeSet};
use std::panic::AssertUnwindSafe;
use std::path::{Path, PathBuf};

mod sinks;
mod uninames;
mod links;
#[path = "../../c03/src/htmlbytes.rs"] mod htmlbytes;

const TAG: u64 = 0xC18;

// ---------------------------------------------------------------------------------------------
// generators

const META: &[&str] = &[
    "<", ">", "&", "'", "\"", "/", "\\", ";", "#", "=", " ", "]", "[", "!", "-", "?", ":", "%",
    "{", "}", ",", "`", "|", "$", "(", ")", "*", "+", "@", "^", "~", ".",
];
const FRAGS: &[&str] = &[
    "]]>", "&amp;", "&lt;", "&gt;", "&#x27;", "&#60;", "&quot;", "&apos;", "&#x2F;",
    "<script>alert(1)</script>", "</pre>", "</a>", "\"/>", "-->", "<!--", "<![CDATA[", "\\u0022",
    "\\\"", "\\\\", "\\n", "javascript:", "{{ x }}", "{% raw %}", "{#", "<b id=pwn>", "\"><",
    "' onmouseover='", "\" onclick=\"", "\",\"x\":\"", "\"}]}", "&", "&#", "&;", "%22", "%3C",
    "<?xml", "<!DOCTYPE x [", "</coverage>", "<package name=\"p\">", "&#x0;", "&nbsp;", "\\",
    "</title>", "<li class=\"is-active\">",
];
const NONASCII: &[&str] = &[
    "é", "ü", "ß", "Ω", "Ж", "名", "前", "中", "😀", "🦀", "\u{a0}", "¿", "€", "\u{fffd}", "e\u{301}",
    "ا", "\u{ff1c}", "\u{2039}", "\u{201c}", "\u{ff02}", "\u{10fffd}", "\u{7ff}", "\u{800}",
    "\u{fffc}", "\u{10000}", "ǅ", "İ",
];
/// characters that are outside the property's quantifier (controls, line terminators) – used only
/// in the escape-routine tie, never in report names
const CONTROLS: &[&str] = &[
    "\u{0}", "\u{1}", "\u{8}", "\t", "\n", "\u{b}", "\u{c}", "\r", "\u{1b}", "\u{1f}", "\u{7f}",
    "\u{85}", "\u{2028}", "\u{2029}", "\u{ffff}", "\u{10ffff}", "\u{fffe}",
];

fn pick_str(rng: &mut Rng, xs: &[&'static str]) -> &'static str {
    xs[rng.below(xs.len() as u64) as usize]
}

fn alnum(rng: &mut Rng) -> String {
    const A: &[u8] = b"abcdefghijklmnopqrstuvwxyzABCDEFGHIJKLMNOPQRSTUVWXYZ0123456789_";
    let n = rng.range(1, 6);
    (0..n).map(|_| *rng.pick(A) as char).collect()
}

/// a string of printable Unicode characters; `pieces` elements drawn from metacharacters, hostile
/// fragments, plain runs and non-ASCII characters
fn gen_pieces(rng: &mut Rng, pieces: u64) -> String {
    let mut s = String::new();
    for _ in 0..pieces {
        match rng.below(100) {
            0..=34 => s.push_str(pick_str(rng, META)),
            35..=59 => s.push_str(pick_str(rng, FRAGS)),
            60..=79 => s.push_str(&alnum(rng)),
            80..=91 => s.push_str(pick_str(rng, NONASCII)),
            // combining marks, ZWJ sequences, variation selectors, format characters, private use
            _ => s.push_str(pick_str(rng, uninames::UNIHARD)),
        }
    }
    s
}

fn gen_name(rng: &mut Rng) -> String {
    match rng.below(200) {
        0 => {
            // very long
            let unit = gen_pieces(rng, 40);
            let unit = if unit.is_empty() { "<&\">".to_string() } else { unit };
            let target = rng.range(20_000, 90_000) as usize;
            let mut s = String::new();
            while s.len() < target {
                s.push_str(&unit);
            }
            s
        }
        1..=12 => {
            let n = rng.range(60, 300);
            gen_pieces(rng, n)
        }
        13..=16 => String::new(),
        17..=40 => rng.pick(FRAGS).to_string(),
        41..=60 => rng.pick(META).to_string(),
        _ => {
            let n = rng.range(1, 12);
            gen_pieces(rng, n)
        }
    }
}

fn gen_name_with_controls(rng: &mut Rng) -> String {
    let mut s = String::new();
    let k = rng.range(1, 4);
    for _ in 0..k {
        let n = rng.range(0, 3);
        s.push_str(&gen_pieces(rng, n));
        s.push_str(pick_str(rng, CONTROLS));
    }
    let n = rng.range(0, 2);
    s.push_str(&gen_pieces(rng, n));
    s
}

fn truncate_chars(s: &str, max_bytes: usize) -> String {
    let mut out = String::new();
    for c in s.chars() {
        if out.len() + c.len_utf8() > max_bytes {
            break;
        }
        out.push(c);
    }
    out
}

/// one path component: printable, no `/`, not `.`/`..`, not ending in `.`, at most 100 bytes
fn gen_component(rng: &mut Rng) -> String {
    let n = rng.range(1, 8);
    let raw = if rng.chance(1, 6) { alnum(rng) } else { gen_pieces(rng, n) };
    let mut s: String = raw.chars().filter(|&c| c != '/' && c != '\0').collect();
    s = truncate_chars(&s, 100);
    if s.is_empty() || s == "." || s == ".." || s.ends_with('.') {
        s.push('x');
    }
    s
}

fn is_meta_str(s: &str) -> bool {
    s.bytes().any(|b| matches!(b, b'<' | b'>' | b'&' | b'\'' | b'"' | b'/' | b'\\') || b < 0x20)
}

// ---------------------------------------------------------------------------------------------
// independent reference decoders / predicates (the property oracle; nothing here calls grcov,
// quick-xml, serde_json's writer or Tera)

fn ref_unescape_entities(s: &str) -> Option<String> {
    let mut out = String::new();
    let mut it = s.char_indices();
    while let Some((i, c)) = it.next() {
        if c != '&' {
            out.push(c);
            continue;
        }
        let rest = &s[i + 1..];
        let end = rest.find(';')?;
        let name = &rest[..end];
        let ch = match name {
            "lt" => '<',
            "gt" => '>',
            "amp" => '&',
            "apos" => '\'',
            "quot" => '"',
            _ => {
                let num = name.strip_prefix('#')?;
                let (digits, radix) = match num.strip_prefix('x') {
                    Some(h) => (h, 16),
                    None => (num, 10),
                };
                if digits.is_empty() || !digits.chars().all(|d| d.is_digit(radix)) {
                    return None;
                }
                let cp = u32::from_str_radix(digits, radix).ok()?;
                if cp == 0 {
                    return None;
                }
                char::from_u32(cp)?
            }
        };
        out.push(ch);
        for _ in 0..end + 1 {
            it.next();
        }
    }
    Some(out)
}

/// decode the body of a JSON string literal (RFC 8259), rejecting raw quotes and control bytes
fn ref_json_unquote(body: &str) -> Option<String> {
    let mut out = String::new();
    let cs: Vec<char> = body.chars().collect();
    let mut i = 0;
    while i < cs.len() {
        let c = cs[i];
        if c == '"' || (c as u32) < 0x20 {
            return None;
        }
        if c != '\\' {
            out.push(c);
            i += 1;
            continue;
        }
        let e = *cs.get(i + 1)?;
        i += 2;
        match e {
            '"' => out.push('"'),
            '\\' => out.push('\\'),
            '/' => out.push('/'),
            'b' => out.push('\u{8}'),
            'f' => out.push('\u{c}'),
            'n' => out.push('\n'),
            'r' => out.push('\r'),
            't' => out.push('\t'),
            'u' => {
                if i + 4 > cs.len() {
                    return None;
                }
                let h: String = cs[i..i + 4].iter().collect();
                if !h.chars().all(|d| d.is_ascii_hexdigit()) {
                    return None;
                }
                let cp = u32::from_str_radix(&h, 16).ok()?;
                out.push(char::from_u32(cp)?);
                i += 4;
            }
            _ => return None,
        }
    }
    Some(out)
}

/// every `&` is the first byte of one of `ents`
fn amp_ok(out: &str, ents: &[&str]) -> bool {
    out.match_indices('&')
        .all(|(i, _)| ents.iter().any(|e| out[i..].starts_with(e)))
}

const XML_ENTS: &[&str] = &["&lt;", "&gt;", "&amp;", "&apos;", "&quot;"];
const HTML_ENTS: &[&str] = &["&amp;", "&lt;", "&gt;", "&quot;", "&#x27;", "&#x2F;"];

/// reference HTML escaper, used only to *repair* a page when classifying the known finding
fn ref_html_escape(s: &str) -> String {
    let mut o = String::new();
    for c in s.chars() {
        match c {
            '&' => o.push_str("&amp;"),
            '<' => o.push_str("&lt;"),
            '>' => o.push_str("&gt;"),
            '"' => o.push_str("&quot;"),
            '\'' => o.push_str("&#x27;"),
            '/' => o.push_str("&#x2F;"),
            _ => o.push(c),
        }
    }
    o
}

/// RFC 3986 §3.1 after leading spaces: the reference would be resolved as an absolute URL
fn has_scheme(url: &str) -> bool {
    let t = url.trim_start_matches(' ');
    let mut cs = t.chars();
    match cs.next() {
        Some(c) if c.is_ascii_alphabetic() => {}
        _ => return false,
    }
    for c in cs {
        if c == ':' {
            return true;
        }
        if !(c.is_ascii_alphanumeric() || c == '+' || c == '-' || c == '.') {
            return false;
        }
    }
    false
}

/// the property on one escaped string; `None` = holds
fn oracle_escaped(routine: &str, s: &str, out: &str) -> Option<String> {
    match routine {
        "xmlattr" | "xmltext" => {
            if out.contains(['<', '>', '"', '\'']) {
                return Some(format!("{}: raw metacharacter in the escaped value", routine));
            }
            if !amp_ok(out, XML_ENTS) {
                return Some(format!("{}: an '&' does not start an emitted entity", routine));
            }
            if ref_unescape_entities(out).as_deref() != Some(s) {
                return Some(format!("{}: decoding the escaped value does not give the name back", routine));
            }
        }
        "xmlpartial" => {
            if out.contains(['<', '>']) || !amp_ok(out, XML_ENTS) {
                return Some("xmlpartial: raw metacharacter".into());
            }
            if ref_unescape_entities(out).as_deref() != Some(s) {
                return Some("xmlpartial: round trip fails".into());
            }
        }
        "json" => {
            if out.bytes().any(|b| b < 0x20) {
                return Some("json: raw control byte in the string literal".into());
            }
            if ref_json_unquote(out).as_deref() != Some(s) {
                return Some("json: decoding the literal does not give the name back".into());
            }
        }
        "filerow" => {
            if out.contains(['<', '>', '"', '\'']) || !amp_ok(out, HTML_ENTS) {
                return Some("filerow: raw metacharacter in the href of an index row".into());
            }
            let want = format!("./{}.html", s);
            if ref_unescape_entities(out).as_deref() != Some(want.as_str()) {
                return Some("filerow: the href does not decode to ./<name>.html".into());
            }
            if has_scheme(&want) {
                return Some("filerow: the row link is an absolute URL".into());
            }
        }
        "html" => {
            if out.contains(['<', '>', '"', '\'']) {
                return Some("html: raw metacharacter in escaped text".into());
            }
            if !amp_ok(out, HTML_ENTS) {
                return Some("html: an '&' does not start an emitted reference".into());
            }
            if ref_unescape_entities(out).as_deref() != Some(s) {
                return Some("html: decoding the escaped text does not give the text back".into());
            }
        }
        _ => {}
    }
    None
}

// ---------------------------------------------------------------------------------------------
// the real routines

fn xhex(b: &[u8]) -> String {
    format!("x{}", hex(b))
}

fn impl_push_attribute(s: &str) -> Result<String, String> {
    let mut w = quick_xml::Writer::new(std::io::Cursor::new(Vec::new()));
    let mut e = BytesStart::new("e");
    e.push_attribute(("a", s));
    w.write_event(Event::Empty(e)).map_err(|e| e.to_string())?;
    let v = w.into_inner().into_inner();
    let pre = b"<e a=\"";
    let suf = b"\"/>";
    if v.len() < pre.len() + suf.len() || !v.starts_with(pre) || !v.ends_with(suf) {
        return Err("unexpected frame around the attribute".into());
    }
    Ok(xhex(&v[pre.len()..v.len() - suf.len()]))
}

fn impl_bytes_text(s: &str) -> Result<String, String> {
    let mut w = quick_xml::Writer::new(std::io::Cursor::new(Vec::new()));
    w.write_event(Event::Text(BytesText::new(s)))
        .map_err(|e| e.to_string())?;
    Ok(xhex(&w.into_inner().into_inner()))
}

fn strip_quotes(lit: &str) -> Result<&str, String> {
    if lit.len() >= 2 && lit.starts_with('"') && lit.ends_with('"') {
        Ok(&lit[1..lit.len() - 1])
    } else {
        Err("serde_json did not write a quoted literal".into())
    }
}

fn impl_json(s: &str) -> Result<String, String> {
    let a = serde_json::to_string(s).map_err(|e| e.to_string())?;
    let a = strip_quotes(&a)?.to_string();
    // the way output.rs does it: a PathBuf / String inside json!({...}) written with to_writer
    let v = json!({ "name": PathBuf::from(s) });
    let mut buf = Vec::new();
    serde_json::to_writer(&mut buf, &v).map_err(|e| e.to_string())?;
    let b = String::from_utf8(buf).map_err(|e| e.to_string())?;
    let b = b
        .strip_prefix("{\"name\":")
        .and_then(|x| x.strip_suffix('}'))
        .ok_or("unexpected object frame")?;
    let b = strip_quotes(b)?;
    if a != b {
        return Err("to_string and json!/to_writer disagree".into());
    }
    Ok(xhex(a.as_bytes()))
}

/// Tera's auto-escape, reached through the real index template: one directory page whose file
/// names are `names`; returns name -> (escaped href without the `.html` suffix, escaped text)
fn impl_tera_rows(names: &BTreeSet<String>, outdir: &Path) -> Result<Vec<(String, String, String)>, String> {
    let (tera, conf) = grcov::html::get_config(None, false, 2, true, HtmlResources::Cdn);
    let mut files = BTreeMap::new();
    for n in names {
        files.insert(
            n.clone(),
            HtmlFileStats {
                stats: HtmlStats::default(),
                abs_prefix: None,
            },
        );
    }
    let ds = HtmlDirStats {
        files,
        stats: HtmlStats::default(),
        abs_prefix: None,
    };
    let _ = std::fs::remove_dir_all(outdir);
    guarded(AssertUnwindSafe(|| grcov::html::gen_dir_index(&tera, "d", &ds, &conf, outdir)))
        .map_err(|p| format!("panic {}", p))?;
    let page = std::fs::read(outdir.join("d/index.html")).map_err(|e| e.to_string())?;
    let page = String::from_utf8(page).map_err(|e| e.to_string())?;
    let open = "<th><a href=\"";
    let close = "</a></th>";
    let mut rows = vec![];
    let mut rest = page.as_str();
    while let Some(i) = rest.find(open) {
        let after = &rest[i + open.len()..];
        let j = after.find(close).ok_or("row not closed")?;
        let row = &after[..j];
        let k = row.find("\">").ok_or("href not closed")?;
        rows.push((row[..k].to_string(), row[k + 2..].to_string()));
        rest = &after[j + close.len()..];
    }
    if rows.len() != names.len() {
        return Err(format!("{} rows for {} names", rows.len(), names.len()));
    }
    Ok(names
        .iter()
        .zip(rows)
        .map(|(n, (h, t))| (n.clone(), h, t))
        .collect())
}

// ---------------------------------------------------------------------------------------------
// stream 1: escape routines

struct EscCase {
    name: String,
    /// routine -> observations of the implementation (each must equal the model's answer)
    obs: Vec<(&'static str, Vec<Result<String, String>>)>,
}

fn esc_observe(name: &str) -> Vec<(&'static str, Vec<Result<String, String>>)> {
    let g = |f: &dyn Fn() -> Result<String, String>| -> Result<String, String> {
        match guarded(AssertUnwindSafe(f)) {
            Ok(r) => r,
            Err(p) => Err(format!("panic {}", p)),
        }
    };
    vec![
        (
            "xmlattr",
            vec![
                g(&|| Ok(xhex(quick_xml::escape::escape(name).as_bytes()))),
                g(&|| impl_push_attribute(name)),
            ],
        ),
        ("xmltext", vec![g(&|| impl_bytes_text(name))]),
        (
            "xmlpartial",
            vec![g(&|| Ok(xhex(quick_xml::escape::partial_escape(name).as_bytes())))],
        ),
        ("json", vec![g(&|| impl_json(name))]),
        // not a routine of the implementation: keeps the Lean predicate `hasScheme` and the
        // oracle's `has_scheme` (used on the decoded hrefs of whole reports) the same function
        (
            "scheme",
            vec![Ok(if has_scheme(name) { "x31".to_string() } else { "x30".to_string() })],
        ),
        // filled from the Tera page: the row link `"./"~name~".html"` as written, and the name
        ("filerow", vec![]),
        ("html", vec![]),
    ]
}

fn esc_request(routine: &str, name: &str) -> String {
    if routine == "filerow" {
        format!("filerow - x{}", hex(name.as_bytes()))
    } else {
        format!("{} x{}", routine, hex(name.as_bytes()))
    }
}

fn unx(ans: &str) -> Option<String> {
    ans.strip_prefix('x')
        .and_then(|h| String::from_utf8(unhex(h)).ok())
}

/// compare one case with the model's answers; returns the failures
fn esc_judge(rep: &mut Report, c: &EscCase, model: &[String]) {
    for (k, (routine, obs)) in c.obs.iter().enumerate() {
        let m = &model[k];
        for o in obs {
            let case = json!({"op": "esc", "routine": routine, "name": hex(c.name.as_bytes()),
                              "impl": o.clone().unwrap_or_else(|e| format!("error {}", e)), "model": m});
            let orc = match o {
                Ok(ans) => match unx(ans) {
                    Some(out) => oracle_escaped(routine, &c.name, &out),
                    None => Some("implementation output is not UTF-8".into()),
                },
                Err(e) => Some(format!("{}: {}", routine, e)),
            };
            if let Some(w) = orc {
                let case = shrink_esc_oracle(routine, &c.name).unwrap_or(case);
                rep.fail("oracle", None, w, case);
            } else if o.as_ref().ok() != Some(m) {
                rep.disagreements_checked += 1;
                rep.fail(
                    "disagreement",
                    None,
                    format!("{}: real routine and Escape model differ (the C18 escape theorems no longer transfer)", routine),
                    case,
                );
            }
        }
    }
}

/// the real routine `routine` on `s` (html goes through the template, one name per page)
fn impl_one(routine: &str, s: &str, workdir: &Path) -> Result<String, String> {
    match routine {
        "xmlattr" => impl_push_attribute(s),
        "xmltext" => impl_bytes_text(s),
        "xmlpartial" => Ok(xhex(quick_xml::escape::partial_escape(s).as_bytes())),
        "json" => impl_json(s),
        "html" | "filerow" => {
            let mut set = BTreeSet::new();
            set.insert(s.to_string());
            let rows = impl_tera_rows(&set, &workdir.join("tera1"))?;
            Ok(xhex(if routine == "html" { rows[0].2.as_bytes() } else { rows[0].1.as_bytes() }))
        }
        _ => Err("unknown routine".into()),
    }
}

/// shortest substring (by greedy character deletion) on which the oracle still fails
fn shrink_esc_oracle(routine: &str, name: &str) -> Option<Value> {
    if routine == "html" || routine == "filerow" || routine == "scheme" || name.len() > 4000 {
        return None;
    }
    let wd = PathBuf::from("/verif/work/C18");
    let fails = |s: &str| -> bool {
        match guarded(AssertUnwindSafe(|| impl_one(routine, s, &wd))) {
            Ok(Ok(ans)) => match unx(&ans) {
                Some(out) => oracle_escaped(routine, s, &out).is_some(),
                None => true,
            },
            _ => true,
        }
    };
    let mut cur: Vec<char> = name.chars().collect();
    if !fails(&cur.iter().collect::<String>()) {
        return None;
    }
    let mut i = 0;
    while i < cur.len() {
        let mut t = cur.clone();
        t.remove(i);
        if fails(&t.iter().collect::<String>()) {
            cur = t;
        } else {
            i += 1;
        }
    }
    let s: String = cur.iter().collect();
    Some(json!({"op": "esc", "routine": routine, "name": hex(s.as_bytes()), "shrunk_from_len": name.len()}))
}

fn esc_stream(rep: &mut Report, rng: &mut Rng) {
    let n = rep.budget(4000, 8);
    let mut names: Vec<String> = vec![
        // fixed seeds: the DESIGN witness, every metacharacter, the fragments of the task text
        "x\"><b id=pwn>".into(),
        "<>&'\"/\\".into(),
        "]]>".into(),
        "&amp;".into(),
        "".into(),
    ];
    while (names.len() as u64) < n {
        if rng.chance(1, 8) {
            names.push(gen_name_with_controls(rng));
        } else {
            names.push(gen_name(rng));
        }
    }
    let mut cases: Vec<EscCase> = names
        .iter()
        .map(|s| EscCase {
            name: s.clone(),
            obs: esc_observe(s),
        })
        .collect();
    // Tera: batches of distinct names through the real template
    let mut tera_out: BTreeMap<String, Result<(String, String), String>> = BTreeMap::new();
    let distinct: Vec<String> = names.iter().cloned().collect::<BTreeSet<_>>().into_iter().collect();
    for (bi, chunk) in distinct.chunks(64).enumerate() {
        let set: BTreeSet<String> = chunk.iter().cloned().collect();
        match impl_tera_rows(&set, &rep.workdir.join("tera")) {
            Ok(rows) => {
                for (n, h, t) in rows {
                    tera_out.insert(n, Ok((h, t)));
                }
            }
            Err(e) => {
                for n in chunk {
                    tera_out.insert(n.clone(), Err(format!("batch {}: {}", bi, e)));
                }
            }
        }
        rep.count("esc.tera_pages");
    }
    for c in cases.iter_mut() {
        let r = tera_out.get(&c.name).cloned().unwrap_or(Err("missing".into()));
        let obs = match r {
            Ok((href, text)) => (vec![Ok(xhex(href.as_bytes()))], vec![Ok(xhex(text.as_bytes()))]),
            Err(e) => (vec![Err(e.clone())], vec![Err(e)]),
        };
        for (routine, o) in c.obs.iter_mut() {
            if *routine == "filerow" {
                *o = obs.0.clone();
            } else if *routine == "html" {
                *o = obs.1.clone();
            }
        }
    }
    // the model
    let mut reqs = vec![];
    for c in &cases {
        for (routine, _) in &c.obs {
            reqs.push(esc_request(routine, &c.name));
        }
    }
    let answers = run_model_named("gm_c18", &reqs, &rep.workdir, "esc");
    let per = cases[0].obs.len();
    for (i, c) in cases.iter().enumerate() {
        let canonical = hex(c.name.as_bytes());
        rep.case(&canonical, is_meta_str(&c.name));
        rep.count(match c.name.len() {
            0 => "esc.len.0",
            1..=8 => "esc.len.1-8",
            9..=64 => "esc.len.9-64",
            65..=4096 => "esc.len.65-4096",
            _ => "esc.len.>4096",
        });
        if c.name.bytes().any(|b| b < 0x20 || b == 0x7f) {
            rep.count("esc.with_control_chars");
        }
        if !c.name.is_ascii() {
            rep.count("esc.non_ascii");
        }
        for (b, key) in [(b'<', "esc.has.lt"), (b'&', "esc.has.amp"), (b'"', "esc.has.dquote"),
                         (b'\'', "esc.has.squote"), (b'/', "esc.has.slash"), (b'\\', "esc.has.backslash")] {
            if c.name.as_bytes().contains(&b) {
                rep.count(key);
            }
        }
        if c.name.contains("]]>") {
            rep.count("esc.has.cdata_end");
        }
        let m = &answers[i * per..(i + 1) * per];
        if i == 0 {
            rep.sample(json!({"request": reqs[i * per], "impl": c.obs[0].1[0].clone().unwrap_or_default(), "model": m[0]}));
            rep.sample(json!({"request": reqs[i * per + 6], "impl": c.obs[6].1[0].clone().unwrap_or_default(), "model": m[6]}));
        }
        esc_judge(rep, c, m);
    }
}

// ---------------------------------------------------------------------------------------------
// stream 2: the reader side of the model against real parsers

fn mutate(rng: &mut Rng, s: &str) -> String {
    const INS: &[&str] = &[
        "&", ";", "&#", "&#x", "&#x41;", "&#65;", "&#0;", "&#x110000;", "&#xD800;", "&#xd7ff;",
        "&foo;", "&lt", "&amp;amp;", "&#+65;", "&#x+41;", "&#-1;", "&#99999999999;", "&#X41;",
        "&;", "&#;", "&#x;", "\\", "\\u", "\\u00", "\\u0041", "\\u00e9", "\\u20AC", "\\x41",
        "\\/", "\\b", "\\'", "\"", "\u{1}", "\t", "\\u12g4", "&#x1F600;", "&#128512;", "&apos;",
        "&quot;", "&gt;", "&AMP;", "& ", "&#x 41;", "&#x41", "&&", ";;",
    ];
    let cs: Vec<char> = s.chars().collect();
    let mut out = String::new();
    let k = rng.range(1, 3);
    let mut cuts: Vec<usize> = (0..k).map(|_| rng.below(cs.len() as u64 + 1) as usize).collect();
    cuts.sort();
    let mut prev = 0;
    for c in cuts {
        out.extend(&cs[prev..c]);
        out.push_str(pick_str(rng, INS));
        prev = c;
    }
    out.extend(&cs[prev..]);
    if rng.chance(1, 5) && !out.is_empty() {
        // truncate
        let n = rng.below(out.chars().count() as u64) as usize;
        out = out.chars().take(n).collect();
    }
    out
}

fn has_surrogate_escape(s: &str) -> bool {
    let b = s.as_bytes();
    (0..b.len().saturating_sub(3)).any(|i| {
        b[i] == b'\\' && b[i + 1] == b'u' && (b[i + 2] == b'd' || b[i + 2] == b'D')
            && matches!(b[i + 3], b'8' | b'9' | b'a'..=b'f' | b'A'..=b'F')
    })
}

fn dec_impl(kind: &str, input: &str) -> String {
    let r = guarded(AssertUnwindSafe(|| match kind {
        "unxml" => quick_xml::escape::unescape(input).ok().map(|c| c.into_owned()),
        _ => serde_json::from_str::<String>(&format!("\"{}\"", input)).ok(),
    }));
    match r {
        Ok(Some(s)) => format!("ok {}", xhex(s.as_bytes())),
        Ok(None) => "err".into(),
        Err(p) => format!("panic {}", p),
    }
}

fn dec_stream(rep: &mut Report, rng: &mut Rng) {
    let n = rep.budget(3000, 8);
    let mut reqs = vec![];
    let mut impls = vec![];
    let mut i = 0;
    while i < n {
        let base = truncate_chars(&if rng.chance(1, 10) { gen_name_with_controls(rng) } else { gen_name(rng) }, 1500);
        let (kind, enc) = if rng.chance(1, 2) {
            let e = match rng.below(3) {
                0 => quick_xml::escape::escape(base.as_str()).into_owned(),
                1 => quick_xml::escape::partial_escape(base.as_str()).into_owned(),
                _ => ref_html_escape(&base),
            };
            ("unxml", e)
        } else {
            let lit = serde_json::to_string(&base).unwrap();
            ("unjson", lit[1..lit.len() - 1].to_string())
        };
        let broken = rng.chance(1, 2);
        let input = if broken { mutate(rng, &enc) } else { enc };
        if kind == "unjson" && has_surrogate_escape(&input) {
            rep.count("dec.skipped_surrogate_escape");
            continue;
        }
        i += 1;
        let req = format!("{} x{}", kind, hex(input.as_bytes()));
        let out = dec_impl(kind, &input);
        rep.case(&req, broken);
        rep.count(&format!("dec.{}.{}", kind, if out.starts_with("ok") { "ok" } else { "err" }));
        if i == 1 {
            rep.sample(json!({"request": req, "impl": out}));
        }
        reqs.push(req);
        impls.push(out);
    }
    let answers = run_model_named("gm_c18", &reqs, &rep.workdir, "dec");
    for k in 0..reqs.len() {
        if answers[k] != impls[k] {
            rep.disagreements_checked += 1;
            rep.fail(
                "disagreement",
                None,
                "reader model (unescapeEnt / jsonUnescape) differs from the real parser: the scan theorems are about a reader that is not the real one".into(),
                json!({"op": "dec", "request": reqs[k], "impl": impls[k], "model": answers[k]}),
            );
        }
    }
}

// ---------------------------------------------------------------------------------------------
// stream 3: whole reports

#[derive(Clone, Debug)]
struct FileCase {
    comps: Vec<String>,
    lines: Vec<String>,
    cov: CovResult,
}

#[derive(Clone, Debug)]
struct RepCase {
    root: String,
    files: Vec<FileCase>,
    demangle: bool,
    pretty: bool,
    branch: bool,
    prefix: Option<String>,
    /// hostile strings for the coveralls service fields
    service: Vec<String>,
}

/// mangled names with the demangling an independent tool gives (`c++filt -p`)
const MANGLED: &[(&str, &str)] = &[
    ("_ZN3FooIiE3barEv", "Foo<int>::bar"),
    ("_ZlsRSoRK1A", "operator<<"),
    ("_ZN1AanERKS_", "A::operator&"),
    ("_ZNK3FooIcEltERKS0_", "Foo<char>::operator<"),
];

fn expected_fn_name(c: &RepCase, raw: &str) -> String {
    if c.demangle {
        if let Some((_, d)) = MANGLED.iter().find(|(m, _)| *m == raw) {
            return d.to_string();
        }
    }
    raw.to_string()
}

fn rel_of(f: &FileCase) -> String {
    f.comps.join("/")
}
fn parent_of(f: &FileCase) -> String {
    f.comps[..f.comps.len() - 1].join("/")
}

fn case_json(c: &RepCase) -> Value {
    json!({
        "op": "report",
        "root": c.root,
        "demangle": c.demangle, "pretty": c.pretty, "branch": c.branch, "prefix": c.prefix,
        "service": c.service,
        "files": c.files.iter().map(|f| json!({
            "path": f.comps, "lines": f.lines, "cov": show_cov(&f.cov)})).collect::<Vec<_>>(),
    })
}

fn case_from_json(v: &Value) -> Option<RepCase> {
    let strs = |x: &Value| -> Option<Vec<String>> {
        x.as_array()?.iter().map(|s| s.as_str().map(|s| s.to_string())).collect()
    };
    Some(RepCase {
        root: v["root"].as_str()?.to_string(),
        demangle: v["demangle"].as_bool()?,
        pretty: v["pretty"].as_bool()?,
        branch: v["branch"].as_bool()?,
        prefix: v["prefix"].as_str().map(|s| s.to_string()),
        service: strs(&v["service"])?,
        files: v["files"]
            .as_array()?
            .iter()
            .map(|f| {
                Some(FileCase {
                    comps: strs(&f["path"])?,
                    lines: strs(&f["lines"])?,
                    cov: parse_cov(f["cov"].as_str()?),
                })
            })
            .collect::<Option<Vec<_>>>()?,
    })
}

fn gen_cov(rng: &mut Rng, demangle: bool, nlines: usize) -> CovResult {
    let mut c = CovResult::default();
    let top = nlines as u64 + rng.range(0, 2);
    for l in 1..=top.max(1) {
        if rng.chance(3, 4) {
            c.lines.insert(l as u32, *rng.pick(&[0u64, 0, 1, 2, 7, 1000]));
        }
    }
    let keys: Vec<u32> = c.lines.keys().cloned().collect();
    for l in &keys {
        if rng.chance(1, 4) {
            let k = rng.range(1, 3);
            c.branches.insert(*l, (0..k).map(|_| rng.chance(1, 2)).collect());
        }
    }
    let nf = rng.range(0, 3);
    for _ in 0..nf {
        let name = if demangle {
            if rng.chance(1, 2) {
                rng.pick(MANGLED).0.to_string()
            } else {
                // a leading letter keeps the demangler's language detection away
                format!("h{}", truncate_chars(&gen_name(rng), 300))
            }
        } else if rng.chance(1, 5) {
            rng.pick(MANGLED).0.to_string()
        } else {
            truncate_chars(&gen_name(rng), 300)
        };
        c.functions.insert(
            name,
            Function {
                start: rng.range(1, top.max(1)) as u32,
                executed: rng.chance(1, 2),
            },
        );
    }
    c
}

fn gen_report_case(rng: &mut Rng, prefix: Option<String>) -> RepCase {
    let demangle = rng.chance(1, 3);
    let ndirs = rng.range(1, 3);
    let mut dirs: Vec<Vec<String>> = vec![];
    for _ in 0..ndirs {
        let depth = rng.range(1, 2);
        dirs.push((0..depth).map(|_| gen_component(rng)).collect());
    }
    let nfiles = rng.range(1, 4);
    let mut files: Vec<FileCase> = vec![];
    let mut used: BTreeSet<String> = BTreeSet::new();
    let dir_names: BTreeSet<String> = dirs.iter().flatten().cloned().collect();
    for _ in 0..nfiles {
        let d = rng.pick(&dirs).clone();
        let mut name = gen_component(rng);
        if rng.chance(1, 2) {
            name.push_str(pick_str(rng, &[".c", ".cpp", ".rs", ".h"]));
        }
        // a file must not be called like a directory of this case (same node in every tree)
        while dir_names.contains(&name) {
            name.push('f');
        }
        let mut comps = d;
        comps.push(name);
        let rel = comps.join("/");
        // distinct also after the `.html` page-name mapping
        let page = page_name(Path::new(&rel)).to_string_lossy().to_string();
        if !used.insert(rel) || !used.insert(format!("page:{}", page)) {
            continue;
        }
        let nl = rng.range(0, 5) as usize;
        let lines: Vec<String> = (0..nl)
            .map(|_| {
                if rng.chance(1, 8) {
                    String::new()
                } else {
                    truncate_chars(&gen_name(rng), 400)
                }
            })
            .collect();
        let cov = gen_cov(rng, demangle, nl);
        files.push(FileCase { comps, lines, cov });
    }
    RepCase {
        root: gen_component(rng),
        files,
        demangle,
        pretty: rng.chance(1, 2),
        branch: rng.chance(1, 2),
        prefix,
        service: (0..4).map(|_| truncate_chars(&gen_name(rng), 200)).collect(),
    }
}

/// the benign twin: same tree, same numbers, every name replaced by a harmless token
fn benign_twin(c: &RepCase) -> RepCase {
    let mut comp_map: BTreeMap<String, String> = BTreeMap::new();
    let mut tok = |s: &String| -> String {
        let n = comp_map.len();
        comp_map.entry(s.clone()).or_insert_with(|| format!("n{}", n)).clone()
    };
    let mut b = c.clone();
    b.root = "root".into();
    for f in b.files.iter_mut() {
        f.comps = f.comps.iter().map(&mut tok).collect();
        f.lines = (0..f.lines.len()).map(|i| format!("line{}", i)).collect();
        let mut fs: Vec<(String, Function)> = f.cov.functions.iter().map(|(k, v)| (k.clone(), v.clone())).collect();
        fs.sort_by(|a, b| a.0.cmp(&b.0));
        f.cov.functions = fs
            .into_iter()
            .enumerate()
            .map(|(i, (_, v))| (format!("f{}", i), v))
            .collect();
    }
    b.prefix = c.prefix.as_ref().map(|_| "http://h".to_string());
    b.service = (0..c.service.len()).map(|i| format!("s{}", i)).collect();
    b.demangle = false;
    b
}

/// `add_html_ext` of html.rs, to find the page of a file
fn page_name(rel: &Path) -> PathBuf {
    match rel.extension() {
        Some(e) => rel.with_extension(format!("{}.html", e.to_str().unwrap())),
        None => rel.with_extension("html"),
    }
}

struct Written {
    /// document id -> (kind, path)
    docs: Vec<(String, &'static str, PathBuf)>,
    /// writer -> panic message
    panics: Vec<(String, String)>,
    src_root: PathBuf,
}

fn results_of(c: &RepCase, src_root: &Path) -> Vec<ResultTuple> {
    c.files
        .iter()
        .map(|f| {
            let rel = PathBuf::from(rel_of(f));
            (src_root.join(&rel), rel, f.cov.clone())
        })
        .collect()
}

/// write the sources, run the five real writers; `tag` distinguishes hostile / benign / replays
fn run_writers(c: &RepCase, base: &Path, id: &str) -> Written {
    let _ = std::fs::remove_dir_all(base);
    let src_root = base.join("src").join(&c.root);
    for f in &c.files {
        let p = src_root.join(rel_of(f));
        std::fs::create_dir_all(p.parent().unwrap()).unwrap();
        let mut text = f.lines.join("\n");
        if !f.lines.is_empty() {
            text.push('\n');
        }
        std::fs::write(&p, text).unwrap();
    }
    let out = base.join("out");
    std::fs::create_dir_all(&out).unwrap();
    let results = results_of(c, &src_root);
    let mut w = Written {
        docs: vec![],
        panics: vec![],
        src_root: src_root.clone(),
    };
    let mut run = |name: &str, f: &dyn Fn()| {
        if let Err(p) = guarded(AssertUnwindSafe(f)) {
            w.panics.push((name.to_string(), p));
        }
    };
    let cob = out.join("cobertura.xml");
    run("cobertura", &|| {
        grcov::output_cobertura(Some(&src_root), &results, Some(&cob), c.demangle, c.pretty)
    });
    let cvl = out.join("coveralls.json");
    run("coveralls", &|| {
        grcov::output_coveralls(
            &results,
            Some(&c.service[0]),
            Some(&c.service[1]),
            "7",
            Some(&c.service[2]),
            "9",
            Some(&c.service[3]),
            "0123abcd",
            true,
            Some(&cvl),
            "main",
            false,
            c.demangle,
        )
    });
    let cvd = out.join("covdir.json");
    run("covdir", &|| grcov::output_covdir(&results, Some(&cvd), 2));
    let ade = out.join("ade.ndjson");
    run("ade", &|| grcov::output_activedata_etl(&results, Some(&ade), c.demangle));
    // html: first the consumer in-process under the panic guard (output_html would take the whole
    // process down with process::exit(1) if a worker panicked), then the real entry point
    let pre = base.join("preflight");
    let mut html_ok = true;
    run("html.consumer", &|| {
        let (tera, conf) = grcov::html::get_config(None, c.branch, 2, true, HtmlResources::Cdn);
        let (tx, rx) = crossbeam_channel::unbounded();
        for (abs, rel, r) in &results {
            tx.send(Some(grcov::HtmlItem {
                abs_path: abs.clone(),
                rel_path: rel.clone(),
                result: r.clone(),
            }))
            .unwrap();
        }
        tx.send(None).unwrap();
        let stats = std::sync::Arc::new(std::sync::Mutex::new(grcov::HtmlGlobalStats {
            abs_prefix: c.prefix.clone().map(PathBuf::from),
            ..Default::default()
        }));
        grcov::html::consumer_html(&tera, rx, stats.clone(), &pre, conf.clone(), &c.prefix);
        let g = std::sync::Arc::try_unwrap(stats).unwrap().into_inner().unwrap();
        grcov::html::gen_index(&tera, &g, &conf, &pre);
    });
    if w.panics.iter().any(|(n, _)| n == "html.consumer") {
        html_ok = false;
    }
    let mut run = |name: &str, f: &dyn Fn()| {
        if let Err(p) = guarded(AssertUnwindSafe(f)) {
            w.panics.push((name.to_string(), p));
        }
    };
    let html = out.join("html");
    if html_ok {
        run("html", &|| {
            grcov::output_html(
                &results,
                Some(&html),
                2,
                c.branch,
                None,
                2,
                &c.prefix,
                true,
                HtmlResources::Cdn,
            )
        });
    }
    w.docs.push((format!("{}.cobertura", id), "xml", cob));
    w.docs.push((format!("{}.coveralls", id), "json", cvl));
    w.docs.push((format!("{}.covdir", id), "json", cvd));
    w.docs.push((format!("{}.ade", id), "ndjson", ade));
    if html_ok {
        w.docs.push((format!("{}.html.covjson", id), "json", html.join("coverage.json")));
        w.docs.push((format!("{}.html.top", id), "html", html.join("index.html")));
        let parents: BTreeSet<String> = c.files.iter().map(parent_of).collect();
        for (k, p) in parents.iter().enumerate() {
            w.docs.push((format!("{}.html.dir{}", id, k), "html", html.join(p).join("index.html")));
        }
        for (k, f) in c.files.iter().enumerate() {
            let page = html.join(page_name(Path::new(&rel_of(f))));
            w.docs.push((format!("{}.html.file{}", id, k), "html", page));
        }
    }
    w
}

/// (top-level link, parent link) of a file page, computed with std paths only
fn file_links(c: &RepCase, f: &FileCase) -> (String, String) {
    match &c.prefix {
        None => (
            format!("{}index.html", "../".repeat(f.comps.len() - 1)),
            "./index.html".to_string(),
        ),
        Some(p) => (
            PathBuf::from(p).join("index.html").display().to_string(),
            PathBuf::from(p)
                .join(parent_of(f))
                .join("index.html")
                .display()
                .to_string(),
        ),
    }
}

fn run_decoder(docs: &[(String, &'static str, PathBuf)], workdir: &Path, tag: &str) -> Value {
    let manifest: Vec<Value> = docs
        .iter()
        .map(|(id, kind, path)| json!({"id": id, "kind": kind, "path": path.to_str().unwrap()}))
        .collect();
    let mp = workdir.join(format!("{}.manifest.json", tag));
    let op = workdir.join(format!("{}.decoded.json", tag));
    std::fs::write(&mp, serde_json::to_string(&manifest).unwrap()).unwrap();
    let st = std::process::Command::new("/usr/bin/python3")
        .arg("/verif/tools/c18_decode.py")
        .arg(&mp)
        .arg(&op)
        .status()
        .expect("cannot run /usr/bin/python3 tools/c18_decode.py");
    if !st.success() {
        eprintln!("c18_decode.py failed");
        std::process::exit(2);
    }
    serde_json::from_str(&std::fs::read_to_string(&op).unwrap()).expect("decoder output is not JSON")
}

fn sorted<T: Ord>(mut v: Vec<T>) -> Vec<T> {
    v.sort();
    v
}

fn pairs(v: &Value) -> Vec<(String, String)> {
    v.as_array()
        .map(|a| {
            a.iter()
                .map(|p| (p[0].as_str().unwrap_or("").to_string(), p[1].as_str().unwrap_or("").to_string()))
                .collect()
        })
        .unwrap_or_default()
}
fn triples(v: &Value) -> Vec<(String, String, String)> {
    v.as_array()
        .map(|a| {
            a.iter()
                .map(|p| {
                    (
                        p[0].as_str().unwrap_or("").to_string(),
                        p[1].as_str().unwrap_or("").to_string(),
                        p[2].as_str().unwrap_or("").to_string(),
                    )
                })
                .collect()
        })
        .unwrap_or_default()
}

struct Verdict {
    /// unnamed oracle failures
    failures: Vec<String>,
    /// links whose URL scheme is not the one the configuration gives them (a name changed it);
    /// kept apart so that the configuration-only excluded point can be recognised
    scheme: Vec<String>,
}

/// expected `<title>` / `<a>` / `<pre>` elements of one page, in document order
fn expect_file_page(c: &RepCase, f: &FileCase) -> Vec<(String, String, String)> {
    let name = f.comps.last().unwrap().clone();
    let (top, par) = file_links(c, f);
    let mut v = vec![
        ("title".to_string(), String::new(), format!("Grcov report - {} ", name)),
        ("a".to_string(), top, "top_level".to_string()),
        ("a".to_string(), par, parent_of(f)),
        ("a".to_string(), "#".to_string(), name),
    ];
    for (i, l) in f.lines.iter().enumerate() {
        v.push(("a".to_string(), format!("#{}", i + 1), format!("{}", i + 1)));
        v.push(("pre".to_string(), String::new(), l.clone()));
    }
    v
}

fn expect_dir_page(c: &RepCase, parent: &str) -> Vec<(String, String, String)> {
    let ncomp = parent.split('/').count();
    let up = match &c.prefix {
        None => format!("{}index.html", "../".repeat(ncomp)),
        Some(p) => PathBuf::from(p).join("index.html").display().to_string(),
    };
    let mut v = vec![
        ("title".to_string(), String::new(), format!("Grcov report - {} ", parent)),
        ("a".to_string(), up, "top_level".to_string()),
        ("a".to_string(), "#".to_string(), parent.to_string()),
    ];
    let names: BTreeSet<String> = c
        .files
        .iter()
        .filter(|f| parent_of(f) == parent)
        .map(|f| f.comps.last().unwrap().clone())
        .collect();
    for n in names {
        let url = match &c.prefix {
            None => format!("./{}.html", n),
            Some(p) => format!("{}/{}.html", PathBuf::from(p).join(parent).display(), n),
        };
        v.push(("a".to_string(), url, n));
    }
    v
}

fn expect_top_page(c: &RepCase) -> Vec<(String, String, String)> {
    let mut v = vec![
        ("title".to_string(), String::new(), "Grcov report - top_level ".to_string()),
        ("a".to_string(), "#".to_string(), "top_level".to_string()),
    ];
    let parents: BTreeSet<String> = c.files.iter().map(parent_of).collect();
    for p in parents {
        let url = match &c.prefix {
            None => format!("./{}/index.html", p),
            Some(pre) => format!("{}{}/index.html", pre, p),
        };
        v.push(("a".to_string(), url, p));
    }
    v
}

/// one html page against its benign twin and the expected elements; returns what is wrong
fn judge_page(h: &Value, b: &Value, expected: &[(String, String, String)]) -> Vec<String> {
    let mut bad = vec![];
    if !h["ok"].as_bool().unwrap_or(false) {
        return vec![format!("page not readable: {}", h["error"])];
    }
    if !b["ok"].as_bool().unwrap_or(false) {
        return vec![format!("benign twin page not readable: {}", b["error"])];
    }
    if h["tags"] != b["tags"] {
        let ht = h["tags"].as_array().cloned().unwrap_or_default();
        let bt = b["tags"].as_array().cloned().unwrap_or_default();
        let k = ht.iter().zip(bt.iter()).take_while(|(x, y)| x == y).count();
        bad.push(format!(
            "tag stream differs from the benign twin at tag {}: {} instead of {} ({} tags instead of {})",
            k,
            ht.get(k).unwrap_or(&Value::Null),
            bt.get(k).unwrap_or(&Value::Null),
            ht.len(),
            bt.len()
        ));
    }
    if h["dup_attr"].as_bool().unwrap_or(false) || !h["unclosed"].as_array().map(|a| a.is_empty()).unwrap_or(false) {
        bad.push("duplicate attribute or unclosed text element".into());
    }
    let elems = triples(&h["elems"]);
    if elems != expected {
        let k = elems.iter().zip(expected.iter()).take_while(|(x, y)| x == y).count();
        bad.push(format!(
            "element {} of the page decodes to {:?}, expected {:?}",
            k,
            elems.get(k),
            expected.get(k)
        ));
    }
    // attribute values that are not link targets of <a> (ids, aria labels, the stylesheet) do not
    // depend on names
    let hv: Vec<_> = triples(&h["values"]).into_iter().filter(|t| !(t.0 == "a" && t.1 == "href")).collect();
    let bv: Vec<_> = triples(&b["values"]).into_iter().filter(|t| !(t.0 == "a" && t.1 == "href")).collect();
    if hv != bv {
        bad.push("an attribute value that should not depend on names differs from the benign twin".into());
    }
    bad
}

fn judge_case(c: &RepCase, hid: &str, bid: &str, wh: &Written, wb: &Written, dec: &Value) -> Verdict {
    let mut v = Verdict {
        failures: vec![],
        scheme: vec![],
    };
    for (n, p) in &wh.panics {
        v.failures.push(format!("writer {} panicked: {}", n, p));
    }
    for (n, p) in &wb.panics {
        v.failures.push(format!("writer {} panicked on the benign twin: {}", n, p));
    }
    if !v.failures.is_empty() {
        return v;
    }
    let doc = |id: &str, what: &str| -> &Value { &dec[format!("{}.{}", id, what)] };
    let readable = |v: &mut Verdict, what: &str| -> bool {
        let h = doc(hid, what);
        let b = doc(bid, what);
        if !b["ok"].as_bool().unwrap_or(false) {
            v.failures.push(format!("{}: benign twin not readable: {}", what, b["error"]));
            return false;
        }
        if !h["ok"].as_bool().unwrap_or(false) {
            v.failures.push(format!("{}: not well-formed: {}", what, h["error"]));
            return false;
        }
        if h["shape"] != b["shape"] {
            v.failures.push(format!("{}: element/key structure differs from the benign twin (something was added or lost)", what));
            return false;
        }
        true
    };
    let rels: Vec<String> = c.files.iter().map(rel_of).collect();
    let fn_names: Vec<String> = c
        .files
        .iter()
        .flat_map(|f| f.cov.functions.keys().map(|k| expected_fn_name(c, k)).collect::<Vec<_>>())
        .collect();

    // cobertura
    if readable(&mut v, "cobertura") {
        let h = doc(hid, "cobertura");
        let b = doc(bid, "cobertura");
        let attrs = triples(&h["attrs"]);
        let get = |path: &str, key: &str| -> Vec<String> {
            attrs.iter().filter(|t| t.0 == path && t.1 == key).map(|t| t.2.clone()).collect()
        };
        let pk = "coverage/packages/package";
        let cl = "coverage/packages/package/classes/class";
        let me = "coverage/packages/package/classes/class/methods/method";
        if get(pk, "name") != rels {
            v.failures.push("cobertura: package names do not decode to the file paths".into());
        }
        if get(cl, "filename") != rels {
            v.failures.push("cobertura: class filenames do not decode to the file paths".into());
        }
        let stems: Vec<String> = rels
            .iter()
            .map(|r| Path::new(r).file_stem().map(|s| s.to_str().unwrap().to_string()).unwrap_or_default())
            .collect();
        if get(cl, "name") != stems {
            v.failures.push("cobertura: class names do not decode to the file stems".into());
        }
        if sorted(get(me, "name")) != sorted(fn_names.clone()) {
            v.failures.push("cobertura: method names do not decode to the function names".into());
        }
        let texts = pairs(&h["texts"]);
        let want = vec![("coverage/sources/source".to_string(), wh.src_root.display().to_string())];
        if texts != want {
            v.failures.push(format!("cobertura: character data {:?}, expected only the source directory", texts));
        }
        let other = |x: &Value| -> Vec<(String, String, String)> {
            sorted(
                triples(&x["attrs"])
                    .into_iter()
                    .filter(|t| !matches!(t.1.as_str(), "name" | "filename" | "timestamp"))
                    .collect(),
            )
        };
        if other(h) != other(b) {
            v.failures.push("cobertura: a numeric attribute differs from the benign twin".into());
        }
    }
    // coveralls
    if readable(&mut v, "coveralls") {
        let h = doc(hid, "coveralls");
        let strings: Vec<(String, String)> = pairs(&h["strings"])
            .into_iter()
            .filter(|p| p.0 != "$.source_files[].source_digest")
            .collect();
        let mut want: Vec<(String, String)> = vec![
            ("$.git.head.id".into(), "0123abcd".into()),
            ("$.git.branch".into(), "main".into()),
            ("$.service_number".into(), "7".into()),
            ("$.service_pull_request".into(), "9".into()),
            ("$.repo_token".into(), c.service[0].clone()),
            ("$.service_name".into(), c.service[1].clone()),
            ("$.service_job_id".into(), c.service[2].clone()),
            ("$.flag_name".into(), c.service[3].clone()),
        ];
        for r in &rels {
            want.push(("$.source_files[].name".into(), r.clone()));
        }
        for f in &fn_names {
            want.push(("$.source_files[].functions[].name".into(), f.clone()));
        }
        if sorted(strings.clone()) != sorted(want) {
            v.failures.push("coveralls: the strings of the document are not exactly the names that went in".into());
        }
        let order: Vec<String> = strings.iter().filter(|p| p.0 == "$.source_files[].name").map(|p| p.1.clone()).collect();
        if order != rels {
            v.failures.push("coveralls: source file names out of order or altered".into());
        }
    }
    // covdir
    if readable(&mut v, "covdir") {
        let h = doc(hid, "covdir");
        let mut want_names: BTreeSet<(String, String)> = BTreeSet::new();
        let mut want_keys: BTreeSet<(String, String)> = BTreeSet::new();
        want_names.insert(("$.name".into(), String::new()));
        for f in &c.files {
            let mut path = "$".to_string();
            let mut seen_prefix = String::new();
            for comp in &f.comps {
                // the node is identified by its full prefix; equal components under different
                // parents are different nodes
                seen_prefix.push('/');
                seen_prefix.push_str(comp);
                want_keys.insert((format!("{}.children\u{0}{}", path, seen_prefix), comp.clone()));
                path.push_str(".children.*");
                want_names.insert((format!("{}.name\u{0}{}", path, seen_prefix), comp.clone()));
            }
        }
        let strip = |s: BTreeSet<(String, String)>| -> Vec<(String, String)> {
            sorted(s.into_iter().map(|(p, n)| (p.split('\u{0}').next().unwrap().to_string(), n)).collect())
        };
        if sorted(pairs(&h["strings"])) != strip(want_names) {
            v.failures.push("covdir: node names are not exactly the path components".into());
        }
        if sorted(pairs(&h["keys"])) != strip(want_keys) {
            v.failures.push("covdir: children keys are not exactly the path components".into());
        }
    }
    // ActiveData-ETL
    if readable(&mut v, "ade") {
        let h = doc(hid, "ade");
        let records: usize = c.files.iter().map(|f| f.cov.functions.len() + 1).sum();
        if h["records"].as_u64() != Some(records as u64) {
            v.failures.push(format!("ade: {} records, expected {}", h["records"], records));
        }
        let mut want: Vec<(String, String)> = vec![];
        for f in &c.files {
            for k in f.cov.functions.keys() {
                want.push(("$.language".into(), "c/c++".into()));
                want.push(("$.file.name".into(), rel_of(f)));
                want.push(("$.method.name".into(), expected_fn_name(c, k)));
            }
            want.push(("$.language".into(), "c/c++".into()));
            want.push(("$.file.name".into(), rel_of(f)));
        }
        if sorted(pairs(&h["strings"])) != sorted(want) {
            v.failures.push("ade: the strings of the records are not exactly the names that went in".into());
        }
    }
    // html
    if readable(&mut v, "html.covjson") {}
    let empty = Value::Null;
    let top = judge_page(doc(hid, "html.top"), doc(bid, "html.top"), &expect_top_page(c));
    v.failures.extend(top.into_iter().map(|m| format!("html top index: {}", m)));
    // links built from names: without the prefix option every link is relative; with it, the
    // scheme of every link is the prefix's own
    let want_scheme = c.prefix.as_deref().map(has_scheme).unwrap_or(false);
    let scheme_rows = |page: &Value| -> Vec<String> {
        triples(&page["elems"])
            .into_iter()
            .filter(|t| t.0 == "a" && !t.1.starts_with('#') && has_scheme(&t.1) != want_scheme)
            .map(|t| t.1)
            .collect()
    };
    for h in scheme_rows(doc(hid, "html.top")) {
        v.scheme.push(format!("top index: the scheme of link {:?} is decided by a name", h));
    }
    let parents: BTreeSet<String> = c.files.iter().map(parent_of).collect();
    for (k, p) in parents.iter().enumerate() {
        // the twin numbers its directories in the order of *its* names: find the twin of `p`
        let bk = twin_dir_index(c, p);
        let r = judge_page(
            doc(hid, &format!("html.dir{}", k)),
            bk.map(|bk| doc(bid, &format!("html.dir{}", bk))).unwrap_or(&empty),
            &expect_dir_page(c, p),
        );
        v.failures.extend(r.into_iter().map(|m| format!("html directory index {:?}: {}", p, m)));
        for h in scheme_rows(doc(hid, &format!("html.dir{}", k))) {
            v.scheme.push(format!("directory index {:?}: the scheme of link {:?} is decided by a name", p, h));
        }
    }
    for (k, f) in c.files.iter().enumerate() {
        let what = format!("html.file{}", k);
        let exp = expect_file_page(c, f);
        let r = judge_page(doc(hid, &what), doc(bid, &what), &exp);
        for h in scheme_rows(doc(hid, &what)) {
            v.scheme.push(format!("file page {:?}: the scheme of link {:?} is decided by a name", rel_of(f), h));
        }
        v.failures.extend(r.into_iter().map(|m| format!("html file page {:?}: {}", rel_of(f), m)));
    }
    v
}

/// index of the twin's directory page that corresponds to directory `p` of the hostile case
fn twin_dir_index(c: &RepCase, p: &str) -> Option<usize> {
    let b = benign_twin(c);
    let i = c.files.iter().position(|f| parent_of(f) == p)?;
    let bp = parent_of(&b.files[i]);
    let parents: BTreeSet<String> = b.files.iter().map(parent_of).collect();
    parents.iter().position(|x| *x == bp)
}

/// the model's prediction of the two breadcrumb items of every file page, against the page bytes
fn bc_requests(c: &RepCase, wh: &Written) -> Vec<(String, String)> {
    let mut v = vec![];
    for (id, kind, path) in &wh.docs {
        if *kind != "html" || !id.contains(".html.file") || id.ends_with(".repaired") {
            continue;
        }
        let k: usize = id.rsplit("file").next().unwrap().parse().unwrap();
        let f = &c.files[k];
        let req = format!(
            "bc {} x{} {}",
            c.prefix.as_ref().map(|p| xhex(p.as_bytes())).unwrap_or("-".into()),
            hex(parent_of(f).as_bytes()),
            f.comps.len() - 1
        );
        let page = std::fs::read_to_string(path).unwrap_or_default();
        let seg = page
            .find("<ul>")
            .and_then(|i| {
                let after = &page[i + 4..];
                after.find("<li class=\"is-active\">").map(|j| after[..j].to_string())
            })
            .unwrap_or_else(|| "<breadcrumb not found>".into());
        v.push((req, xhex(seg.as_bytes())));
    }
    v
}

fn evaluate_cases(rep: &mut Report, cases: &[RepCase], tag: &str) -> Vec<Verdict> {
    let base = rep.workdir.join("reports").join(tag);
    let mut written = vec![];
    let mut docs = vec![];
    for (i, c) in cases.iter().enumerate() {
        let hid = format!("{}h", i);
        let bid = format!("{}b", i);
        let wh = run_writers(c, &base.join(&hid), &hid);
        let wb = run_writers(&benign_twin(c), &base.join(&bid), &bid);
        docs.extend(wh.docs.iter().cloned());
        docs.extend(wb.docs.iter().cloned());
        written.push((hid, bid, wh, wb));
    }
    let dec = run_decoder(&docs, &rep.workdir, tag);
    // breadcrumb tie with the model
    let mut reqs = vec![];
    let mut impls = vec![];
    let mut owner = vec![];
    for (i, c) in cases.iter().enumerate() {
        for (r, o) in bc_requests(c, &written[i].2) {
            reqs.push(r);
            impls.push(o);
            owner.push(i);
        }
    }
    let answers = if reqs.is_empty() { vec![] } else { run_model_named("gm_c18", &reqs, &rep.workdir, &format!("{}.bc", tag)) };
    let mut bc_diff: BTreeMap<usize, String> = BTreeMap::new();
    for k in 0..reqs.len() {
        let joined = answers[k].replace(" x", "");
        if joined != impls[k] {
            bc_diff.insert(owner[k], format!("request {} impl {} model {}", reqs[k], impls[k], answers[k]));
        }
    }
    let mut out = vec![];
    for (i, c) in cases.iter().enumerate() {
        let (hid, bid, wh, wb) = &written[i];
        let v = judge_case(c, hid, bid, wh, wb, &dec);
        if v.failures.is_empty() {
            // the sinks of the templates against Escape.titleFrag / currentItem / rowLink / preLine
            if let Some(d) = sinks::sink_tie(rep, c, wh, tag) {
                rep.disagreements_checked += 1;
                rep.fail(
                    "disagreement",
                    None,
                    format!("a sink of an html page differs from the Escape model (the C18_sink_* theorems no longer transfer): {}", d),
                    case_json(c),
                );
            }
            if let Some(d) = bc_diff.get(&i) {
                rep.disagreements_checked += 1;
                rep.fail(
                    "disagreement",
                    None,
                    format!("breadcrumb of a file page differs from Escape.breadcrumbItem: {}", d),
                    case_json(c),
                );
            }
        }
        out.push(v);
    }
    out
}

/// drop files, functions, source lines, then characters, while the same kind of failure remains
fn shrink_report(rep: &mut Report, c: &RepCase) -> RepCase {
    let still = |rep: &mut Report, cand: &RepCase| -> bool {
        if cand.files.is_empty() {
            return false;
        }
        let v = &evaluate_cases(rep, std::slice::from_ref(cand), "shrink")[0];
        !v.failures.is_empty() || !v.scheme.is_empty()
    };
    let mut cur = c.clone();
    let mut budget = 40;
    let try_cand = |rep: &mut Report, cur: &mut RepCase, cand: RepCase, budget: &mut i32| -> bool {
        if *budget <= 0 {
            return false;
        }
        *budget -= 1;
        if still(rep, &cand) {
            *cur = cand;
            true
        } else {
            false
        }
    };
    let mut i = 0;
    while i < cur.files.len() && cur.files.len() > 1 {
        let mut cand = cur.clone();
        cand.files.remove(i);
        if !try_cand(rep, &mut cur, cand, &mut budget) {
            i += 1;
        }
    }
    for fi in 0..cur.files.len() {
        let mut cand = cur.clone();
        cand.files[fi].cov.functions.clear();
        try_cand(rep, &mut cur, cand, &mut budget);
        let mut cand = cur.clone();
        cand.files[fi].lines.clear();
        try_cand(rep, &mut cur, cand, &mut budget);
        let mut cand = cur.clone();
        cand.files[fi].cov.branches.clear();
        try_cand(rep, &mut cur, cand, &mut budget);
    }
    let mut cand = cur.clone();
    cand.root = "r".into();
    cand.service = vec!["a".into(), "b".into(), "c".into(), "d".into()];
    try_cand(rep, &mut cur, cand, &mut budget);
    cur
}

/// The excluded point of `C18_prefixed_links_scheme_partial`, run on the real code as an
/// observation: `--abs-link-prefix java` (neither a URL nor a path: outside the option's domain,
/// and not a name) with a directory `script:alert(1)`. Not a verdict on the property, which
/// quantifies over names for a given configuration; recorded so that the refutation in
/// Props/C18.lean is known to transfer.
fn observe_excluded_point(rep: &mut Report) {
    let c = RepCase {
        root: "r".into(),
        files: vec![FileCase {
            comps: vec!["script:alert(1)".into(), "x.c".into()],
            lines: vec!["int x;".into()],
            cov: parse_cov("L1:1;B;F"),
        }],
        demangle: false,
        pretty: false,
        branch: false,
        prefix: Some("java".into()),
        service: vec!["a".into(), "b".into(), "c".into(), "d".into()],
    };
    let v = &evaluate_cases(rep, std::slice::from_ref(&c), "excluded")[0];
    if !v.failures.is_empty() {
        rep.fail("oracle", None, v.failures.join(" | "), case_json(&c));
    } else if v.scheme.iter().any(|m| m.contains("javascript:alert(1)/index.html")) {
        rep.count("report.excluded_point.prefix_without_separator.reproduced");
        rep.notes.push(format!(
            "observation (configuration outside the option's domain, not a violation): --abs-link-prefix java + directory script:alert(1): {}",
            v.scheme.join(" | ")
        ));
    } else {
        rep.count("report.excluded_point.prefix_without_separator.not_reproduced");
        rep.notes.push("the excluded point of C18_prefixed_links_scheme_partial no longer reproduces: index.html 23 may have gained a separator; the guard can go".into());
    }
}

fn report_stream(rep: &mut Report, rng: &mut Rng) {
    let n = rep.budget(80, 6);
    let n_prefix = rep.budget(10, 6);
    let mut cases = vec![];
    // corpus: the witnesses of the two defects fixed by /repo ffd66c7 and 8e4c27e (DESIGN §7 item 20:
    // prefix http://h + directory x"><b id=pwn>; names javascript:alert(1)). They must pass: a
    // recurrence is a plain violation.
    let witness = |prefix: Option<String>| RepCase {
        root: "src<&>".into(),
        files: vec![FileCase {
            comps: vec!["x\"><b id=pwn>".into(), "a&b<i>'.c".into()],
            lines: vec!["int main() { return a<b && c>\"d\"; } // </pre><script>alert(1)</script>".into()],
            cov: {
                let mut c = CovResult::default();
                c.lines.insert(1, 1);
                c.functions.insert("operator<<\"&'>".into(), Function { start: 1, executed: true });
                c
            },
        }],
        demangle: false,
        pretty: false,
        branch: true,
        prefix,
        service: vec!["t\"ok".into(), "s<n>".into(), "j&j".into(), "f'\\".into()],
    };
    cases.push(witness(None));
    cases.push(witness(Some("http://h".into())));
    // corpus: a directory and a file whose names start like a URL scheme
    cases.push(RepCase {
        root: "r".into(),
        files: vec![
            FileCase {
                comps: vec!["javascript:alert(1)".into(), "x.c".into()],
                lines: vec!["int x;".into()],
                cov: parse_cov("L1:1;B;F"),
            },
            FileCase {
                comps: vec!["d".into(), "javascript:alert(2)".into()],
                lines: vec!["int y;".into()],
                cov: parse_cov("L1:0;B;F"),
            },
        ],
        demangle: false,
        pretty: false,
        branch: false,
        prefix: None,
        service: vec!["a".into(), "b".into(), "c".into(), "d".into()],
    });
    for _ in 0..n {
        cases.push(gen_report_case(rng, None));
    }
    for _ in 0..n_prefix {
        let p = rng.pick(&["http://h", "https://example.org/cov/", "/srv/www", "../cov"]).to_string();
        cases.push(gen_report_case(rng, Some(p)));
    }
    observe_excluded_point(rep);
    let verdicts = evaluate_cases(rep, &cases, "run");
    let mut shrunk = 0;
    for (i, (c, v)) in cases.iter().zip(verdicts.iter()).enumerate() {
        let cj = case_json(c);
        let hostile = c.files.iter().any(|f| {
            f.comps.iter().any(|s| is_meta_str(s))
                || f.lines.iter().any(|s| is_meta_str(s))
                || f.cov.functions.keys().any(|s| is_meta_str(s))
        });
        rep.case(&cj.to_string(), hostile);
        rep.count(if c.prefix.is_some() { "report.with_abs_link_prefix" } else { "report.no_prefix" });
        rep.count_n("report.files", c.files.len() as u64);
        rep.count_n("report.functions", c.files.iter().map(|f| f.cov.functions.len() as u64).sum());
        rep.count_n("report.source_lines", c.files.iter().map(|f| f.lines.len() as u64).sum());
        if c.demangle {
            rep.count("report.demangle");
        }
        if c.pretty {
            rep.count("report.cobertura_pretty");
        }
        if i == 0 {
            rep.sample(json!({"case": cj, "verdict": if v.failures.is_empty() && v.scheme.is_empty() { "holds" } else { "fails" }}));
        }
        if !v.failures.is_empty() || !v.scheme.is_empty() {
            let (cs, what) = if shrunk < 2 {
                shrunk += 1;
                let s = shrink_report(rep, c);
                let sv = &evaluate_cases(rep, std::slice::from_ref(&s), "shrunk")[0];
                let w = sv.failures.iter().chain(sv.scheme.iter()).cloned().collect::<Vec<_>>().join(" | ");
                (s, w)
            } else {
                (c.clone(), v.failures.iter().chain(v.scheme.iter()).cloned().collect::<Vec<_>>().join(" | "))
            };
            rep.fail("oracle", None, what, case_json(&cs));
        }
    }
}

// ---------------------------------------------------------------------------------------------

pub fn run(rep: &mut Report) {
    // output_coveralls asks git about the commit: keep it away from /verif's own repository
    std::env::set_var("GIT_DIR", "/nonexistent-c18");
    std::env::remove_var("BULMA_VERSION");
    let mut rng = Rng::new(rep.seed ^ TAG);
    rep.rule = "strings are concatenations of XML/HTML/JSON metacharacters, hostile fragments (]]>, &amp;, \
                <script>, \"/>, \\u0022, template syntax), alphanumeric runs and non-ASCII characters (1-4 byte \
                UTF-8; among them combining marks, ZWJ sequences, variation selectors, format and private-use \
                characters), lengths 0 to ~90 kB; esc: one string through every real escape routine and the model \
                (non-trivial = contains a character some table escapes); dec: escaped strings, half of them \
                broken by inserted entity / escape fragments (non-trivial = broken); report: 1-4 files in 1-3 \
                hostile directories with hostile function names and source lines through the five real writers, \
                read back by expat / json / html.parser and compared with the names and with a benign twin \
                (non-trivial = some name contains a metacharacter); every sink of every page (title, active \
                breadcrumb, row links, source lines) byte for byte against the Escape model; xmlread: one name as \
                the only attribute value / character data of a document written by the real quick-xml writer, or \
                a broken escape put between the delimiters by hand, read by expat and by Escape.scanAttr / \
                scanXmlText (non-trivial = control character, non-character or metacharacter)".into();
    let mut r1 = rng.fork();
    let mut r2 = rng.fork();
    let mut r3 = rng.fork();
    let mut r4 = rng.fork();
    esc_stream(rep, &mut r1);
    dec_stream(rep, &mut r2);
    report_stream(rep, &mut r3);
    let mut r5 = rng.fork();
    sinks::xmlread_stream(rep, &mut r4);
    sinks::observe_prefix_separator(rep);
    htmlbytes::run(rep);
    uninames::run(rep, &mut r5);
    let mut r6 = rng.fork();
    links::run(rep, &mut r6);
    rep.notes.push("the quantifier excludes control characters: the esc/dec streams include them (the routines are total), the report stream does not".into());
}

pub fn replay(rep: &mut Report, case: &Value) {
    std::env::set_var("GIT_DIR", "/nonexistent-c18");
    match case["op"].as_str().unwrap_or("") {
        "esc" => {
            let name = String::from_utf8(unhex(case["name"].as_str().unwrap_or(""))).unwrap_or_default();
            let routine = case["routine"].as_str().unwrap_or("").to_string();
            let wd = rep.workdir.clone();
            let o = match guarded(AssertUnwindSafe(|| impl_one(&routine, &name, &wd))) {
                Ok(r) => r,
                Err(p) => Err(format!("panic {}", p)),
            };
            let req = esc_request(&routine, &name);
            let m = run_model_named("gm_c18", &[req.clone()], &rep.workdir, "replay");
            rep.case(&req, true);
            let orc = match &o {
                Ok(ans) => match unx(ans) {
                    Some(out) => oracle_escaped(&routine, &name, &out),
                    None => Some("not UTF-8".into()),
                },
                Err(e) => Some(e.clone()),
            };
            if let Some(w) = orc {
                rep.fail("oracle", None, w, case.clone());
            } else if o.as_ref().ok() != Some(&m[0]) {
                rep.disagreements_checked += 1;
                rep.fail("disagreement", None, format!("{} differs from the model", routine), case.clone());
            }
        }
        "dec" => {
            let req = case["request"].as_str().unwrap_or("").to_string();
            let mut it = req.splitn(2, ' ');
            let kind = it.next().unwrap_or("");
            let input = it.next().and_then(unx).unwrap_or_default();
            let out = dec_impl(kind, &input);
            let m = run_model_named("gm_c18", &[req.clone()], &rep.workdir, "replay");
            rep.case(&req, true);
            if m[0] != out {
                rep.disagreements_checked += 1;
                rep.fail("disagreement", None, "reader model differs from the real parser".into(), case.clone());
            }
        }
        "report" => {
            if let Some(c) = case_from_json(case) {
                let v = &evaluate_cases(rep, std::slice::from_ref(&c), "replay")[0];
                rep.case(&case.to_string(), true);
                if !v.failures.is_empty() || !v.scheme.is_empty() {
                    let w = v.failures.iter().chain(v.scheme.iter()).cloned().collect::<Vec<_>>().join(" | ");
                    rep.fail("oracle", None, w, case.clone());
                }
            } else {
                rep.notes.push("malformed report case".into());
            }
        }
        "xmlread" => sinks::replay_xmlread(rep, case),
        "uni.json" => {
            uninames::replay(rep, case);
        }
        "links" => links::replay(rep, case),
        o if o.starts_with("c03.htmlb.") => htmlbytes::replay(rep, case),
        _ => rep.notes.push("unknown op in replay case".into()),
    }
}

fn main() {
    corrlib::run_main("C18", run, replay);
}
