//! C18, second part: (a) the strict XML readers of the model (`Escape.scanAttr`, `scanXmlText`)
//! against expat on single-attribute / single-text documents – written by the real quick-xml
//! writer, or put together by hand from broken escapes; (b) the HTML sinks of the templates
//! (`titleFrag`, `currentItem`, `rowLink`, `preLine` of Escape.lean) byte for byte against the pages
//! the real `output_html` writes.
use super::*;

const PY_EXPAT: &str = r#"
import sys, json, xml.parsers.expat
docs = json.load(open(sys.argv[1], encoding="utf-8"))
out = []
for d in docs:
    data = bytes.fromhex(d)
    try:
        attr = []
        buf = []
        p = xml.parsers.expat.ParserCreate()
        p.buffer_text = False
        def start(name, a):
            attr.append(a.get("a", ""))
        p.StartElementHandler = start
        p.CharacterDataHandler = lambda s: buf.append(s)
        p.Parse(data, True)
        out.append({"ok": True, "attr": attr[0].encode("utf-8").hex() if attr else "",
                    "text": "".join(buf).encode("utf-8").hex(), "elems": len(attr)})
    except Exception as e:
        out.append({"ok": False, "error": "%s: %s" % (type(e).__name__, e)})
json.dump(out, open(sys.argv[2], "w", encoding="utf-8"))
"#;

fn run_expat(docs: &[Vec<u8>], workdir: &Path, tag: &str) -> Vec<Value> {
    let script = workdir.join("c18_expat.py");
    std::fs::write(&script, PY_EXPAT).unwrap();
    let ip = workdir.join(format!("{}.expat.in.json", tag));
    let op = workdir.join(format!("{}.expat.out.json", tag));
    let hexes: Vec<String> = docs.iter().map(|d| hex(d)).collect();
    std::fs::write(&ip, serde_json::to_string(&hexes).unwrap()).unwrap();
    let st = std::process::Command::new("/usr/bin/python3")
        .arg(&script)
        .arg(&ip)
        .arg(&op)
        .status()
        .expect("cannot run /usr/bin/python3");
    if !st.success() {
        eprintln!("c18 expat script failed");
        std::process::exit(2);
    }
    let v: Value = serde_json::from_str(&std::fs::read_to_string(&op).unwrap()).expect("expat output is not JSON");
    v.as_array().cloned().unwrap_or_default()
}

/// the property's quantifier as the readers see it (independent of the model's `printable`):
/// no C0 control, no U+FFFE / U+FFFF; `text`: TAB and LF allowed
fn is_printable(s: &str, text: bool) -> bool {
    s.chars().all(|c| {
        let u = c as u32;
        (u >= 0x20 || (text && (c == '\t' || c == '\n'))) && u != 0xFFFE && u != 0xFFFF
    })
}

struct XmlCase {
    kind: &'static str, // "attr" | "text"
    written: bool,      // through the real writer (else: raw bytes between the delimiters)
    name: String,       // the name (written) or the raw body (by hand)
    doc: Vec<u8>,
    req: String,
}

fn written_attr_doc(s: &str) -> Result<Vec<u8>, String> {
    let mut w = quick_xml::Writer::new(std::io::Cursor::new(Vec::new()));
    let mut e = BytesStart::new("e");
    e.push_attribute(("a", s));
    w.write_event(Event::Empty(e)).map_err(|e| e.to_string())?;
    Ok(w.into_inner().into_inner())
}

fn written_text_doc(s: &str) -> Result<Vec<u8>, String> {
    let mut w = quick_xml::Writer::new(std::io::Cursor::new(Vec::new()));
    w.write_event(Event::Start(BytesStart::new("e"))).map_err(|e| e.to_string())?;
    w.write_event(Event::Text(BytesText::new(s))).map_err(|e| e.to_string())?;
    w.write_event(Event::End(quick_xml::events::BytesEnd::new("e"))).map_err(|e| e.to_string())?;
    Ok(w.into_inner().into_inner())
}

fn make_xml_case(kind: &'static str, written: bool, name: &str) -> Option<XmlCase> {
    let (pre, suf): (&[u8], &[u8]) = if kind == "attr" { (b"<e a=\"", b"\"/>") } else { (b"<e>", b"</e>") };
    let doc = if written {
        let d = match guarded(AssertUnwindSafe(|| if kind == "attr" { written_attr_doc(name) } else { written_text_doc(name) })) {
            Ok(Ok(d)) => d,
            _ => return None,
        };
        if !d.starts_with(pre) || !d.ends_with(suf) || d.len() < pre.len() + suf.len() {
            return None;
        }
        d
    } else {
        let mut d = pre.to_vec();
        d.extend_from_slice(name.as_bytes());
        d.extend_from_slice(suf);
        d
    };
    // the reader starts right after the opening delimiter
    let body = &doc[pre.len()..];
    let req = format!("{} x{}", if kind == "attr" { "scanattr" } else { "scanxmltext" }, hex(body));
    Some(XmlCase { kind, written, name: name.to_string(), doc, req })
}

fn xml_case_json(c: &XmlCase) -> Value {
    json!({"op": "xmlread", "kind": c.kind, "written": c.written, "name": hex(c.name.as_bytes())})
}

/// judge one case; `model` is the driver's answer, `ex` expat's
fn judge_xml(rep: &mut Report, c: &XmlCase, model: &str, ex: &Value) {
    let ex_ok = ex["ok"].as_bool().unwrap_or(false);
    let ex_val = if c.kind == "attr" { ex["attr"].as_str().unwrap_or("") } else { ex["text"].as_str().unwrap_or("") };
    // the property, on the implementation's own document, for names inside the quantifier
    if c.written && is_printable(&c.name, c.kind == "text") {
        if !ex_ok {
            rep.fail("oracle", None, format!("xmlread.{}: the written document is not well-formed: {}", c.kind, ex["error"]), xml_case_json(c));
            return;
        }
        if ex_val != hex(c.name.as_bytes()) || ex["elems"].as_u64() != Some(1) {
            rep.fail("oracle", None, format!("xmlread.{}: expat does not read the name back exactly", c.kind), xml_case_json(c));
            return;
        }
    }
    // the tie of the reader model
    let tail = if c.kind == "attr" { "x2f3e" } else { "x2f653e" };
    let parts: Vec<&str> = model.split(' ').collect();
    let agree = match parts.as_slice() {
        ["err"] => {
            rep.count(&format!("xmlread.{}.model_err", c.kind));
            !ex_ok
        }
        ["ok", v, r] => {
            if *r != tail {
                // a raw delimiter inside the body: the rest is not the document's own tail
                rep.count(&format!("xmlread.{}.early_delimiter_skipped", c.kind));
                true
            } else {
                rep.count(&format!("xmlread.{}.model_ok", c.kind));
                ex_ok && format!("x{}", ex_val) == *v
            }
        }
        _ => false,
    };
    if !agree {
        rep.disagreements_checked += 1;
        let mut cj = xml_case_json(c);
        cj["model"] = json!(model);
        cj["expat"] = ex.clone();
        rep.fail(
            "disagreement",
            None,
            format!("xmlread.{}: Escape.scan{} and expat differ (the C18 scan theorems are about a reader that is not a conforming one)", c.kind, if c.kind == "attr" { "Attr" } else { "XmlText" }),
            cj,
        );
    }
}

pub fn xmlread_stream(rep: &mut Report, rng: &mut Rng) {
    let n = rep.budget(3000, 8);
    let mut cases: Vec<XmlCase> = vec![];
    // corpus: the closed witnesses of C18_xml_controls_outside and hostile printable names
    for (k, w, s) in [
        ("attr", true, "a\tb"), ("attr", true, "a\nb"), ("attr", true, "a\rb"), ("attr", true, "a\r\nb"),
        ("attr", true, "a\u{1}b"), ("attr", true, "\u{fffe}"), ("attr", true, "\u{ffff}"),
        ("text", true, "a\rb"), ("text", true, "a\r\nb"), ("text", true, "a\t\nb"), ("text", true, "a\u{1}b"),
        ("attr", true, "a\"/><x y='1'>&amp;]]>é"), ("text", true, "]]></e><e>"), ("attr", false, "&#10;&#13;&#9;"),
        ("attr", false, "&#1;"), ("attr", false, "&#xFFFE;"), ("text", false, "&#13;"), ("text", false, "]]>"),
        ("attr", false, "a<b"), ("attr", false, "&nbsp;"), ("text", false, "&lt"), ("attr", true, ""), ("text", true, ""),
    ] {
        if let Some(c) = make_xml_case(k, w, s) {
            cases.push(c);
        }
    }
    while (cases.len() as u64) < n {
        let kind = if rng.chance(1, 2) { "attr" } else { "text" };
        let base = truncate_chars(&if rng.chance(1, 3) { gen_name_with_controls(rng) } else { gen_name(rng) }, 600);
        let written = rng.chance(2, 3);
        let name = if written {
            base
        } else {
            // by hand: the escaped form, broken by inserted fragments
            let enc = quick_xml::escape::escape(base.as_str()).into_owned();
            mutate(rng, &enc)
        };
        if let Some(c) = make_xml_case(kind, written, &name) {
            cases.push(c);
        }
    }
    let reqs: Vec<String> = cases.iter().map(|c| c.req.clone()).collect();
    let answers = run_model_named("gm_c18", &reqs, &rep.workdir, "xmlread");
    let docs: Vec<Vec<u8>> = cases.iter().map(|c| c.doc.clone()).collect();
    let ex = run_expat(&docs, &rep.workdir.clone(), "xmlread");
    if ex.len() != cases.len() {
        rep.fail("oracle", None, "xmlread: expat script returned a different number of answers".into(), json!({"op": "xmlread"}));
        return;
    }
    for (i, c) in cases.iter().enumerate() {
        let inside = is_printable(&c.name, c.kind == "text");
        rep.case(&format!("{} {} {}", c.kind, c.written, hex(c.name.as_bytes())), !inside || is_meta_str(&c.name));
        rep.count(&format!("xmlread.{}.{}", c.kind, if c.written { "written" } else { "by_hand" }));
        rep.count(if inside { "xmlread.inside_quantifier" } else { "xmlread.control_or_nonchar" });
        if ex[i]["ok"].as_bool().unwrap_or(false) {
            rep.count("xmlread.expat_ok");
        } else {
            rep.count("xmlread.expat_error");
        }
        if i == 0 {
            rep.sample(json!({"request": c.req, "model": answers[i], "expat": ex[i]}));
        }
        judge_xml(rep, c, &answers[i], &ex[i]);
    }
}

pub fn replay_xmlread(rep: &mut Report, case: &Value) {
    let name = String::from_utf8(unhex(case["name"].as_str().unwrap_or(""))).unwrap_or_default();
    let kind = if case["kind"].as_str() == Some("text") { "text" } else { "attr" };
    let written = case["written"].as_bool().unwrap_or(true);
    match make_xml_case(kind, written, &name) {
        Some(c) => {
            let m = run_model_named("gm_c18", &[c.req.clone()], &rep.workdir, "replay");
            let ex = run_expat(&[c.doc.clone()], &rep.workdir.clone(), "replay");
            rep.case(&c.req, true);
            judge_xml(rep, &c, &m[0], &ex[0]);
        }
        None => rep.notes.push("xmlread replay: the writer failed".into()),
    }
}

// ---------------------------------------------------------------------------------------------
// the HTML sinks

/// every `open … close` fragment of the page, delimiters included, in document order
fn fragments(page: &str, open: &str, close: &str) -> Vec<String> {
    let mut v = vec![];
    let mut rest = page;
    while let Some(i) = rest.find(open) {
        let after = &rest[i..];
        match after[open.len()..].find(close) {
            Some(j) => {
                let end = open.len() + j + close.len();
                v.push(after[..end].to_string());
                rest = &after[end..];
            }
            None => break,
        }
    }
    v
}

/// the sink fragments of a page as they stand in the file
fn page_sinks(path: &Path) -> Vec<String> {
    let page = std::fs::read_to_string(path).unwrap_or_default();
    let mut v = vec![];
    v.extend(fragments(&page, "<title>", "</title>"));
    v.extend(fragments(&page, "<li class=\"is-active\">", "</li>"));
    v.extend(fragments(&page, "<th><a href=\"", "</a></th>"));
    v.extend(fragments(&page, "<pre class=\"", "</pre>"));
    v
}

fn xarg(s: &str) -> String {
    format!("x{}", hex(s.as_bytes()))
}

/// the model's requests for the sinks of every page of the case, with the page fragments
pub fn sink_requests(c: &RepCase, wh: &Written) -> Vec<(Vec<String>, Vec<String>, String)> {
    let mut out = vec![];
    let parents: Vec<String> = c.files.iter().map(parent_of).collect::<BTreeSet<_>>().into_iter().collect();
    for (id, kind, path) in &wh.docs {
        if *kind != "html" || id.ends_with(".repaired") {
            continue;
        }
        let what = id.splitn(2, '.').nth(1).unwrap_or("");
        let mut reqs = vec![];
        if what == "html.top" {
            reqs.push(format!("sink title {}", xarg("top_level")));
            reqs.push(format!("sink current {}", xarg("top_level")));
            for p in &parents {
                reqs.push(format!("sink dirrow {} {}", c.prefix.as_deref().map(xarg).unwrap_or("-".into()), xarg(p)));
            }
        } else if let Some(k) = what.strip_prefix("html.dir") {
            let k: usize = k.parse().unwrap();
            let p = &parents[k];
            reqs.push(format!("sink title {}", xarg(p)));
            reqs.push(format!("sink current {}", xarg(p)));
            let names: BTreeSet<String> = c.files.iter().filter(|f| parent_of(f) == *p).map(|f| f.comps.last().unwrap().clone()).collect();
            let q = c.prefix.as_ref().map(|pre| PathBuf::from(pre).join(p).display().to_string());
            for n in names {
                reqs.push(format!("sink filerow {} {}", q.as_deref().map(xarg).unwrap_or("-".into()), xarg(&n)));
            }
        } else if let Some(k) = what.strip_prefix("html.file") {
            let k: usize = k.parse().unwrap();
            let f = &c.files[k];
            let name = f.comps.last().unwrap();
            reqs.push(format!("sink title {}", xarg(name)));
            reqs.push(format!("sink current {}", xarg(name)));
            for (i, l) in f.lines.iter().enumerate() {
                let cls = match f.cov.lines.get(&((i + 1) as u32)) {
                    Some(&v) if v > 0 => "success-light",
                    Some(_) => "danger-light",
                    None => "white",
                };
                reqs.push(format!("sink pre {} {}", xarg(cls), xarg(l)));
            }
        } else {
            continue;
        }
        out.push((reqs, page_sinks(path), id.clone()));
    }
    out
}

/// compare; returns the first difference
pub fn sink_tie(rep: &mut Report, c: &RepCase, wh: &Written, tag: &str) -> Option<String> {
    let pages = sink_requests(c, wh);
    let mut reqs = vec![];
    for (r, _, _) in &pages {
        reqs.extend(r.iter().cloned());
    }
    if reqs.is_empty() {
        return None;
    }
    let answers = run_model_named("gm_c18", &reqs, &rep.workdir, &format!("{}.sinks", tag));
    let mut k = 0;
    for (r, frags, id) in &pages {
        let model: Vec<String> = answers[k..k + r.len()].iter().map(|a| unx(a).unwrap_or_else(|| format!("<{}>", a))).collect();
        k += r.len();
        rep.count_n("report.sinks_compared", r.len() as u64);
        if model != *frags {
            let i = model.iter().zip(frags.iter()).take_while(|(a, b)| a == b).count();
            return Some(format!(
                "page {}: sink {} ({}) is {:?} in the page, the model says {:?} ({} sinks in the page, {} expected)",
                id,
                i,
                r.get(i).cloned().unwrap_or_default(),
                frags.get(i),
                model.get(i),
                frags.len(),
                model.len()
            ));
        }
    }
    None
}

/// (8) the directory rows of the top-level index with `--abs-link-prefix P`: `P~dir` without a
/// separator. Returns (row href, breadcrumb href of the pages below) when they name different
/// locations.
pub fn observe_prefix_separator(rep: &mut Report) {
    let c = RepCase {
        root: "r".into(),
        files: vec![FileCase {
            comps: vec!["src".into(), "x.c".into()],
            lines: vec!["int x;".into()],
            cov: parse_cov("L1:1;B;F"),
        }],
        demangle: false,
        pretty: false,
        branch: false,
        prefix: Some("http://h".into()),
        service: vec!["a".into(), "b".into(), "c".into(), "d".into()],
    };
    let base = rep.workdir.join("reports").join("prefixsep");
    let w = run_writers(&c, &base, "p");
    let top = std::fs::read_to_string(base.join("out/html/index.html")).unwrap_or_default();
    let file = std::fs::read_to_string(base.join("out/html/src/x.c.html")).unwrap_or_default();
    let _ = w;
    let row = top.contains("<a href=\"http:&#x2F;&#x2F;hsrc&#x2F;index.html\">src</a>");
    let crumb = file.contains("<a href=\"http:&#x2F;&#x2F;h&#x2F;src&#x2F;index.html\">src</a>");
    if row && crumb {
        rep.count("report.observation.prefix_dir_row_no_separator.reproduced");
        rep.notes.push("observation C03/C18 (broken link, not an injection): --abs-link-prefix http://h, directory src: the top-level index links the directory as http://hsrc/index.html (index.html 23: abs_prefix~item), the pages below name it http://h/src/index.html (html.rs 442) – C18_dir_row_prefix_no_separator".into());
    } else {
        rep.count("report.observation.prefix_dir_row_no_separator.not_reproduced");
        rep.notes.push("the observation C18_dir_row_prefix_no_separator no longer reproduces (index.html 23 may have gained a separator): the model's dirRowUrl must follow".into());
    }
}
