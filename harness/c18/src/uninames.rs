//! C18, part UniNames — names made of the printable characters that a hand-written quoting routine
//! gets wrong: combining marks (Grapheme_Extend: U+0300…, Arabic harakat, Hebrew points, Thai and
//! Devanagari signs, enclosing marks, emoji modifiers), ZERO WIDTH JOINER sequences, variation
//! selectors (VS15/16, VS17), format characters (U+00AD, U+034F, U+061C, U+200B–U+200F,
//! U+202A–U+202E, U+2060, U+2066–U+2069, U+FEFF, tag characters), private-use characters. Rust's
//! `{:?}` prints every one of them as `\u{…}` – not a JSON escape, not an XML reference – while
//! serde_json, quick-xml and Tera copy them (`C18_json_verbatim`, `C18_json_debug_quoting_rejected`).
//!
//! Three streams (the third, `uni.guards`, ties the guards `printable` / `noCtl` / `textSafe`, the markup
//! skeleton `metaOf` and the two entity tables of the model – definitions that occur in theorem
//! statements – to this harness' own statement of the quantifier; review 2, item 33):
//!  * `uni.report` – whole reports: EVERY path component, function name, source line and coveralls
//!    service field contains at least one such character; all six writers (cobertura, coveralls,
//!    covdir, ActiveData, html pages + coverage.json) through the whole-report evaluation of main.rs
//!    (expat / json / html.parser read the names back exactly; benign twin; html sinks against the
//!    Escape model).
//!  * `uni.json` – the byte layer of the JSON writers: `output_covdir`, `output_coveralls` (both
//!    variants), `output_activedata_etl` on result sets with such names must equal, BYTE FOR BYTE,
//!    `jsonSerialize` of the Lean document (`Writers/JsonBytes.lean`, ops `c03.json.*` of `gmodel`).
//!    Here the names also contain what is outside the property's quantifier but inside JSON's
//!    (U+2028/9, NEL, DEL, non-characters U+FDD0, U+FFFE/F, U+1FFFE, U+10FFFF): tie only; the
//!    oracle (a strict reader – serde_json's parser – accepts the report and finds exactly the
//!    names) is evaluated on the cases whose names stay inside the quantifier.
use super::*;

/// printable, inside the property's quantifier
pub const UNIHARD: &[&str] = &[
    "e\u{301}", "\u{301}", "a\u{300}\u{323}", "re\u{301}sume\u{301}", "o\u{308}", "\u{34f}", "\u{64e}", "\u{628}\u{651}",
    "\u{5b4}", "\u{e01}\u{e34}", "\u{e31}", "\u{e19}\u{e49}\u{e33}", "\u{915}\u{94d}\u{937}", "\u{93f}", "\u{915}\u{93f}",
    "\u{1f468}\u{200d}\u{1f469}\u{200d}\u{1f467}", "\u{1f3f3}\u{fe0f}\u{200d}\u{1f308}", "\u{200d}", "\u{2764}\u{fe0f}", "\u{fe0f}",
    "\u{fe0e}", "\u{e0100}", "\u{200b}", "\u{200c}", "\u{200e}", "\u{200f}", "\u{2060}", "\u{feff}", "\u{ad}", "\u{61c}",
    "\u{202a}", "\u{202e}", "\u{202c}", "\u{2066}", "\u{2069}", "\u{e0001}", "\u{e0061}", "\u{1f44d}\u{1f3fd}", "a\u{20dd}",
    "\u{e000}", "\u{f8ff}", "\u{1160}", "\u{3164}", "\u{10fffd}", "\u{fffc}",
];
/// valid in a JSON string, outside the property's quantifier (line terminators, controls, non-characters)
const JSON_ONLY: &[&str] = &["\u{2028}", "\u{2029}", "\u{85}", "\u{7f}", "\u{fdd0}", "\u{fffe}", "\u{ffff}", "\u{1fffe}", "\u{10ffff}", "\u{9f}"];
const PLAIN: &[&str] = &["a", "Z", "0", "_", "-", ".", " ", "\"", "\\", "<", "&", "'", "{", "}", "é", "名", "😀", "%", "u{301}", "\\u{301}", "\\u0301"];

fn uni_piece(rng: &mut Rng, json_only: bool) -> &'static str {
    if json_only && rng.chance(1, 3) {
        pick_str(rng, JSON_ONLY)
    } else {
        pick_str(rng, UNIHARD)
    }
}

/// a string with at least one hard character; `comp`: usable as a path component
fn uni_string(rng: &mut Rng, json_only: bool, comp: bool) -> String {
    let mut s = String::new();
    let n = rng.range(1, 5);
    let forced = rng.below(n);
    for k in 0..n {
        if k == forced || rng.chance(1, 2) {
            s.push_str(uni_piece(rng, json_only));
        } else if rng.chance(1, 2) {
            s.push_str(&alnum(rng));
        } else {
            s.push_str(pick_str(rng, PLAIN));
        }
    }
    if comp {
        s = s.chars().filter(|&c| c != '/' && c != '\0').collect();
        s = truncate_chars(&s, 80);
        if s.is_empty() || s == "." || s == ".." || s.ends_with('.') {
            s.push('x');
        }
    }
    s
}

fn in_quantifier(s: &str) -> bool {
    !JSON_ONLY.iter().any(|j| s.contains(j)) && !s.chars().any(|c| (c as u32) < 0x20)
}

// ---- uni.report ----------------------------------------------------------------------------------

fn gen_uni_case(rng: &mut Rng) -> RepCase {
    let ndirs = rng.range(1, 2);
    let dirs: Vec<Vec<String>> = (0..ndirs).map(|_| (0..rng.range(1, 2)).map(|_| uni_string(rng, false, true)).collect()).collect();
    let dir_names: BTreeSet<String> = dirs.iter().flatten().cloned().collect();
    let mut used: BTreeSet<String> = BTreeSet::new();
    let mut files = vec![];
    for _ in 0..rng.range(1, 3) {
        let mut comps = rng.pick(&dirs).clone();
        let mut name = uni_string(rng, false, true);
        if rng.chance(1, 2) {
            name.push_str(pick_str(rng, &[".c", ".rs", ".h"]));
        }
        while dir_names.contains(&name) {
            name.push('f');
        }
        comps.push(name);
        let rel = comps.join("/");
        let page = page_name(Path::new(&rel)).to_string_lossy().to_string();
        if !used.insert(rel) || !used.insert(format!("page:{}", page)) {
            continue;
        }
        let nl = rng.range(0, 3) as usize;
        let lines: Vec<String> = (0..nl).map(|_| uni_string(rng, false, false)).collect();
        let mut cov = gen_cov(rng, false, nl);
        cov.functions.clear();
        for _ in 0..rng.range(0, 2) {
            cov.functions.insert(uni_string(rng, false, false), Function { start: rng.range(1, nl.max(1) as u64) as u32, executed: rng.chance(1, 2) });
        }
        files.push(FileCase { comps, lines, cov });
    }
    RepCase {
        root: uni_string(rng, false, true),
        files,
        demangle: false,
        pretty: rng.chance(1, 2),
        branch: rng.chance(1, 2),
        prefix: None,
        service: (0..4).map(|_| uni_string(rng, false, false)).collect(),
    }
}

/// corpus: the names of the seeded change's description
fn corpus_report() -> RepCase {
    let mut cov = CovResult::default();
    cov.lines.insert(1, 1);
    cov.functions.insert("re\u{301}sume\u{301}::e\u{301}te\u{301}".into(), Function { start: 1, executed: true });
    RepCase {
        root: "src".into(),
        files: vec![
            FileCase { comps: vec!["docs".into(), "re\u{301}sume\u{301}.c".into()], lines: vec!["int e\u{301};".into()], cov: cov.clone() },
            FileCase { comps: vec!["\u{e01}\u{e34}\u{e19}".into(), "\u{1f468}\u{200d}\u{1f469}\u{200d}\u{1f467}.rs".into()], lines: vec![], cov: parse_cov("L1:0;B;F") },
            FileCase { comps: vec!["\u{2764}\u{fe0f}".into(), "\u{feff}bom\u{200b}.h".into()], lines: vec!["// \u{202e}rtl".into()], cov: parse_cov("L1:3;B1:10;F") },
        ],
        demangle: false,
        pretty: false,
        branch: true,
        prefix: None,
        service: vec!["t\u{301}".into(), "s\u{200d}".into(), "j\u{fe0f}".into(), "f\u{ad}".into()],
    }
}

fn report_part(rep: &mut Report, rng: &mut Rng) {
    let n = rep.budget(10, 6);
    let mut cases = vec![corpus_report()];
    for _ in 0..n {
        let c = gen_uni_case(rng);
        if !c.files.is_empty() {
            cases.push(c);
        }
    }
    let verdicts = evaluate_cases(rep, &cases, "uni");
    let mut shrunk = 0;
    for (c, v) in cases.iter().zip(verdicts.iter()) {
        let mut cj = case_json(c);
        rep.case(&format!("uni {}", cj), true);
        rep.count("uni.report.cases");
        rep.count_n("uni.report.names", c.files.iter().map(|f| (f.comps.len() + f.cov.functions.len() + f.lines.len()) as u64).sum::<u64>() + 5);
        if !v.failures.is_empty() || !v.scheme.is_empty() {
            let (cs, what) = if shrunk < 1 {
                shrunk += 1;
                let s = shrink_report(rep, c);
                let sv = &evaluate_cases(rep, std::slice::from_ref(&s), "unishrunk")[0];
                (s, sv.failures.iter().chain(sv.scheme.iter()).cloned().collect::<Vec<_>>().join(" | "))
            } else {
                (c.clone(), v.failures.iter().chain(v.scheme.iter()).cloned().collect::<Vec<_>>().join(" | "))
            };
            cj = case_json(&cs);
            rep.fail("oracle", None, format!("names with combining marks / joiners / format characters: {}", what), cj);
        }
    }
}

// ---- uni.json: the byte layer --------------------------------------------------------------------

type RS = Vec<(PathBuf, PathBuf, CovResult)>;

fn gen_uni_set(rng: &mut Rng, json_only: bool) -> RS {
    let mut out: RS = vec![];
    let mut used = BTreeSet::new();
    let dirs: Vec<String> = (0..rng.range(1, 2)).map(|_| uni_string(rng, json_only, true)).collect();
    for _ in 0..rng.range(1, 3) {
        let mut rel = String::new();
        if rng.chance(3, 4) {
            let d: &String = rng.pick(&dirs[..]);
            rel.push_str(d);
            rel.push('/');
        }
        let mut name = uni_string(rng, json_only, true);
        while dirs.contains(&name) {
            name.push('f');
        }
        rel.push_str(&name);
        if !used.insert(rel.clone()) {
            continue;
        }
        let mut c = CovResult::default();
        for l in 1..=rng.range(1, 5) {
            if rng.chance(3, 4) {
                c.lines.insert(l as u32, *rng.pick(&[0u64, 1, 2, 9]));
            }
        }
        if rng.chance(1, 3) {
            if let Some(&l) = c.lines.keys().next() {
                c.branches.insert(l, vec![true, false]);
            }
        }
        // at most one function: its place in the report does not depend on any table order
        if rng.chance(1, 2) {
            c.functions.insert(uni_string(rng, json_only, false), Function { start: 1, executed: rng.chance(1, 2) });
        }
        out.push((PathBuf::from(format!("/src_root/{}", rel)), PathBuf::from(&rel), c));
    }
    out
}

fn show_set(rs: &RS) -> String {
    rs.iter()
        .map(|(a, r, c)| format!("R{}={}={}", hex(a.to_str().unwrap().as_bytes()), hex(r.to_str().unwrap().as_bytes()), show_cov(c)))
        .collect::<Vec<_>>()
        .join(" ")
}

fn parse_set(s: &str) -> RS {
    s.split(' ')
        .filter(|t| !t.is_empty())
        .map(|t| {
            let p: Vec<&str> = t[1..].split('=').collect();
            (PathBuf::from(String::from_utf8(unhex(p[0])).unwrap()), PathBuf::from(String::from_utf8(unhex(p[1])).unwrap()), parse_cov(p[2]))
        })
        .collect()
}

fn without_git<T>(f: impl FnOnce() -> T) -> T {
    let old = std::env::var_os("PATH");
    std::env::set_var("PATH", "/nonexistent-for-c18-uninames");
    let r = f();
    match old {
        Some(p) => std::env::set_var("PATH", p),
        None => std::env::remove_var("PATH"),
    }
    r
}

fn covdir_fills(v: &Value, path: &mut Vec<String>, out: &mut Vec<String>) {
    if let Some(p) = v.get("coveragePercent") {
        out.push(format!("P{}={}", hex(path.join("/").as_bytes()), hex(p.to_string().as_bytes())));
    }
    if let Some(ch) = v.get("children").and_then(|c| c.as_object()) {
        for (k, c) in ch {
            path.push(k.clone());
            covdir_fills(c, path, out);
            path.pop();
        }
    }
}

fn ade_tokens(text: &str) -> Vec<String> {
    let mut out = vec![];
    let pat = "\"percentage_covered\":";
    let mut rest = text;
    while let Some(i) = rest.find(pat) {
        rest = &rest[i + pat.len()..];
        let e = rest.find(|c| c == ',' || c == '}').unwrap_or(rest.len());
        let t = &rest[..e];
        out.push(if t == "null" { "Tn".to_string() } else { format!("T{}", hex(t.as_bytes())) });
        rest = &rest[e..];
    }
    out
}

/// names a strict reader finds in a covdir tree: (children keys, `name` members) in document order
fn covdir_names(v: &Value, keys: &mut Vec<String>, names: &mut Vec<String>) {
    if let Some(n) = v.get("name").and_then(|n| n.as_str()) {
        names.push(n.to_string());
    }
    if let Some(ch) = v.get("children").and_then(|c| c.as_object()) {
        for (k, c) in ch {
            keys.push(k.clone());
            covdir_names(c, keys, names);
        }
    }
}

/// the names that went in, as covdir must carry them: every directory prefix and every file once
fn covdir_expected(rs: &RS) -> Vec<String> {
    let mut nodes: BTreeSet<Vec<String>> = BTreeSet::new();
    for (_, rel, _) in rs {
        let comps: Vec<String> = rel.to_str().unwrap().split('/').map(|s| s.to_string()).collect();
        for k in 1..=comps.len() {
            nodes.insert(comps[..k].to_vec());
        }
    }
    let mut v: Vec<String> = nodes.into_iter().map(|p| p.last().unwrap().clone()).collect();
    v.sort();
    v
}

struct Pending {
    /// the oracle already failed on this document: that is the failing input
    oracle_failed: bool,
    op: &'static str,
    req: String,
    real: Vec<u8>,
    case: Value,
}

fn json_part(rep: &mut Report, rng: &mut Rng, replay_set: Option<RS>) {
    let n = if replay_set.is_some() { 1 } else { rep.budget(60, 10) };
    let out = rep.workdir.join("uninames_out");
    let _ = std::fs::remove_dir_all(&out);
    std::fs::create_dir_all(&out).unwrap();
    let mut pend: Vec<Pending> = vec![];
    let mut corpus: Vec<RS> = vec![
        vec![(PathBuf::from("/src_root/docs/re\u{301}sume\u{301}.c"), PathBuf::from("docs/re\u{301}sume\u{301}.c"), parse_cov("L1:1,2:0;B;F"))],
        vec![(PathBuf::from("/src_root/\u{1f468}\u{200d}\u{1f469}\u{200d}\u{1f467}/\u{2764}\u{fe0f}.rs"), PathBuf::from("\u{1f468}\u{200d}\u{1f469}\u{200d}\u{1f467}/\u{2764}\u{fe0f}.rs"), parse_cov("L1:3;B;F"))],
    ];
    for i in 0..n {
        if rep.verdict_clear() {
            break;
        }
        let json_only = i % 3 == 2;
        let rs: RS = match &replay_set {
            Some(rs) => rs.clone(),
            None => if !corpus.is_empty() { corpus.remove(0) } else { gen_uni_set(rng, json_only) },
        };
        if rs.is_empty() {
            continue;
        }
        let set = show_set(&rs);
        let inside = rs.iter().all(|(_, r, c)| in_quantifier(r.to_str().unwrap()) && c.functions.keys().all(|f| in_quantifier(f)));
        rep.case(&format!("uni.json {}", set), true);
        rep.count(if inside { "uni.json.names_inside_quantifier" } else { "uni.json.names_with_line_terminators_or_noncharacters(tie_only)" });
        let rels: Vec<String> = rs.iter().map(|(_, r, _)| r.to_str().unwrap().to_string()).collect();
        let case = |op: &str| json!({"op": "uni.json", "writer": op, "results": set});
        let failed = std::cell::Cell::new(false);
        let oracle = |rep: &mut Report, op: &'static str, what: String| {
            if inside {
                failed.set(true);
                rep.fail("oracle", None, format!("{}: {}", op, what), case(op));
            } else {
                rep.count("uni.json.oracle_skipped_outside_quantifier");
            }
        };
        // covdir
        {
            let p = out.join(format!("d{}.json", i));
            match guarded(AssertUnwindSafe(|| grcov::output_covdir(&rs, Some(&p), 2))) {
                Err(e) => oracle(rep, "covdir", format!("output_covdir panicked: {}", e)),
                Ok(()) => {
                    let bytes = std::fs::read(&p).unwrap_or_default();
                    let parsed: Result<Value, _> = serde_json::from_slice(&bytes);
                    let mut fills = vec![];
                    match &parsed {
                        Err(e) => oracle(rep, "covdir", format!("the report is not valid JSON: {} — {}", e, String::from_utf8_lossy(&bytes).chars().take(300).collect::<String>())),
                        Ok(v) => {
                            covdir_fills(v, &mut vec![], &mut fills);
                            let (mut keys, mut names) = (vec![], vec![]);
                            covdir_names(v, &mut keys, &mut names);
                            keys.sort();
                            names.retain(|n| !n.is_empty());
                            names.sort();
                            let want = covdir_expected(&rs);
                            if keys != want || names != want {
                                oracle(rep, "covdir", format!("children keys / node names are not exactly the path components: keys {:?}, names {:?}, expected {:?}", keys, names, want));
                            }
                        }
                    }
                    rep.count("uni.json.doc.covdir");
                    pend.push(Pending { oracle_failed: failed.replace(false), op: "covdir", req: format!("c03.json.covdir {} {}", set, fills.join(" ")).trim_end().to_string(), real: bytes, case: case("covdir") });
                }
            }
        }
        // coveralls / coveralls+
        for plus in [false, true] {
            let p = out.join(format!("c{}{}.json", i, if plus { "p" } else { "" }));
            let op: &'static str = if plus { "coveralls+" } else { "coveralls" };
            let r = without_git(|| guarded(AssertUnwindSafe(|| grcov::output_coveralls(&rs, Some("tok"), Some("svc"), "1", Some("2"), "3", None, "sha", plus, Some(&p), "main", false, false))));
            match r {
                Err(e) => oracle(rep, op, format!("output_coveralls panicked: {}", e)),
                Ok(()) => {
                    let bytes = std::fs::read(&p).unwrap_or_default();
                    let mut digests: Vec<String> = vec![];
                    match serde_json::from_slice::<Value>(&bytes) {
                        Err(e) => oracle(rep, op, format!("the report is not valid JSON: {}", e)),
                        Ok(v) => {
                            let files = v["source_files"].as_array().cloned().unwrap_or_default();
                            digests = files.iter().map(|f| format!("G{}", hex(f["source_digest"].as_str().unwrap_or("").as_bytes()))).collect();
                            let names: Vec<String> = files.iter().map(|f| f["name"].as_str().unwrap_or("").to_string()).collect();
                            if names != rels {
                                oracle(rep, op, format!("source file names {:?}, expected {:?}", names, rels));
                            }
                            if plus {
                                let mut got: Vec<String> = files.iter().flat_map(|f| f["functions"].as_array().cloned().unwrap_or_default()).map(|g| g["name"].as_str().unwrap_or("").to_string()).collect();
                                let mut want: Vec<String> = rs.iter().flat_map(|(_, _, c)| c.functions.keys().cloned().collect::<Vec<_>>()).collect();
                                got.sort();
                                want.sort();
                                if got != want {
                                    oracle(rep, op, format!("function names {:?}, expected {:?}", got, want));
                                }
                            }
                        }
                    }
                    rep.count("uni.json.doc.coveralls");
                    pend.push(Pending { oracle_failed: failed.replace(false), op, req: format!("c03.json.coveralls {} {} {}", if plus { 1 } else { 0 }, set, digests.join(" ")).trim_end().to_string(), real: bytes, case: case(op) });
                }
            }
        }
        // ActiveData
        {
            let p = out.join(format!("a{}.json", i));
            match guarded(AssertUnwindSafe(|| grcov::output_activedata_etl(&rs, Some(&p), false))) {
                Err(e) => oracle(rep, "ade", format!("output_activedata_etl panicked: {}", e)),
                Ok(()) => {
                    let bytes = std::fs::read(&p).unwrap_or_default();
                    let text = String::from_utf8_lossy(&bytes).to_string();
                    let mut names: Vec<String> = vec![];
                    let mut bad = None;
                    for l in text.split('\n').filter(|l| !l.is_empty()) {
                        match serde_json::from_str::<Value>(l) {
                            Ok(v) => names.push(v["file"]["name"].as_str().unwrap_or("").to_string()),
                            Err(e) => bad = Some(format!("a record is not valid JSON: {}", e)),
                        }
                    }
                    if let Some(b) = bad {
                        oracle(rep, "ade", b);
                    } else {
                        let want: Vec<String> = rs.iter().flat_map(|(_, r, c)| vec![r.to_str().unwrap().to_string(); c.functions.len() + 1]).collect();
                        let (mut a, mut b) = (names.clone(), want.clone());
                        a.sort();
                        b.sort();
                        if a != b {
                            oracle(rep, "ade", format!("file names of the records {:?}, expected {:?}", names, want));
                        }
                    }
                    rep.count("uni.json.doc.ade");
                    pend.push(Pending { oracle_failed: failed.replace(false), op: "ade", req: format!("c03.json.ade {} {}", set, ade_tokens(&text).join(" ")).trim_end().to_string(), real: bytes, case: case("ade") });
                }
            }
        }
    }
    let reqs: Vec<String> = pend.iter().map(|p| p.req.clone()).collect();
    let ans = if reqs.is_empty() { vec![] } else { run_model(&reqs, &rep.workdir, "uninames") };
    let mut sampled = false;
    for (p, a) in pend.iter().zip(ans.iter()) {
        let mut it = a.trim_end().splitn(3, ' ');
        let status = it.next().unwrap_or("");
        let mb = it.next().unwrap_or("");
        if status == "ok" && mb == hex(&p.real) {
            rep.count("uni.json.tie.agree");
            if !sampled && p.op == "covdir" {
                sampled = true;
                rep.sample(json!({"op": "uni.json", "writer": p.op, "report": String::from_utf8_lossy(&p.real).chars().take(400).collect::<String>()}));
            }
        } else {
            rep.disagreements_checked += 1;
            if p.oracle_failed {
                // already reported as an oracle failure: that is the failing input
                continue;
            }
            let mut cj = p.case.clone();
            cj["impl_bytes"] = json!(String::from_utf8_lossy(&p.real).chars().take(600).collect::<String>());
            cj["model_bytes"] = json!(String::from_utf8_lossy(&unhex(mb)).chars().take(600).collect::<String>());
            cj["model_status"] = json!(status);
            rep.fail("disagreement", None, format!("{}: the report bytes differ from jsonSerialize of the model document (names with combining marks / joiners / format characters)", p.op), cj);
        }
    }
}

// ---- uni.guards: the guards of the reader theorems and the markup skeleton (review 2, item 33) ------

fn guards_part(rep: &mut Report, rng: &mut Rng) {
    let n = rep.budget(1500, 8);
    let mut names: Vec<String> = vec![String::new(), "\u{fffe}".into(), "a\u{ffff}b".into(), "\t".into(), "a\nb".into(), "\u{1f}".into(), "<a href='x'>\"</a>".into()];
    for i in 0..n {
        names.push(match i % 4 {
            0 => uni_string(rng, true, false),
            1 => gen_name_with_controls(rng),
            2 => truncate_chars(&gen_name(rng), 300),
            _ => format!("{}{}", uni_string(rng, false, false), pick_str(rng, META)),
        });
    }
    let mut reqs: Vec<String> = names.iter().map(|s| format!("guards x{}", hex(s.as_bytes()))).collect();
    reqs.push("entities xml".into());
    reqs.push("entities html".into());
    let ans = run_model_named("gm_c18", &reqs, &rep.workdir, "uniguards");
    let printable = |s: &str, text: bool| s.chars().all(|c| { let u = c as u32; (u >= 0x20 || (text && (c == '\t' || c == '\n'))) && u != 0xFFFE && u != 0xFFFF });
    for (k, s) in names.iter().enumerate() {
        let b = |x: bool| if x { '1' } else { '0' };
        let skeleton: String = s.chars().filter(|c| matches!(c, '<' | '>' | '"' | '\'')).collect();
        let want = format!("{}{}{} x{}", b(printable(s, false)), b(s.bytes().all(|x| x >= 0x20)), b(printable(s, true)), hex(skeleton.as_bytes()));
        rep.case(&format!("uni.guards {}", hex(s.as_bytes())), !printable(s, false) || !skeleton.is_empty());
        rep.count(if printable(s, false) { "uni.guards.printable" } else if printable(s, true) { "uni.guards.text_safe_only" } else { "uni.guards.outside" });
        if ans[k].trim_end() != want {
            rep.disagreements_checked += 1;
            rep.fail("disagreement", None, "Escape.printable / noCtl / textSafe / metaOf differ from the harness' statement of the quantifier (the guards of the C18 reader theorems no longer mean what the text says)".into(),
                json!({"op": "uni.guards", "name": hex(s.as_bytes()), "model": ans[k], "expected": want}));
        }
    }
    for (k, ents) in [(names.len(), XML_ENTS), (names.len() + 1, HTML_ENTS)] {
        let mut got: Vec<String> = ans[k].split_whitespace().map(|t| String::from_utf8_lossy(&unhex(&t[1..])).to_string()).collect();
        let mut want: Vec<String> = ents.iter().map(|e| e.to_string()).collect();
        got.sort();
        want.sort();
        rep.count("uni.guards.entity_table");
        if got != want {
            rep.disagreements_checked += 1;
            rep.fail("disagreement", None, "the entity table of the model differs from the entities the escape routines are documented to emit".into(), json!({"op": "uni.guards", "model": ans[k]}));
        }
    }
}

pub fn run(rep: &mut Report, rng: &mut Rng) {
    rep.rule.push_str(" | uni: every name carries a combining mark, a ZWJ sequence, a variation selector, a format character (U+00AD, U+200B-U+200F, U+202A-E, U+2060, U+2066-9, U+FEFF, tags) or a private-use character; uni.report = whole reports through all six writers, read back by expat / json / html.parser; uni.json = covdir / coveralls / coveralls+ / ActiveData bytes == jsonSerialize of the Lean document (there also U+2028/9, NEL, DEL, non-characters: tie only), a strict JSON reader finds exactly the names");
    let t0 = std::time::Instant::now();
    report_part(rep, rng);
    let t1 = t0.elapsed().as_millis();
    json_part(rep, rng, None);
    guards_part(rep, rng);
    rep.notes.push(format!("uni streams: whole reports {} ms, JSON byte tie {} ms", t1, t0.elapsed().as_millis() - t1));
}

pub fn replay(rep: &mut Report, case: &Value) -> bool {
    if case["op"].as_str() != Some("uni.json") {
        return false;
    }
    let rs = parse_set(case["results"].as_str().unwrap_or(""));
    let mut rng = Rng::new(1);
    json_part(rep, &mut rng, Some(rs));
    true
}
