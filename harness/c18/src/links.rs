//! C03 / C18, part Links (second review, item 21) — where the row links of the index pages LEAD.
//!
//! Result sets whose file and directory names contain `%`, `#`, `?` (and other URI-reserved
//! characters) beside plain ones go through the REAL `output_html` (sources on disk). Every
//! `index.html` is read by Python's `html.parser`; every row link is resolved by Python's
//! `urllib.parse` (`urljoin` against the URL of the index page, `urlsplit`, `unquote` of the path) –
//! an independent URL library. Tie: the Lean model `Writers.Links.servedPath` / `splitRef` (driver
//! `gm_c18`, op `links.serve`) must give the same path, query and fragment for the same `href`.
//! Oracle (the property): the path must be the page of the file (the index of the directory) the
//! row NAMES, and that file must exist. It fails exactly for names with `%`, `#`, `?`: finding
//! C03-html-links-not-urlencoded (matcher: the row's name contains one of the three and the
//! `href` is the name put between `./` and `.html` / `/index.html` unencoded).
use corrlib::*;
use grcov::*;
use serde_json::{json, Value};
use std::collections::BTreeSet;
use std::path::{Path, PathBuf};

pub const FINDING: &str = "C03-html-links-not-urlencoded";

const NAMES: &[&str] = &[
    "main.c", "pA.c", "p%41.c", "x#y.c", "q?z.c", "x", "q", "a%2Fb.c", "%2e%2e", "100%.c", "x%zz.c", "h#", "?q", "é#ü.c", "sp ace.c",
    "semi;colon.c", "plus+.c", "amp&.c", "a=b.c", "at@.c", "col:on.c", "back\\slash.c", "語.c", "tilde~.c", "%", "#", "lib.rs",
];
const DIRS: &[&str] = &["", "src", "src/lib", "d%41", "dA", "d#x", "d?y", "a/%2e%2e%2f%2e%2e%2fetc", "sp ace", "日本"];

const PY: &str = r#"
import sys, os, json, html.parser, urllib.parse
root = os.path.abspath(sys.argv[1])
class P(html.parser.HTMLParser):
    def __init__(s):
        super().__init__(convert_charrefs=True); s.rows = []; s.cur = None; s.in_th = False; s.kind = None; s.in_head = False; s.first_th = None
    def handle_starttag(s, tag, attrs):
        if tag == 'thead': s.in_head = True
        if tag == 'th':
            s.in_th = True
            if s.in_head and s.first_th is None: s.first_th = ''
        if tag == 'a' and s.in_th and not s.in_head: s.cur = [dict(attrs).get('href'), '']
    def handle_data(s, d):
        if s.cur is not None: s.cur[1] += d
        if s.in_head and s.in_th and s.kind is None and s.first_th is not None: s.first_th += d
    def handle_endtag(s, tag):
        if tag == 'a' and s.cur is not None: s.rows.append(tuple(s.cur)); s.cur = None
        if tag == 'th':
            s.in_th = False
            if s.in_head and s.kind is None and s.first_th is not None: s.kind = s.first_th.strip()
        if tag == 'thead': s.in_head = False
out = []
for d, _, fs in os.walk(root):
    for f in fs:
        if f != 'index.html': continue
        text = open(os.path.join(d, f), encoding='utf-8').read()
        if '<thead>' not in text: continue
        p = P(); p.feed(text)
        loc = d[len(root):].strip('/')
        base = 'http://host/' + urllib.parse.quote(loc + ('/' if loc else '') + 'index.html')
        for href, name in p.rows:
            u = urllib.parse.urlsplit(urllib.parse.urljoin(base, href))
            had_q = '?' in href.split('#', 1)[0]
            had_f = '#' in href
            target = urllib.parse.unquote(u.path, errors='surrogateescape').lstrip('/')
            out.append({'loc': loc, 'kind': p.kind, 'href': href, 'name': name,
                        'target': target.encode('utf-8', 'surrogateescape').hex(),
                        'query': u.query if had_q else None, 'fragment': u.fragment if had_f else None,
                        'exists': os.path.isfile(os.path.join(root.encode(), target.encode('utf-8', 'surrogateescape')))})
json.dump(out, open(sys.argv[2], 'w'))
"#;

type RS = Vec<(PathBuf, PathBuf, CovResult)>;

fn gen_set(rng: &mut Rng) -> Vec<String> {
    let mut rels = BTreeSet::new();
    for _ in 0..rng.range(2, 9) {
        let d = *rng.pick(DIRS);
        let n = *rng.pick(NAMES);
        rels.insert(if d.is_empty() { n.to_string() } else { format!("{}/{}", d, n) });
    }
    let mut v: Vec<String> = rels.into_iter().collect();
    // a file named like a directory of the set would clash on disk (item 20): keep the first
    let mut kept: Vec<String> = vec![];
    for r in v.drain(..) {
        if kept.iter().any(|k| r.starts_with(&format!("{}/", k)) || k.starts_with(&format!("{}/", r))) {
            continue;
        }
        kept.push(r);
    }
    kept
}

fn hexsegs(loc: &str) -> String {
    format!("L{}", loc.split('/').filter(|s| !s.is_empty()).map(|s| hex(s.as_bytes())).collect::<Vec<_>>().join(","))
}

fn one_set(rep: &mut Report, rels: &[String], tag: &str) {
    let base = rep.workdir.join("links");
    let src = base.join("src");
    let out = base.join("out");
    let _ = std::fs::remove_dir_all(&base);
    std::fs::create_dir_all(&src).unwrap();
    let mut rs: RS = vec![];
    for r in rels {
        let abs = src.join(r);
        std::fs::create_dir_all(abs.parent().unwrap()).unwrap();
        std::fs::write(&abs, b"int a;\nint b;\n").unwrap();
        let mut c = CovResult::default();
        c.lines.insert(1, 1);
        c.lines.insert(2, 0);
        rs.push((abs, PathBuf::from(r), c));
    }
    let case = json!({"op": "links", "rels": rels});
    let hostile = rels.iter().any(|r| r.contains('%') || r.contains('#') || r.contains('?'));
    rep.case(&format!("links {}", rels.join("|")), hostile);
    if let Err(e) = guarded(std::panic::AssertUnwindSafe(|| output_html(&rs, Some(&out), 1, true, None, 2, &None, true, grcov::html::HtmlResources::Cdn))) {
        rep.fail("oracle", None, format!("links: output_html panicked: {}", e), case);
        return;
    }
    let script = base.join("resolve.py");
    let res = base.join("rows.json");
    std::fs::write(&script, PY).unwrap();
    let st = std::process::Command::new("/usr/bin/python3").arg(&script).arg(&out).arg(&res).status();
    if !st.map(|s| s.success()).unwrap_or(false) {
        rep.fail("oracle", None, "links: the Python resolver could not be run".into(), case);
        return;
    }
    let rows: Vec<Value> = serde_json::from_str(&std::fs::read_to_string(&res).unwrap_or_default()).unwrap_or_default();
    if rows.is_empty() {
        rep.fail("oracle", None, "links: no index row found".into(), case);
        return;
    }
    let mut reqs = vec![];
    for r in &rows {
        reqs.push(format!("links.serve {} x{}", hexsegs(r["loc"].as_str().unwrap_or("")), hex(r["href"].as_str().unwrap_or("").as_bytes())));
    }
    let ans = run_model_named("gm_c18", &reqs, &rep.workdir, tag);
    let mut listed: BTreeSet<String> = BTreeSet::new();
    for (r, a) in rows.iter().zip(ans.iter()) {
        let (loc, kind, href, name) = (r["loc"].as_str().unwrap_or(""), r["kind"].as_str().unwrap_or(""), r["href"].as_str().unwrap_or(""), r["name"].as_str().unwrap_or(""));
        let target = unhex(r["target"].as_str().unwrap_or(""));
        let optx = |v: &Value, pre: &str| match v.as_str() {
            None => format!("{}-", pre),
            Some(s) => format!("{}x{}", pre, hex(s.as_bytes())),
        };
        // tie: the model resolves the link as the URL library does
        let want = format!("x{} {} {}", hex(&target), optx(&r["query"], "Q"), optx(&r["fragment"], "F"));
        rep.count("links.tie");
        let rcase = json!({"op": "links", "rels": rels, "row": r, "request": format!("links.serve {} x{}", hexsegs(loc), hex(href.as_bytes()))});
        if *a != want {
            rep.disagreements_checked += 1;
            rep.fail("disagreement", None, format!("links: urllib resolves {:?} (index of {:?}) to {:?}, the model to {:?}", href, loc, want, a), rcase.clone());
        }
        // oracle: the link leads to the page / index the row names, and that file exists
        let in_loc = |n: &str| if loc.is_empty() { n.to_string() } else { format!("{}/{}", loc, n) };
        let (wanted, literal) = if kind == "File" {
            listed.insert(in_loc(name));
            (format!("{}.html", in_loc(name)), format!("./{}.html", name))
        } else {
            (format!("{}/index.html", name.trim_matches('/')).trim_start_matches('/').to_string(), format!("./{}/index.html", name))
        };
        let special = name.contains('%') || name.contains('#') || name.contains('?');
        rep.count(if special { "links.row.name_with_%#?" } else { "links.row.plain_name" });
        let ok = target == wanted.as_bytes() && r["exists"].as_bool().unwrap_or(false);
        if !ok {
            let f = if special && href == literal { Some(FINDING) } else { None };
            if f.is_some() {
                rep.count(if r["exists"].as_bool().unwrap_or(false) { "links.finding.leads_to_another_existing_file" } else { "links.finding.dead_link" });
            }
            if f.is_none() || !rep.findings_seen.contains(FINDING) {
                rep.fail("oracle", f, format!("links: the row {:?} of the index of {:?} has href {:?}, which leads to {:?} (query {}, fragment {}), not to {:?}; target exists: {}",
                    name, loc, href, String::from_utf8_lossy(&target), r["query"], r["fragment"], wanted, r["exists"]), rcase);
            }
        }
    }
    // every file of the set has its row (the clause the links are about)
    for r in rels {
        if !listed.contains(r) {
            rep.fail("oracle", None, format!("links: {:?} has no row in the index of its directory", r), case.clone());
        }
    }
}

pub fn run(rep: &mut Report, rng: &mut Rng) {
    rep.rule.push_str(" | links: 2-8 files named with % # ? ; + & = @ : \\ space and non-ASCII in directories named likewise; every index row link resolved by urllib and by Writers.Links (non-trivial = a name with % # ?)");
    let t0 = std::time::Instant::now();
    // the probes of the review first
    one_set(rep, &["p%41.c".into(), "pA.c".into(), "x#y.c".into(), "q?z.c".into(), "a|b.c".into()], "links0");
    let n = rep.budget(25, 8);
    for i in 0..n {
        if rep.verdict_clear() {
            break;
        }
        let rels = gen_set(rng);
        one_set(rep, &rels, &format!("links{}", i + 1));
    }
    rep.notes.push(format!("links stream: {} sites, {} ms", n + 1, t0.elapsed().as_millis()));
}

pub fn replay(rep: &mut Report, case: &Value) {
    let rels: Vec<String> = case["rels"].as_array().map(|a| a.iter().filter_map(|x| x.as_str().map(|s| s.to_string())).collect()).unwrap_or_default();
    one_set(rep, &rels, "linksreplay");
}

#[allow(dead_code)]
fn _unused(_: &Path) {}
