//! The malformed stream: one mutation of a well-formed tree, still at tree / token level so that
//! the XML text and the event list stay in agreement.
use crate::gen::*;
use crate::tree::*;

/// paths (child indices) of all elements, with local name and parent's local name
pub fn elem_paths(nodes: &[Node], prefix: &mut Vec<usize>, parent: &str, out: &mut Vec<(Vec<usize>, String, String)>) {
    for (i, n) in nodes.iter().enumerate() {
        if let Node::Elem(sh, ch) = n {
            prefix.push(i);
            out.push((prefix.clone(), sh.local().to_string(), parent.to_string()));
            elem_paths(ch, prefix, sh.local(), out);
            prefix.pop();
        }
    }
}
pub fn all_elems(nodes: &[Node]) -> Vec<(Vec<usize>, String, String)> {
    let mut out = vec![];
    elem_paths(nodes, &mut vec![], "", &mut out);
    out
}

pub fn elem_mut<'a>(nodes: &'a mut Vec<Node>, path: &[usize]) -> (&'a mut Shell, &'a mut Vec<Node>) {
    let (first, rest) = path.split_first().unwrap();
    match &mut nodes[*first] {
        Node::Elem(sh, ch) => {
            if rest.is_empty() {
                (sh, ch)
            } else {
                elem_mut(ch, rest)
            }
        }
        _ => unreachable!(),
    }
}
/// children list of the element at `path` (the top list for the empty path); clears `selfclose`
pub fn list_mut<'a>(nodes: &'a mut Vec<Node>, path: &[usize]) -> &'a mut Vec<Node> {
    if path.is_empty() {
        return nodes;
    }
    let (sh, ch) = elem_mut(nodes, path);
    sh.selfclose = false;
    ch
}
pub fn node_at(nodes: &[Node], path: &[usize]) -> Node {
    let (first, rest) = path.split_first().unwrap();
    if rest.is_empty() {
        return nodes[*first].clone();
    }
    match &nodes[*first] {
        Node::Elem(_, ch) => node_at(ch, rest),
        _ => unreachable!(),
    }
}

fn pick_elem(g: &mut G, nodes: &[Node], local: &str, parent: Option<&str>) -> Option<Vec<usize>> {
    let c: Vec<Vec<usize>> = all_elems(nodes)
        .into_iter()
        .filter(|(_, l, p)| l == local && parent.map(|q| q == p).unwrap_or(true))
        .map(|(p, _, _)| p)
        .collect();
    if c.is_empty() {
        None
    } else {
        Some(c[g.rng.below(c.len() as u64) as usize].clone())
    }
}

/// a METHOD counter inside a method
fn pick_method_counter(g: &mut G, nodes: &mut Vec<Node>) -> Option<Vec<usize>> {
    let c: Vec<Vec<usize>> = all_elems(nodes)
        .into_iter()
        .filter(|(_, l, p)| l == "counter" && p == "method")
        .map(|(p, _, _)| p)
        .filter(|p| {
            let (sh, _) = elem_mut(nodes, p);
            sh.attr("type").map(|a| a.raw == "METHOD").unwrap_or(false)
        })
        .collect();
    if c.is_empty() {
        None
    } else {
        Some(c[g.rng.below(c.len() as u64) as usize].clone())
    }
}

const BAD_NUMS: &[&str] = &[
    "", "+", "-", "-1", "-0", "abc", "1.5", " 3", "3 ", "4294967295", "4294967296", "18446744073709551615",
    "18446744073709551616", "99999999999999999999999", "&#51;", "&#x33;", "0x10", "1e3", "٣", "+0", "007", "+007",
    "++1", "1_000", "１",
];
/// for cb / mb (allocation sizes): only values that fail to parse or are small
const BAD_NUMS_SMALL: &[&str] = &[
    "", "+", "-", "-1", "abc", "1.5", " 3", "3 ", "18446744073709551616", "99999999999999999999999", "&#51;", "0x10",
    "1e3", "٣", "+0", "007", "+007", "++1", "1_000",
];
const BAD_ENTS: &[&str] = &[
    "&bogus;", "&", "&amp", "&#0;", "&#xD800;", "&#x110000;", "&#X41;", "&#;", "&#x;", "&;", "&lt;&", "a&b;c", "&#+5;",
    "&#-5;", "&LT;", "&#65;", "&#x1F600;", "&#4294967296;", "&#xDFFF;", "&#xE000;", ";", "&#65", "&nbsp;", "&#x4G;",
];

/// names of the elements the parser knows; everything else is "junk"
fn level_name(l: &str) -> &str {
    match l {
        "top" | "report" | "group" | "package" | "class" | "method" | "sourcefile" | "line" | "counter" => l,
        _ => "junk",
    }
}

fn new_attr(key: &str, raw: &str) -> Attr {
    Attr { key: key.to_string(), raw: raw.to_string(), quote: '"', pre: " ".to_string(), eq: "=".to_string() }
}

/// one mutation; `None` when it does not apply to this tree
pub fn mutate(g: &mut G, nodes: &mut Vec<Node>) -> Option<String> {
    match g.rng.below(16) {
        14 | 15 => {
            // an attribute SYNTAX error at the end of a start tag (no `=`, no value, unquoted value):
            // the attribute iterator yields `Err` when it gets there - `Parse` if the parser iterates
            // that far (always for <line>; for the others only when the wanted key was not found first)
            let el = *g.rng.pick(&["package", "class", "sourcefile", "method", "line", "counter", "report"]);
            let p = pick_elem(g, nodes, el, None)?;
            let (sh, _) = elem_mut(nodes, &p);
            sh.broken = g.rng.pick(BROKEN_ATTRS).to_string();
            if g.rng.chance(1, 2) {
                // ... with the wanted attribute moved behind nothing: drop one so that the iteration goes on
                let keys: Vec<String> = sh.attrs.iter().map(|a| a.key.clone()).collect();
                if !keys.is_empty() && g.rng.chance(1, 2) {
                    let k = g.rng.below(keys.len() as u64) as usize;
                    sh.attrs.remove(k);
                }
            }
            Some(format!("attrsyntax.{}", el))
        }
        13 => {
            // cb / mb of 2^63 or more: `vec![true; cb]` / `vec![false; mb]` panic with "capacity
            // overflow" before anything is allocated (the model's `alloc` outcome at cap = isize::MAX).
            // Values below 2^63 are never used here: they would really be allocated.
            let key = *g.rng.pick(&["cb", "mb"]);
            let p = pick_elem(g, nodes, "line", Some("sourcefile"))?;
            let v = *g.rng.pick(&["9223372036854775808", "18446744073709551615", "+9223372036854775813", "12345678901234567890"]);
            let (sh, _) = elem_mut(nodes, &p);
            sh.attr_mut(key)?.raw = v.to_string();
            Some(format!("hugealloc.line.{}", key))
        }
        0 => {
            // drop a required attribute
            let specs: &[(&str, Option<&str>, &str)] = &[
                ("package", None, "name"),
                ("class", None, "name"),
                ("class", None, "sourcefilename"),
                ("sourcefile", None, "name"),
                ("method", None, "name"),
                ("method", None, "line"),
                ("line", None, "ci"),
                ("line", None, "cb"),
                ("line", None, "mb"),
                ("line", None, "nr"),
                ("line", None, "mi"),
                ("counter", Some("method"), "type"),
                ("counter", Some("method"), "covered"),
            ];
            let (el, parent, key) = *g.rng.pick(specs);
            let p = if key == "covered" { pick_method_counter(g, nodes)? } else { pick_elem(g, nodes, el, parent)? };
            let (sh, _) = elem_mut(nodes, &p);
            let i = sh.attrs.iter().position(|a| a.key == key)?;
            sh.attrs.remove(i);
            Some(format!("drop.{}.{}", el, key))
        }
        1 | 2 => {
            // a numeric attribute with a strange value
            let specs: &[(&str, &str)] =
                &[("method", "line"), ("line", "ci"), ("line", "cb"), ("line", "mb"), ("line", "nr"), ("counter", "covered")];
            let (el, key) = *g.rng.pick(specs);
            let p = if el == "counter" { pick_method_counter(g, nodes)? } else { pick_elem(g, nodes, el, None)? };
            let v = if key == "cb" || key == "mb" { *g.rng.pick(BAD_NUMS_SMALL) } else { *g.rng.pick(BAD_NUMS) };
            let (sh, _) = elem_mut(nodes, &p);
            sh.attr_mut(key)?.raw = v.to_string();
            Some(format!("badnum.{}.{}", el, key))
        }
        3 => {
            // duplicate attribute key, before or after the wanted one
            let el = *g.rng.pick(&["package", "class", "sourcefile", "method", "line", "counter"]);
            let p = pick_elem(g, nodes, el, None)?;
            let (sh, _) = elem_mut(nodes, &p);
            if sh.attrs.is_empty() {
                return None;
            }
            let k = g.rng.below(sh.attrs.len() as u64) as usize;
            let mut dup = sh.attrs[k].clone();
            if g.rng.chance(1, 2) {
                dup.raw = "1".to_string();
            }
            let pos = g.rng.below(sh.attrs.len() as u64 + 1) as usize;
            let key = dup.key.clone();
            sh.attrs.insert(pos, dup);
            Some(format!("dupattr.{}.{}", el, if key.len() > 14 { "extra" } else { &key }))
        }
        4 => {
            // entity trouble in a text attribute
            let specs: &[(&str, &str)] = &[
                ("package", "name"),
                ("class", "name"),
                ("class", "sourcefilename"),
                ("sourcefile", "name"),
                ("method", "name"),
                ("method", "desc"),
                ("counter", "type"),
                ("report", "name"),
            ];
            let (el, key) = *g.rng.pick(specs);
            let p = pick_elem(g, nodes, el, None)?;
            let tok = *g.rng.pick(BAD_ENTS);
            let (sh, _) = elem_mut(nodes, &p);
            let a = sh.attr_mut(key)?;
            let mut cuts: Vec<usize> = a.raw.char_indices().map(|(i, _)| i).collect();
            cuts.push(a.raw.len());
            let at = cuts[g.rng.below(cuts.len() as u64) as usize];
            a.raw.insert_str(at, tok);
            Some(format!("entity.{}.{}", el, key))
        }
        5 => {
            // prefixed attribute key: `x:name` is not `name`
            let specs: &[(&str, &str)] = &[
                ("package", "name"),
                ("class", "name"),
                ("sourcefile", "name"),
                ("method", "name"),
                ("method", "line"),
                ("counter", "type"),
                ("line", "nr"),
                ("line", "cb"),
            ];
            let (el, key) = *g.rng.pick(specs);
            let p = pick_elem(g, nodes, el, if el == "counter" { Some("method") } else { None })?;
            let (sh, _) = elem_mut(nodes, &p);
            let a = sh.attr_mut(key)?;
            a.key = format!("{}:{}", g.rng.pick(&["x", "j", ""]), key);
            Some(format!("prefixed_key.{}.{}", el, key))
        }
        6 => {
            // duplicate line nr / method name / sourcefile name
            let (el, parent, key) = *g.rng.pick(&[
                ("line", "sourcefile", "ci"),
                ("method", "class", "line"),
                ("sourcefile", "package", ""),
                ("class", "package", ""),
            ]);
            let p = pick_elem(g, nodes, el, Some(parent))?;
            let mut clone = node_at(nodes, &p);
            if let Node::Elem(sh, ch) = &mut clone {
                if !key.is_empty() {
                    if let Some(a) = sh.attr_mut(key) {
                        a.raw = g.rng.below(3).to_string();
                    }
                }
                if el == "line" {
                    if let Some(a) = sh.attr_mut("cb") {
                        a.raw = g.rng.below(3).to_string();
                    }
                    if let Some(a) = sh.attr_mut("mb") {
                        a.raw = g.rng.below(2).to_string();
                    }
                }
                if (el == "sourcefile" || el == "class") && !ch.is_empty() {
                    // keep only a part of the children
                    let keep = g.rng.below(ch.len() as u64) as usize;
                    ch.truncate(keep);
                }
            }
            let parent_path = &p[..p.len() - 1];
            let list = list_mut(nodes, parent_path);
            let pos = g.rng.below(list.len() as u64 + 1) as usize;
            list.insert(pos, clone);
            Some(format!("dup.{}", el))
        }
        7 | 8 => {
            // a known element where it does not belong (class at top level, package in package, …)
            let what = *g.rng.pick(&["package", "class", "sourcefile", "method", "line", "counter"]);
            let src = pick_elem(g, nodes, what, None)?;
            let mut clone = node_at(nodes, &src);
            if what == "counter" && g.rng.chance(1, 2) {
                if let Node::Elem(sh, _) = &mut clone {
                    sh.attrs.retain(|a| a.key != "type");
                }
            }
            let mut elems = all_elems(nodes);
            if g.rng.chance(2, 3) {
                // prefer the containers the parser knows
                elems.retain(|(_, l, _)| ["report", "group", "package", "class", "method", "sourcefile"].contains(&l.as_str()));
            }
            let k = g.rng.below(elems.len() as u64 + 1) as usize;
            let (tp, tl) = if k == elems.len() { (vec![], "top".to_string()) } else { (elems[k].0.clone(), elems[k].1.clone()) };
            let list = list_mut(nodes, &tp);
            let pos = g.rng.below(list.len() as u64 + 1) as usize;
            list.insert(pos, clone);
            Some(format!("misplaced.{}.in.{}", what, level_name(&tl)))
        }
        9 | 10 => {
            // stray / mismatched end tag
            let elems = all_elems(nodes);
            let k = g.rng.below(elems.len() as u64 + 1) as usize;
            let (tp, open_name) = if k == elems.len() {
                (vec![], String::new())
            } else {
                let (sh, _) = elem_mut(nodes, &elems[k].0);
                (elems[k].0.clone(), sh.name.clone())
            };
            let mut name = g.rng.pick(&["oops", "package", "class", "report", "method", "sourcefile", "line"]).to_string();
            if name == open_name {
                name.push('x');
            }
            let list = list_mut(nodes, &tp);
            let pos = g.rng.below(list.len() as u64 + 1) as usize;
            list.insert(pos, Node::BadEnd(name));
            Some(format!("bad_end.in.{}", if tp.is_empty() { "top" } else { level_name(local(&open_name)) }))
        }
        11 => {
            // the element name itself
            let what = *g.rng.pick(&["package", "class", "sourcefile", "method", "line", "counter"]);
            let p = pick_elem(g, nodes, what, None)?;
            let (sh, _) = elem_mut(nodes, &p);
            let (label, name) = match g.rng.below(6) {
                0 => ("empty_prefix", format!(":{}", what)),
                1 => ("two_colons", format!("a:b:{}", what)),
                2 => ("capitalised", format!("{}{}", what[..1].to_uppercase(), &what[1..])),
                3 => ("plural", format!("{}s", what)),
                4 => ("prefixed", format!("j:{}", what)),
                _ => ("suffix_colon", format!("{}:x", what)),
            };
            sh.name = name;
            Some(format!("rename.{}.{}", what, label))
        }
        _ => {
            // entity trouble / strange values in attributes nobody reads: no effect expected
            let el = *g.rng.pick(&["package", "class", "sourcefile", "method", "line", "counter", "report"]);
            let p = pick_elem(g, nodes, el, None)?;
            let tok = *g.rng.pick(BAD_ENTS);
            let (sh, _) = elem_mut(nodes, &p);
            if sh.attrs.iter().any(|a| a.key == "zz") {
                return None;
            }
            let pos = g.rng.below(sh.attrs.len() as u64 + 1) as usize;
            sh.attrs.insert(pos, new_attr("zz", tok));
            Some(format!("unread_attr.{}", el))
        }
    }
}

/// text after the last attribute that the attribute iterator cannot split (no unbalanced quote:
/// the tag itself must still end where it ends)
pub const BROKEN_ATTRS: &[&str] = &[" junk", " x=", " y=unquoted", " z = 7", " k", "\tq=\t"];

/// Mutations that do NOT change what a report says, since /repo ae885a6 (`with_checks(false)`): the
/// caller compares the result with the meaning of the UNMUTATED document (property oracle).
/// * a repeated attribute AFTER the first one of its name, on an element whose attributes are looked
///   up with `get_xml_attribute` (first match wins) - any value, even an unreadable one;
/// * `<line>`: a repeated `ci`/`cb`/`mb`/`nr` BEFORE the last one of its name (the loop visits every
///   attribute: the last wins) - with a numeric value, every value is parsed;
/// * a repeated attribute nobody reads, anywhere;
/// * an attribute syntax error behind every attribute the parser asks for (never reached; a
///   `<class>` must HAVE its `sourcefilename`: since /repo 276971e an error met while looking for it
///   rejects the report).
pub fn mutate_preserving(g: &mut G, nodes: &mut Vec<Node>) -> Option<String> {
    match g.rng.below(8) {
        0 | 1 | 2 => {
            let specs: &[(&str, &str)] = &[
                ("package", "name"),
                ("class", "name"),
                ("class", "sourcefilename"),
                ("sourcefile", "name"),
                ("method", "name"),
                ("method", "line"),
                ("counter", "type"),
                ("counter", "covered"),
            ];
            let (el, key) = *g.rng.pick(specs);
            let p = pick_elem(g, nodes, el, None)?;
            let (sh, _) = elem_mut(nodes, &p);
            let i = sh.attrs.iter().position(|a| a.key == key)?;
            let mut dup = sh.attrs[i].clone();
            dup.raw = match g.rng.below(5) {
                0 => dup.raw.clone(),
                1 => "1".to_string(),
                2 => "other/Name.java".to_string(),
                3 => "&bogus;".to_string(),
                _ => "METHOD".to_string(),
            };
            let pos = i + 1 + g.rng.below((sh.attrs.len() - i) as u64) as usize;
            sh.attrs.insert(pos, dup);
            if g.rng.chance(1, 4) {
                // and a third one
                let mut d3 = sh.attrs[i].clone();
                d3.raw = "9".to_string();
                sh.attrs.push(d3);
            }
            Some(format!("dup_after_first.{}.{}", el, key))
        }
        3 | 4 => {
            let key = *g.rng.pick(&["ci", "cb", "mb", "nr"]);
            let p = pick_elem(g, nodes, "line", Some("sourcefile"))?;
            let (sh, _) = elem_mut(nodes, &p);
            let last = sh.attrs.iter().rposition(|a| a.key == key)?;
            let mut dup = sh.attrs[last].clone();
            dup.raw = g.rng.pick(&["0", "1", "7", "+3", "0042", "4294967295"]).to_string();
            let pos = g.rng.below(last as u64 + 1) as usize;
            sh.attrs.insert(pos, dup);
            Some(format!("dup_before_last.line.{}", key))
        }
        5 => {
            let el = *g.rng.pick(&["package", "class", "sourcefile", "method", "line", "counter", "report"]);
            let p = pick_elem(g, nodes, el, None)?;
            let (sh, _) = elem_mut(nodes, &p);
            const READ: &[&str] = &["name", "sourcefilename", "line", "type", "covered", "ci", "cb", "mb", "nr"];
            let c: Vec<usize> = (0..sh.attrs.len()).filter(|&i| !READ.contains(&sh.attrs[i].key.as_str())).collect();
            if c.is_empty() {
                return None;
            }
            let i = c[g.rng.below(c.len() as u64) as usize];
            let mut dup = sh.attrs[i].clone();
            if g.rng.chance(1, 2) {
                dup.raw = "&bogus; <".replace('<', "&lt;");
            }
            let pos = g.rng.below(sh.attrs.len() as u64 + 1) as usize;
            sh.attrs.insert(pos, dup);
            Some(format!("dup_unread.{}", el))
        }
        _ => {
            let el = *g.rng.pick(&["package", "class", "sourcefile", "method", "counter", "report", "sessioninfo"]);
            let p = pick_elem(g, nodes, el, None)?;
            let (sh, _) = elem_mut(nodes, &p);
            let has = |k: &str| sh.attrs.iter().any(|a| a.key == k);
            let ok = match el {
                "package" | "sourcefile" => has("name"),
                "class" => has("name") && has("sourcefilename"),
                "method" => has("name") && has("line"),
                "counter" => has("type") && has("covered"),
                _ => true,
            };
            if !ok {
                return None;
            }
            sh.broken = g.rng.pick(BROKEN_ATTRS).to_string();
            Some(format!("attrsyntax_behind_wanted.{}", el))
        }
    }
}

/// is the real parser inside one of its nested loops after reading toks[..k]? (for balanced
/// prefixes of well-formed documents: a `package` element is open)
pub fn package_open_at(toks: &[Tok], k: usize) -> bool {
    let mut depth = 0i64;
    for t in &toks[..k] {
        if let Some((l, d)) = &t.open {
            if l == "package" {
                depth += *d as i64;
            }
        }
    }
    depth > 0
}

/// cut inside token k (a strict, non-empty prefix of its bytes): everything before, then the
/// partial token; a partial tag / comment / PI is a tokenizer error, partial text is text
pub fn cut_inside(g: &mut G, toks: &[Tok], k: usize) -> Vec<Tok> {
    let mut v: Vec<Tok> = toks[..k].to_vec();
    let t = &toks[k];
    let n = t.bytes.len();
    if n < 2 {
        return v;
    }
    let cut = g.rng.range(1, n as u64 - 1) as usize;
    let bytes = t.bytes[..cut].to_vec();
    let ev = if t.ev == Ev::Text { Ev::Text } else { Ev::Bad };
    v.push(Tok { bytes, ev, open: None });
    v
}
