//! C10, part Bytes — tie of the byte-level reader model (`Jacoco.Bytes.events`, a model of
//! quick-xml's `Reader` + `BytesStart::attributes()`; `Jacoco.Bytes.parseBytes` = tokenizer +
//! `Jacoco.parse`) to the real code:
//! * `jacocotok`: the model's event list vs the events quick-xml's `Reader` yields on the same bytes
//!   (same settings as `parse_jacoco_xml_report`, except that empty elements are left unexpanded on
//!   both sides), event by event, on generated documents AND on byte-level mutations of them
//!   (substituted / inserted / deleted bytes from the markup alphabet, truncations, BOM) – any byte
//!   string, valid UTF-8 or not;
//! * `jacocobytes`: `parse_jacoco_xml_report(bytes)` vs the model end to end, on the generated
//!   documents and on those mutations that are valid UTF-8 (the `Decoder` check on names and values
//!   is outside the model).
use crate::gen::*;
use crate::tree::*;
use crate::{run_impl, show_outcome};
use corrlib::*;
use serde_json::json;

/// the event list of quick-xml's reader in the driver encoding; an attribute syntax error is the
/// marker `=` (one attribute with empty key and value: what the model emits), after which the
/// tag's list ends
pub fn qx_events_marked(xml: &[u8]) -> Vec<String> {
    use quick_xml::events::Event;
    let mut r = quick_xml::Reader::from_reader(xml);
    let c = r.config_mut();
    c.expand_empty_elements = false;
    c.trim_text(false);
    let mut buf = Vec::new();
    let mut out = vec![];
    fn enc(kind: &str, e: &quick_xml::events::BytesStart<'_>) -> String {
        let mut s = format!("{},{}", kind, fhex(e.name().into_inner()));
        for a in e.attributes().with_checks(false) {
            match a {
                Ok(a) => {
                    s.push(',');
                    s.push_str(&fhex(a.key.into_inner()));
                    s.push('=');
                    s.push_str(&fhex(&a.value));
                }
                Err(_) => {
                    s.push_str(",=");
                    break;
                }
            }
        }
        s
    }
    loop {
        match r.read_event_into(&mut buf) {
            Ok(Event::Eof) => break,
            Err(_) => {
                out.push("x".to_string());
                break;
            }
            Ok(Event::Start(ref e)) => out.push(enc("s", e)),
            Ok(Event::Empty(ref e)) => out.push(enc("e", e)),
            Ok(Event::End(ref e)) => out.push(format!("c,{}", fhex(e.name().into_inner()))),
            Ok(Event::Text(_)) => out.push("t".into()),
            Ok(_) => out.push("o".into()),
        }
        buf.clear();
    }
    out
}

const ALPHABET: &[u8] = b"<>/\"'=!?-[] \n\t\r&;:Dd]x1a";

fn mutate_bytes(rng: &mut Rng, xml: &[u8]) -> (String, Vec<u8>) {
    let mut v = xml.to_vec();
    let n = v.len().max(1) as u64;
    match rng.below(9) {
        0 => {
            let k = rng.below(n) as usize;
            v.truncate(k);
            ("truncate".into(), v)
        }
        1 | 2 => {
            for _ in 0..rng.range(1, 3) {
                if v.is_empty() {
                    break;
                }
                let k = rng.below(v.len() as u64) as usize;
                v[k] = *rng.pick(ALPHABET);
            }
            ("substitute".into(), v)
        }
        3 => {
            for _ in 0..rng.range(1, 3) {
                let k = rng.below(v.len() as u64 + 1) as usize;
                v.insert(k, *rng.pick(ALPHABET));
            }
            ("insert".into(), v)
        }
        4 => {
            for _ in 0..rng.range(1, 3) {
                if v.is_empty() {
                    break;
                }
                let k = rng.below(v.len() as u64) as usize;
                v.remove(k);
            }
            ("delete".into(), v)
        }
        5 => {
            // a markup fragment dropped somewhere
            let frag: &[u8] = *rng.pick(&[
                &b"<!-->"[..], b"<!--->", b"<!---->", b"<!-- a -- b -->", b"<![CDATA[]]>", b"<![CDATA[ ]] > ]]>", b"<![cdata[x]]>",
                b"<!doctype x>", b"<!DOCTYPE>", b"<!DOCTYPE  >", b"<!DOCTYPE a [<!ELEMENT a (b)>]>", b"<!x>", b"<?>", b"<??>", b"<?a?>",
                b"<?xml?>", b"< a>", b"</ >", b"<>", b"</>", b"<a/ >", b"<a b>", b"<a b=>", b"<a b=c>", b"<a b='>", b"<a b=\"'>\"/>",
                b"<a b = 'x'c=\"y\"/>", b"<a =\"v\"/>", b"<a b=\"1\" b=\"2\"/>", b"</a b=\">\">", b"<a>", b"</a>", b"<a ='>'>",
            ]);
            let k = rng.below(v.len() as u64 + 1) as usize;
            v.splice(k..k, frag.iter().cloned());
            ("fragment".into(), v)
        }
        6 => {
            let mut w = vec![0xEF, 0xBB, 0xBF];
            if rng.chance(1, 4) {
                w.truncate(2);
            }
            w.extend_from_slice(&v);
            ("bom".into(), w)
        }
        7 => {
            let k = rng.below(v.len() as u64 + 1) as usize;
            v.insert(k, *rng.pick(&[0x80u8, 0xFF, 0xC3, 0x00, 0x1F]));
            ("non_utf8_or_control".into(), v)
        }
        _ => {
            // swap two adjacent bytes
            if v.len() >= 2 {
                let k = rng.below(v.len() as u64 - 1) as usize;
                v.swap(k, k + 1);
            }
            ("swap".into(), v)
        }
    }
}

pub fn run(rep: &mut Report) {
    let mut rng = Rng::new(rep.seed ^ 0xC10B).fork();
    let n = rep.budget(900, 10);
    let mut reqs: Vec<String> = vec![];
    // (label, bytes, expected answer of the implementation, what is compared)
    let mut meta: Vec<(String, Vec<u8>, String, &'static str)> = vec![];
    for i in 0..n {
        let mut g = G::new(rng.fork());
        let doc = gen_doc(&mut g, &if i % 3 == 0 { Cfg::full() } else { Cfg::small() });
        let xml = xml_of(&tokens(&lower(&doc)));
        let mut variants: Vec<(String, Vec<u8>)> = vec![("generated".into(), xml.clone())];
        for _ in 0..2 {
            variants.push(mutate_bytes(&mut rng, &xml));
        }
        for (label, bytes) in variants {
            rep.case(&format!("bytes {}", fhex(&bytes)), true);
            rep.count(&format!("bytes.{}", label));
            let qx = qx_events_marked(&bytes);
            let tok = if qx.is_empty() { "-".to_string() } else { qx.join(" ") };
            rep.count(if qx.last().map(|s| s == "x").unwrap_or(false) { "bytes.tokenizer.err" } else { "bytes.tokenizer.ok" });
            if qx.iter().any(|e| e.ends_with(",=")) {
                rep.count("bytes.attribute_syntax_error");
            }
            reqs.push(format!("jacocotok {}", fhex(&bytes)).trim_end().to_string());
            meta.push((label.clone(), bytes.clone(), tok, "tokenizer"));
            if std::str::from_utf8(&bytes).is_ok() {
                let imp = run_impl(&bytes);
                rep.count(&format!("bytes.parse.{}", imp.split(' ').take(if imp.starts_with("err") { 2 } else { 1 }).collect::<Vec<_>>().join(" ")));
                reqs.push(format!("jacocobytes {}", fhex(&bytes)).trim_end().to_string());
                meta.push((label, bytes, imp, "parser"));
            } else {
                rep.count("bytes.not_utf8(tokenizer only)");
            }
        }
    }
    let model = run_model_named("gm_c10", &reqs, &rep.workdir, "jacocobytes");
    for (((label, bytes, imp, what), mo), req) in meta.iter().zip(model.iter()).zip(reqs.iter()) {
        if imp != mo {
            rep.disagreements_checked += 1;
            rep.fail(
                "disagreement",
                None,
                format!(
                    "{}: {} differs from the Lean byte-level model (stream bytes.{})",
                    what,
                    if *what == "tokenizer" { "quick-xml's Reader (events / attribute lists)" } else { "parse_jacoco_xml_report(bytes)" },
                    label
                ),
                json!({"op": "jacoco.bytes", "what": what, "xml_hex": fhex(bytes), "xml": String::from_utf8_lossy(bytes),
                       "request": req, "impl": imp, "model": mo}),
            );
        }
    }
    rep.notes.push("bytes: generated documents and 2 byte-level mutations of each; quick-xml Reader events vs Jacoco.Bytes.events (all byte strings), parse_jacoco_xml_report vs Jacoco.Bytes.parseBytes (valid UTF-8 only)".into());
}

pub fn replay(rep: &mut Report, case: &serde_json::Value) {
    let bytes = unhex(case["xml_hex"].as_str().unwrap_or(""));
    let what = case["what"].as_str().unwrap_or("tokenizer");
    rep.case(&format!("bytes {}", fhex(&bytes)), true);
    let (req, imp) = if what == "tokenizer" {
        let qx = qx_events_marked(&bytes);
        (format!("jacocotok {}", fhex(&bytes)).trim_end().to_string(), if qx.is_empty() { "-".to_string() } else { qx.join(" ") })
    } else {
        (format!("jacocobytes {}", fhex(&bytes)).trim_end().to_string(), run_impl(&bytes))
    };
    let mo = run_model_named("gm_c10", &[req], &rep.workdir, "replay").remove(0);
    if imp != mo {
        rep.disagreements_checked += 1;
        rep.fail("disagreement", None, format!("{}: impl '{}' vs model '{}'", what, imp, mo), case.clone());
    }
    let _ = show_outcome;
}
