#![allow(dead_code)]
//! Concrete-syntax tree of a JaCoCo report: abstract content (names, numbers) + the serialisation
//! choices (`Shell`), the two serialisers (XML bytes / quick-xml event list in the driver
//! encoding) and the independent semantics `sem`.
use grcov::{CovResult, Function};

pub fn fhex(bs: &[u8]) -> String {
    const D: &[u8; 16] = b"0123456789abcdef";
    let mut s = Vec::with_capacity(bs.len() * 2);
    for b in bs {
        s.push(D[(b >> 4) as usize]);
        s.push(D[(b & 15) as usize]);
    }
    String::from_utf8(s).unwrap()
}

#[derive(Clone, Debug)]
pub struct Attr {
    pub key: String,
    /// raw bytes between the quotes (still escaped)
    pub raw: String,
    pub quote: char,
    /// whitespace before the key (non-empty)
    pub pre: String,
    /// "=" possibly surrounded by blanks
    pub eq: String,
}

#[derive(Clone, Debug)]
pub struct Shell {
    /// full (possibly prefixed) element name
    pub name: String,
    pub attrs: Vec<Attr>,
    /// `<a …/>`; only legal when the element has no children
    pub selfclose: bool,
    /// blanks before `>` / `/>` of the start tag
    pub tail: String,
    /// blanks before `>` of the end tag
    pub end_tail: String,
    /// malformed stream only: text put after the last attribute that quick-xml's attribute iterator
    /// cannot split (` junk`, ` x=`, ` y=unquoted`): `Some(Err(AttrError))` when the iteration
    /// reaches it – the event encoding marks it with one attribute of empty key and value (`,=`)
    pub broken: String,
}

impl Shell {
    pub fn local(&self) -> &str {
        local(&self.name)
    }
    pub fn attr(&self, key: &str) -> Option<&Attr> {
        self.attrs.iter().find(|a| a.key == key)
    }
    pub fn attr_mut(&mut self, key: &str) -> Option<&mut Attr> {
        self.attrs.iter_mut().find(|a| a.key == key)
    }
}

/// QName::local_name: what follows the first ':'
pub fn local(name: &str) -> &str {
    match name.find(':') {
        Some(i) => &name[i + 1..],
        None => name,
    }
}

/// generic markup node (what both serialisers work on)
#[derive(Clone, Debug)]
pub enum Node {
    Elem(Shell, Vec<Node>),
    /// character data (no '<')
    Text(String),
    /// complete comment / PI / decl / doctype / CDATA markup
    Other(String),
    /// malformed: an end tag that does not match the open element (tokenizer error)
    BadEnd(String),
}

// ---- abstract content, each node carrying its serialisation shell ---------------------------------
#[derive(Clone, Debug)]
pub struct Counter {
    pub ty: String,
    pub missed: u32,
    pub covered: u32,
    pub shell: Shell,
}
#[derive(Clone, Debug)]
pub enum MItem {
    Counter(Counter),
    Junk(Node),
}
#[derive(Clone, Debug)]
pub struct Method {
    pub name: String,
    /// `None`: the element has no `line` attribute (report.dtd: #IMPLIED)
    pub line: Option<u32>,
    pub shell: Shell,
    pub body: Vec<MItem>,
}
#[derive(Clone, Debug)]
pub enum CItem {
    Method(Method),
    Junk(Node),
}
#[derive(Clone, Debug)]
pub struct Class {
    pub fq: String,
    pub sfn: Option<String>,
    pub shell: Shell,
    pub body: Vec<CItem>,
}
#[derive(Clone, Debug)]
pub struct Line {
    pub nr: u32,
    pub mi: u64,
    pub ci: u64,
    pub mb: u64,
    pub cb: u64,
    pub shell: Shell,
}
#[derive(Clone, Debug)]
pub enum SItem {
    Line(Line),
    Junk(Node),
}
#[derive(Clone, Debug)]
pub struct Source {
    pub name: String,
    pub shell: Shell,
    pub body: Vec<SItem>,
}
#[derive(Clone, Debug)]
pub enum PItem {
    Class(Class),
    Source(Source),
    Junk(Node),
}
#[derive(Clone, Debug)]
pub struct Package {
    pub name: String,
    pub shell: Shell,
    pub body: Vec<PItem>,
}
#[derive(Clone, Debug)]
pub enum TItem {
    Package(Package),
    Junk(Node),
    /// `<report>` / `<group>` wrapper
    Wrap(Shell, Vec<TItem>),
}
#[derive(Clone, Debug)]
pub struct Doc {
    pub top: Vec<TItem>,
}

// ---- lowering to generic nodes ----------------------------------------------------------------------
fn lower_method(m: &Method) -> Node {
    Node::Elem(
        m.shell.clone(),
        m.body
            .iter()
            .map(|i| match i {
                MItem::Counter(c) => Node::Elem(c.shell.clone(), vec![]),
                MItem::Junk(n) => n.clone(),
            })
            .collect(),
    )
}
fn lower_class(c: &Class) -> Node {
    Node::Elem(
        c.shell.clone(),
        c.body
            .iter()
            .map(|i| match i {
                CItem::Method(m) => lower_method(m),
                CItem::Junk(n) => n.clone(),
            })
            .collect(),
    )
}
fn lower_source(s: &Source) -> Node {
    Node::Elem(
        s.shell.clone(),
        s.body
            .iter()
            .map(|i| match i {
                SItem::Line(l) => Node::Elem(l.shell.clone(), vec![]),
                SItem::Junk(n) => n.clone(),
            })
            .collect(),
    )
}
fn lower_package(p: &Package) -> Node {
    Node::Elem(
        p.shell.clone(),
        p.body
            .iter()
            .map(|i| match i {
                PItem::Class(c) => lower_class(c),
                PItem::Source(s) => lower_source(s),
                PItem::Junk(n) => n.clone(),
            })
            .collect(),
    )
}
fn lower_top(items: &[TItem]) -> Vec<Node> {
    items
        .iter()
        .map(|i| match i {
            TItem::Package(p) => lower_package(p),
            TItem::Junk(n) => n.clone(),
            TItem::Wrap(sh, b) => Node::Elem(sh.clone(), lower_top(b)),
        })
        .collect()
}
pub fn lower(doc: &Doc) -> Vec<Node> {
    lower_top(&doc.top)
}

// ---- tokens: the common ground of the two serialisers ---------------------------------------------
#[derive(Clone, Debug, PartialEq)]
pub enum Ev {
    /// Start / Empty / End with the event already in the driver encoding
    Markup(String),
    Text,
    Other,
    Bad,
}
#[derive(Clone, Debug)]
pub struct Tok {
    pub bytes: Vec<u8>,
    pub ev: Ev,
    /// Some(local name) when the token opens (+1) / closes (-1) an element
    pub open: Option<(String, i8)>,
}

fn start_tag(sh: &Shell, selfclose: bool) -> String {
    let mut s = format!("<{}", sh.name);
    for a in &sh.attrs {
        s.push_str(&a.pre);
        s.push_str(&a.key);
        s.push_str(&a.eq);
        s.push(a.quote);
        s.push_str(&a.raw);
        s.push(a.quote);
    }
    s.push_str(&sh.broken);
    s.push_str(&sh.tail);
    s.push_str(if selfclose { "/>" } else { ">" });
    s
}
fn start_event(sh: &Shell, selfclose: bool) -> String {
    let mut s = format!("{},{}", if selfclose { "e" } else { "s" }, fhex(sh.name.as_bytes()));
    for a in &sh.attrs {
        s.push(',');
        s.push_str(&fhex(a.key.as_bytes()));
        s.push('=');
        s.push_str(&fhex(a.raw.as_bytes()));
    }
    if !sh.broken.is_empty() {
        s.push_str(",=");
    }
    s
}

pub fn flatten(nodes: &[Node], out: &mut Vec<Tok>) {
    for n in nodes {
        match n {
            Node::Elem(sh, ch) => {
                let sc = sh.selfclose && ch.is_empty();
                out.push(Tok {
                    bytes: start_tag(sh, sc).into_bytes(),
                    ev: Ev::Markup(start_event(sh, sc)),
                    open: if sc { None } else { Some((sh.local().to_string(), 1)) },
                });
                if !sc {
                    flatten(ch, out);
                    out.push(Tok {
                        bytes: format!("</{}{}>", sh.name, sh.end_tail).into_bytes(),
                        ev: Ev::Markup(format!("c,{}", fhex(sh.name.as_bytes()))),
                        open: Some((sh.local().to_string(), -1)),
                    });
                }
            }
            Node::Text(t) => {
                if !t.is_empty() {
                    out.push(Tok { bytes: t.clone().into_bytes(), ev: Ev::Text, open: None });
                }
            }
            Node::Other(t) => out.push(Tok { bytes: t.clone().into_bytes(), ev: Ev::Other, open: None }),
            Node::BadEnd(name) => out.push(Tok {
                bytes: format!("</{}>", name).into_bytes(),
                ev: Ev::Bad,
                open: None,
            }),
        }
    }
}

pub fn tokens(nodes: &[Node]) -> Vec<Tok> {
    let mut v = vec![];
    flatten(nodes, &mut v);
    v
}

pub fn xml_of(toks: &[Tok]) -> Vec<u8> {
    let mut v = vec![];
    for t in toks {
        v.extend_from_slice(&t.bytes);
    }
    v
}

/// the event list quick-xml yields before Eof: adjacent text is ONE event, nothing after the first error
pub fn events_of(toks: &[Tok]) -> Vec<String> {
    let mut v: Vec<String> = vec![];
    let mut last_text = false;
    for t in toks {
        match &t.ev {
            Ev::Markup(s) => {
                v.push(s.clone());
                last_text = false;
            }
            Ev::Text => {
                if !last_text {
                    v.push("t".into());
                }
                last_text = true;
            }
            Ev::Other => {
                v.push("o".into());
                last_text = false;
            }
            Ev::Bad => {
                v.push("x".into());
                return v;
            }
        }
    }
    v
}

pub fn request_of(events: &[String]) -> String {
    let mut s = String::from("jacoco");
    for e in events {
        s.push(' ');
        s.push_str(e);
    }
    s
}

/// the same event list obtained from quick-xml itself (self-check of `events_of`); an attribute
/// syntax error (`Some(Err(AttrError))` of the iterator) is the marker `,=`, after which the tag's
/// list ends; the iteration runs `with_checks(false)` as the parser's does since /repo ae885a6
pub fn qx_events(xml: &[u8]) -> Option<Vec<String>> {
    use quick_xml::events::Event;
    let mut r = quick_xml::Reader::from_reader(xml);
    let c = r.config_mut();
    c.expand_empty_elements = false;
    c.trim_text(false);
    let mut buf = Vec::new();
    let mut out = vec![];
    fn enc(kind: &str, e: &quick_xml::events::BytesStart<'_>) -> Option<String> {
        let mut s = format!("{},{}", kind, fhex(e.name().into_inner()));
        for a in e.attributes().with_checks(false) {
            match a {
                Ok(a) => {
                    s.push(',');
                    s.push_str(&fhex(a.key.into_inner()));
                    s.push('=');
                    s.push_str(&fhex(&a.value));
                }
                Err(_) => {
                    s.push_str(",=");
                    break;
                }
            }
        }
        Some(s)
    }
    loop {
        match r.read_event_into(&mut buf) {
            Ok(Event::Eof) => break,
            Err(_) => {
                out.push("x".to_string());
                break;
            }
            Ok(Event::Start(ref e)) => out.push(enc("s", e)?),
            Ok(Event::Empty(ref e)) => out.push(enc("e", e)?),
            Ok(Event::End(ref e)) => out.push(format!("c,{}", fhex(e.name().into_inner()))),
            Ok(Event::Text(_)) => out.push("t".into()),
            Ok(_) => out.push("o".into()),
        }
        buf.clear();
    }
    Some(out)
}

// ---- the independent semantics -----------------------------------------------------------------------
pub fn packages_of<'a>(items: &'a [TItem], out: &mut Vec<&'a Package>) {
    for i in items {
        match i {
            TItem::Package(p) => out.push(p),
            TItem::Wrap(_, b) => packages_of(b, out),
            TItem::Junk(_) => {}
        }
    }
}

/// every (file record, Class#name) with the (line, executed) of each <method> that maps to it, in
/// document order, package by package: the raw material of the property clause "every <method>
/// of every <class> yields a function named Class#method … starting at the method's line
/// attribute and executed iff its METHOD counter has covered > 0"
pub fn methods_by_name(doc: &Doc) -> Vec<((usize, String, String), Vec<(Option<u32>, bool)>)> {
    let mut pkgs = vec![];
    packages_of(&doc.top, &mut pkgs);
    let mut out: Vec<((usize, String, String), Vec<(Option<u32>, bool)>)> = vec![];
    for (pi, p) in pkgs.iter().enumerate() {
        for it in &p.body {
            if let PItem::Class(c) = it {
                let short = c.fq.rsplit('/').next().unwrap().to_string();
                let top = short.split('$').next().unwrap().to_string();
                let file = c.sfn.clone().unwrap_or(format!("{}.java", top));
                for ci in &c.body {
                    if let CItem::Method(m) = ci {
                        let mut executed = false;
                        for mi in &m.body {
                            if let MItem::Counter(k) = mi {
                                if k.ty == "METHOD" {
                                    executed = k.covered > 0;
                                }
                            }
                        }
                        let key = (pi, file.clone(), format!("{}#{}", short, m.name));
                        match out.iter_mut().find(|(k, _)| *k == key) {
                            Some((_, v)) => v.push((m.line, executed)),
                            None => out.push((key, vec![(m.line, executed)])),
                        }
                    }
                }
            }
        }
    }
    out
}

/// some `<method>` has no `line` attribute
pub fn has_lineless_method(doc: &Doc) -> bool {
    methods_by_name(doc).iter().any(|(_, v)| v.iter().any(|(l, _)| l.is_none()))
}

/// some function name `Class#name` is yielded by more than one `<method>` on the same record
/// (overloads): outside the property's quantifier "methods with names unique within their class"
pub fn has_repeated_method_name(doc: &Doc) -> bool {
    methods_by_name(doc).iter().any(|(_, v)| v.len() > 1)
}

/// two `<method>` elements yield the same function name on the same record and disagree on
/// (line, executed): no single function can be what the property says of both
pub fn overload_conflict(doc: &Doc) -> Option<String> {
    methods_by_name(doc)
        .into_iter()
        .find(|(_, v)| v.iter().any(|x| *x != v[0]))
        .map(|((_, file, name), v)| format!("{} on {}: {:?}", name, file, v))
}

/// What the report means when every function name is unique on its record and every method has a
/// `line` (the abstract content only); for a repeated name the LAST method is kept, which is what
/// the parser does (see `overload_conflict` for the property's side of that case).
pub fn sem(doc: &Doc) -> Vec<(String, CovResult)> {
    let mut pkgs = vec![];
    packages_of(&doc.top, &mut pkgs);
    let mut out = vec![];
    for p in pkgs {
        // one record per distinct file name of the package
        let mut recs: Vec<(String, CovResult)> = vec![];
        fn rec<'a>(recs: &'a mut Vec<(String, CovResult)>, file: &str) -> &'a mut CovResult {
            if let Some(i) = recs.iter().position(|(f, _)| f == file) {
                return &mut recs[i].1;
            }
            recs.push((file.to_string(), CovResult::default()));
            &mut recs.last_mut().unwrap().1
        }
        for it in &p.body {
            match it {
                PItem::Class(c) => {
                    let short = c.fq.rsplit('/').next().unwrap().to_string();
                    let top = short.split('$').next().unwrap().to_string();
                    let file = c.sfn.clone().unwrap_or(format!("{}.java", top));
                    let r = rec(&mut recs, &file);
                    for ci in &c.body {
                        if let CItem::Method(m) = ci {
                            let mut executed = false;
                            for mi in &m.body {
                                if let MItem::Counter(k) = mi {
                                    if k.ty == "METHOD" {
                                        executed = k.covered > 0;
                                    }
                                }
                            }
                            r.functions.insert(
                                format!("{}#{}", short, m.name),
                                Function { start: m.line.unwrap_or(0), executed },
                            );
                        }
                    }
                }
                PItem::Source(s) => {
                    let r = rec(&mut recs, &s.name);
                    for si in &s.body {
                        if let SItem::Line(l) = si {
                            if l.mb + l.cb > 0 {
                                let mut v = vec![true; l.cb as usize];
                                v.extend(std::iter::repeat(false).take(l.mb as usize));
                                r.branches.insert(l.nr, v);
                            } else {
                                r.lines.insert(l.nr, if l.ci > 0 { 1 } else { 0 });
                            }
                        }
                    }
                }
                PItem::Junk(_) => {}
            }
        }
        for (f, r) in recs {
            let path = format!("{}/{}", p.name, f);
            out.push((path.trim_start_matches('/').to_string(), r));
        }
    }
    out
}

/// ≥1 class with ≥1 method AND ≥1 sourcefile with both a branch line and a statement line
pub fn nontrivial(doc: &Doc) -> bool {
    let mut pkgs = vec![];
    packages_of(&doc.top, &mut pkgs);
    let mut has_m = false;
    let mut has_s = false;
    for p in pkgs {
        for it in &p.body {
            match it {
                PItem::Class(c) => {
                    if c.body.iter().any(|i| matches!(i, CItem::Method(_))) {
                        has_m = true;
                    }
                }
                PItem::Source(s) => {
                    let br = s.body.iter().any(|i| matches!(i, SItem::Line(l) if l.mb + l.cb > 0));
                    let st = s.body.iter().any(|i| matches!(i, SItem::Line(l) if l.mb + l.cb == 0));
                    if br && st {
                        has_s = true;
                    }
                }
                _ => {}
            }
        }
    }
    has_m && has_s
}

// ---- shrinking support: remove the n-th item (pre-order) ---------------------------------------------
fn rm_m(b: &mut Vec<MItem>, n: &mut i64) -> bool {
    let mut i = 0;
    while i < b.len() {
        if *n == 0 {
            b.remove(i);
            return true;
        }
        *n -= 1;
        i += 1;
    }
    false
}
fn rm_c(b: &mut Vec<CItem>, n: &mut i64) -> bool {
    let mut i = 0;
    while i < b.len() {
        if *n == 0 {
            b.remove(i);
            return true;
        }
        *n -= 1;
        if let CItem::Method(m) = &mut b[i] {
            if rm_m(&mut m.body, n) {
                return true;
            }
        }
        i += 1;
    }
    false
}
fn rm_s(b: &mut Vec<SItem>, n: &mut i64) -> bool {
    let mut i = 0;
    while i < b.len() {
        if *n == 0 {
            b.remove(i);
            return true;
        }
        *n -= 1;
        i += 1;
    }
    false
}
fn rm_p(b: &mut Vec<PItem>, n: &mut i64) -> bool {
    let mut i = 0;
    while i < b.len() {
        if *n == 0 {
            b.remove(i);
            return true;
        }
        *n -= 1;
        let done = match &mut b[i] {
            PItem::Class(c) => rm_c(&mut c.body, n),
            PItem::Source(s) => rm_s(&mut s.body, n),
            PItem::Junk(_) => false,
        };
        if done {
            return true;
        }
        i += 1;
    }
    false
}
fn rm_t(b: &mut Vec<TItem>, n: &mut i64) -> bool {
    let mut i = 0;
    while i < b.len() {
        if *n == 0 {
            b.remove(i);
            return true;
        }
        *n -= 1;
        let done = match &mut b[i] {
            TItem::Package(p) => rm_p(&mut p.body, n),
            TItem::Wrap(_, w) => rm_t(w, n),
            TItem::Junk(_) => false,
        };
        if done {
            return true;
        }
        i += 1;
    }
    false
}
/// false when there is no n-th item
pub fn remove_nth(doc: &mut Doc, n: usize) -> bool {
    let mut k = n as i64;
    rm_t(&mut doc.top, &mut k)
}

pub fn shrink_doc(doc: &Doc, fails: &mut dyn FnMut(&Doc) -> bool) -> Doc {
    let mut cur = doc.clone();
    let mut budget = 4000;
    loop {
        let mut progressed = false;
        let mut i = 0;
        loop {
            let mut t = cur.clone();
            if !remove_nth(&mut t, i) {
                break;
            }
            budget -= 1;
            if budget <= 0 {
                return cur;
            }
            if fails(&t) {
                cur = t;
                progressed = true;
            } else {
                i += 1;
            }
        }
        if !progressed {
            return cur;
        }
    }
}
