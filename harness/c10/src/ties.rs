//! Helper ties: quick-xml `unescape`, Rust `str::parse::<u32/u64>`, `Archive::is_jacoco` (through
//! the real `grcov::producer` on a temp directory).
use crate::tree::fhex;
use corrlib::*;
use serde_json::json;

const UNESC_TOKENS: &[&str] = &[
    "&lt;", "&gt;", "&amp;", "&apos;", "&quot;", "&amp", "&#65;", "&#x1F600;", "&#0;", "&#xD800;", "&#xDFFF;", "&#xE000;",
    "&#x110000;", "&#x10FFFF;", "&bogus;", "&", ";", "&#+5;", "&#-5;", "&#x;", "&#;", "&;", "&#X41;", "&#x+41;",
    "&#4294967296;", "&#4294967295;", "&#x100000000;", "&#00065;", "&#x0000000041;", "&#xfffffffff;", "a", "é", "語", "😀",
    " ", "&lt", "lt;", "&#6 5;", "&#x4G;", "&LT;", "&#55296;", "&#55295;", "&#57343;", "&#57344;", "&#1114111;",
    "&#1114112;", "#", "x", "&#x41;", "&#x7f;", "&#128;", "&#x7FF;", "&#x800;", "&#xFFFF;", "&#x10000;", "&#xx41;",
    "&#0x41;", "&#٣;", "&amp;amp;", "&&", "&#", "&#x",
];

pub fn impl_unescape(s: &str) -> String {
    match quick_xml::escape::unescape(s) {
        Ok(r) => format!("some {}", fhex(r.as_bytes())).trim_end().to_string(),
        Err(_) => "none".to_string(),
    }
}

pub fn unescape_tie(rep: &mut Report, rng: &mut Rng) {
    let n = rep.budget(600, 10);
    let mut reqs = vec![];
    let mut outs = vec![];
    for i in 0..n {
        let s: String = if (i as usize) < UNESC_TOKENS.len() {
            UNESC_TOKENS[i as usize].to_string()
        } else {
            (0..rng.range(0, 5)).map(|_| *rng.pick(UNESC_TOKENS)).collect()
        };
        let out = impl_unescape(&s);
        rep.case(&format!("unescape {}", s), s.contains('&'));
        rep.count(if out == "none" { "unescape.none" } else { "unescape.some" });
        reqs.push(format!("unescape {}", fhex(s.as_bytes())).trim_end().to_string());
        outs.push(out);
    }
    let model = run_model_named("gm_c10", &reqs, &rep.workdir, "unescape");
    for i in 0..reqs.len() {
        if model[i] != outs[i] {
            rep.disagreements_checked += 1;
            rep.fail(
                "disagreement",
                None,
                "quick_xml::escape::unescape differs from Jacoco.unescape".into(),
                json!({"op": "unescape", "request": reqs[i], "impl": outs[i], "model": model[i]}),
            );
        }
    }
}

const NUM_TOKENS: &[&str] = &[
    "", "+", "-", "0", "1", "7", "9", "00", "42", "4294967295", "4294967296", "4294967294", "18446744073709551615",
    "18446744073709551616", "18446744073709551614", "99999999999999999999999", " ", "a", "_", ".", "٣", "１", "e", "x",
    "+0", "-0", "+-", "&#51;", "\t", "000000000000000000000000",
];

pub fn impl_parsenum(w: u32, s: &str) -> String {
    let r: Option<u64> = if w == 32 { s.parse::<u32>().ok().map(|v| v as u64) } else { s.parse::<u64>().ok() };
    match r {
        Some(v) => format!("some {}", v),
        None => "none".to_string(),
    }
}

pub fn parsenum_tie(rep: &mut Report, rng: &mut Rng) {
    let n = rep.budget(600, 10);
    let mut reqs = vec![];
    let mut outs = vec![];
    for i in 0..n {
        let s: String = if (i as usize) < NUM_TOKENS.len() {
            NUM_TOKENS[i as usize].to_string()
        } else if rng.chance(1, 2) {
            (0..rng.range(1, 3)).map(|_| *rng.pick(NUM_TOKENS)).collect()
        } else {
            // digits around the bounds
            let len = *rng.pick(&[1u64, 5, 9, 10, 11, 19, 20, 21]);
            let mut s: String = (0..len).map(|_| (b'0' + rng.below(10) as u8) as char).collect();
            if rng.chance(1, 6) {
                s.insert(0, '+');
            }
            s
        };
        let w = if rng.chance(1, 2) { 32 } else { 64 };
        let out = impl_parsenum(w, &s);
        rep.case(&format!("parsenum {} {}", w, s), true);
        rep.count(if out == "none" { "parsenum.none" } else { "parsenum.some" });
        reqs.push(format!("parsenum {} {}", w, fhex(s.as_bytes())).trim_end().to_string());
        outs.push(out);
    }
    let model = run_model_named("gm_c10", &reqs, &rep.workdir, "parsenum");
    for i in 0..reqs.len() {
        if model[i] != outs[i] {
            rep.disagreements_checked += 1;
            rep.fail(
                "disagreement",
                None,
                "str::parse::<u32/u64> differs from Jacoco.parseUnsigned".into(),
                json!({"op": "parsenum", "request": reqs[i], "impl": outs[i], "model": model[i]}),
            );
        }
    }
}

/// the real sniffing: does `producer` hand the file out as a JaCoCo work item?
pub fn impl_isjacoco(bytes: &[u8], workdir: &std::path::Path) -> String {
    let dir = tempfile::Builder::new().prefix("isj").tempdir_in(workdir).unwrap();
    let input = dir.path().join("in");
    let tmp = dir.path().join("tmp");
    std::fs::create_dir_all(&input).unwrap();
    std::fs::create_dir_all(&tmp).unwrap();
    std::fs::write(input.join("r.xml"), bytes).unwrap();
    std::fs::write(input.join("a.info"), b"TN:\nSF:a\nend_of_record\n").unwrap();
    let (sender, receiver) = crossbeam_channel::unbounded();
    let dir_string = input.to_string_lossy().to_string();
    let r = guarded(move || {
        grcov::producer(&tmp, &[dir_string], &sender, false, false);
        drop(sender);
    });
    if r.is_err() {
        return "panic".to_string();
    }
    let mut jacoco = 0;
    let mut info = 0;
    while let Ok(Some(item)) = receiver.try_recv() {
        match item.format {
            grcov::ItemFormat::JacocoXml => {
                // it must be our file, unchanged
                match item.item {
                    grcov::ItemType::Content(ref b) if b == bytes => jacoco += 1,
                    _ => return "wrong-content".to_string(),
                }
            }
            grcov::ItemFormat::Info => info += 1,
            _ => return "other-item".to_string(),
        }
    }
    if info != 1 {
        return format!("info-items-{}", info);
    }
    jacoco.to_string()
}

const MARKER: &[u8] = b"-//JACOCO//DTD";

pub fn isjacoco_candidate(rng: &mut Rng, sample_xml: &[u8]) -> (Vec<u8>, &'static str) {
    let doctype: &[u8] = b"<!DOCTYPE report PUBLIC \"-//JACOCO//DTD Report 1.1//EN\" \"report.dtd\">";
    let pad = |v: &mut Vec<u8>, n: usize| {
        while v.len() < n {
            v.push(b' ');
        }
    };
    match rng.below(10) {
        0 => (sample_xml.to_vec(), "generated_report"),
        1 => {
            // generated report padded / truncated around 256 bytes
            let mut v = sample_xml.to_vec();
            let n = *rng.pick(&[255usize, 256, 257, 300]);
            pad(&mut v, n);
            v.truncate(n);
            (v, "generated_len_255_256_257")
        }
        2 => {
            // short file: marker present but fewer than 256 bytes (accepted since 82d1c8b: read whole)
            let mut v = b"<?xml version=\"1.0\"?>".to_vec();
            v.extend_from_slice(doctype);
            let n = rng.range(v.len() as u64, 255) as usize;
            pad(&mut v, n);
            (v, "short_with_marker")
        }
        3 => {
            // marker at a chosen offset near the 256-byte boundary
            let off = *rng.pick(&[0usize, 100, 240, 241, 242, 243, 245, 250, 255, 256, 257, 300]);
            let mut v = vec![];
            pad(&mut v, off);
            v.extend_from_slice(MARKER);
            let n = *rng.pick(&[256usize, 257, 400]);
            pad(&mut v, n);
            (v, "marker_near_byte_256")
        }
        4 => {
            // a multi-byte character straddling byte 256 (the first 256 bytes are not UTF-8: irrelevant since 82d1c8b)
            let mut v = doctype.to_vec();
            let ch = *rng.pick(&["é", "語", "😀"]);
            let back = rng.range(1, ch.len() as u64 - 1) as usize;
            pad(&mut v, 256 - back);
            v.extend_from_slice(ch.as_bytes());
            pad(&mut v, 300);
            (v, "utf8_char_straddles_256")
        }
        5 => {
            // a multi-byte character ending exactly at byte 256 / non-ASCII inside
            let mut v = doctype.to_vec();
            let ch = *rng.pick(&["é", "語", "😀"]);
            pad(&mut v, 256 - ch.len());
            v.extend_from_slice(ch.as_bytes());
            pad(&mut v, *rng.pick(&[256usize, 290]));
            (v, "utf8_char_ends_at_256")
        }
        6 => {
            // invalid UTF-8 in the first 256 bytes
            let mut v = doctype.to_vec();
            pad(&mut v, 300);
            let at = rng.below(256) as usize;
            v[at] = *rng.pick(&[0xffu8, 0x80, 0xc0, 0xc1, 0xf5, 0xed]);
            (v, "invalid_utf8_in_head")
        }
        7 => {
            // invalid UTF-8 only after byte 256
            let mut v = doctype.to_vec();
            pad(&mut v, 300);
            let at = rng.range(256, 299) as usize;
            v[at] = 0xff;
            (v, "invalid_utf8_after_head")
        }
        8 => {
            // no marker / nearly the marker
            let mut v = b"<?xml version=\"1.0\"?><!DOCTYPE report PUBLIC \"".to_vec();
            v.extend_from_slice(*rng.pick(&[
                &b"-//JACOCO//DT"[..],
                &b"-//jacoco//DTD"[..],
                &b"-/JACOCO//DTD"[..],
                &b"//JACOCO//DTD"[..],
                &b"-//JACOCO//DTD"[..],
            ]));
            pad(&mut v, 280);
            (v, "near_marker")
        }
        _ => {
            let v = match rng.below(6) {
                0 => vec![],
                1 => MARKER.to_vec(),
                2 => {
                    // short file that ends in the middle of the marker (read whole since 82d1c8b)
                    let mut v = vec![b'y'; rng.below(40) as usize];
                    v.extend_from_slice(&MARKER[..rng.range(1, 13) as usize]);
                    v
                }
                3 => {
                    // short file, marker is its last bytes; sometimes non-UTF-8 bytes before it
                    let mut v = vec![if rng.chance(1, 2) { 0xff } else { b'z' }; rng.below(200) as usize];
                    v.extend_from_slice(MARKER);
                    v
                }
                4 => {
                    // marker ending one byte past the 256-byte window
                    let mut v = vec![b'x'; 257];
                    v[243..257].copy_from_slice(MARKER);
                    v
                }
                _ => {
                    let mut v = vec![b'x'; 256];
                    v[242..256].copy_from_slice(MARKER);
                    v
                }
            };
            (v, "edge")
        }
    }
}

pub fn isjacoco_tie(rep: &mut Report, rng: &mut Rng, samples: &[Vec<u8>]) {
    let n = rep.budget(150, 6);
    let mut reqs = vec![];
    let mut outs = vec![];
    for _ in 0..n {
        let sample: &[u8] = if samples.is_empty() { b"<report/>" } else { &samples[rng.below(samples.len() as u64) as usize] };
        let (bytes, label) = isjacoco_candidate(rng, sample);
        let out = impl_isjacoco(&bytes, &rep.workdir);
        rep.case(&format!("isjacoco {}", fhex(&bytes)), true);
        rep.count(&format!("isjacoco.{}.{}", label, out));
        reqs.push(format!("isjacoco {}", fhex(&bytes)).trim_end().to_string());
        outs.push(out);
    }
    let model = run_model_named("gm_c10", &reqs, &rep.workdir, "isjacoco");
    for i in 0..reqs.len() {
        if model[i] != outs[i] {
            rep.disagreements_checked += 1;
            rep.fail(
                "disagreement",
                None,
                "Archive::is_jacoco (through producer) differs from Jacoco.isJacoco".into(),
                json!({"op": "isjacoco", "request": reqs[i], "impl": outs[i], "model": model[i]}),
            );
        }
    }
}
