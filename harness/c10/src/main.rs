//! C10 — JaCoCo XML report fidelity.
//! (1) property oracle: `parse_jacoco_xml_report(render tree) = sem tree` on generated well-formed
//!     report trees (all serialisation choices drawn from the rng), with shrinking – judged only
//!     inside the property's quantifier (method names unique within their class, every method with
//!     a `line`); trees with overloaded or line-less methods are generated all the same, tied to
//!     the model, and counted as observation.overload / observation.noline;
//! (2) tie of the real parser to the Lean event-level model `Jacoco.parse` (driver gm_c10) on the
//!     well-formed stream and on a malformed stream (tree-level mutations, stray end tags, cuts);
//!     the tree -> event-list serialiser is itself checked against quick-xml's tokenizer;
//! (3) helper ties: unescape, parse::<u32/u64>, is_jacoco through the real producer;
//! (4) corpus: the witnesses of the former hang (EOF inside a nested element; fixed in /repo
//!     34e25d5: now `err Parse`) re-checked in a child process with a wall-clock limit – a
//!     recurrence is a plain violation; one named finding (cb/mb are allocation sizes,
//!     C14-jacoco-branch-vector-alloc) observed in a child process and, as the capacity-overflow
//!     panic of cb >= 2^63, in-process (corpus witness `big`).
mod bytes;
mod gen;
mod mal;
mod ties;
mod tree;

use corrlib::*;
use gen::*;
use mal::*;
use serde_json::{json, Value};
use std::io::{BufReader, Cursor};
use std::path::{Path, PathBuf};
use std::process::{Child, Command, Stdio};
use std::sync::Mutex;
use std::time::{Duration, Instant};
use tree::*;

const F_ALLOC: &str = "C14-jacoco-branch-vector-alloc";

/// Observations OUTSIDE the property's quantifier ("methods with names unique within their class",
/// "the method's line attribute"): such documents are generated, run on the real parser and tied
/// to the model, but the property oracle does not judge them; they are counted as
/// `observation.overload` / `observation.noline` (Lean: C10_fidelity_overloads,
/// C10_repeated_method_last_wins, C10_method_without_line_rejects_the_report; witnesses exOverload,
/// exNoLine = the corpus cases `overload` and `noline` below).
const OBS_OVERLOAD: &str = "observation.overload";
const OBS_NOLINE: &str = "observation.noline";
/// an in-process parse that takes longer than this is reported by the watchdog
const INPROC_LIMIT_S: u64 = 10;

pub fn show_outcome(r: &Result<Result<Vec<(String, grcov::CovResult)>, grcov::ParserError>, String>) -> String {
    match r {
        Ok(Ok(rs)) => format!("ok {}", show_results(rs)).trim_end().to_string(),
        Ok(Err(e)) => format!(
            "err {}",
            match e {
                grcov::ParserError::Io(_) => "Io",
                grcov::ParserError::Parse(_) => "Parse",
                grcov::ParserError::InvalidRecord(_) => "InvalidRecord",
                grcov::ParserError::InvalidData(_) => "InvalidData",
            }
        ),
        Err(_) => "panic".to_string(),
    }
}

// ---- watchdog: the real parser has loops without an Eof arm; never let it stall the harness -----
struct Watch {
    current: Option<(Instant, Vec<u8>)>,
    tier: String,
    seed: u64,
    workdir: PathBuf,
    done: u64,
}
static WATCH: Mutex<Option<Watch>> = Mutex::new(None);

fn start_watchdog(rep: &Report) {
    *WATCH.lock().unwrap() =
        Some(Watch { current: None, tier: rep.tier.clone(), seed: rep.seed, workdir: rep.workdir.clone(), done: 0 });
    std::thread::spawn(|| loop {
        std::thread::sleep(Duration::from_millis(250));
        let g = WATCH.lock().unwrap();
        if let Some(w) = g.as_ref() {
            if let Some((t, xml)) = &w.current {
                if t.elapsed() > Duration::from_secs(INPROC_LIMIT_S) {
                    let res = json!({
                        "property": "C10", "tier": w.tier, "seed": w.seed, "evaluations": w.done + 1,
                        "distinct_nontrivial": 0,
                        "rule": "aborted by the harness watchdog: an in-process call of parse_jacoco_xml_report did not return",
                        "samples": [], "distribution": {"watchdog.inprocess_parse_stalled": 1},
                        "disagreements_checked": 0,
                        "notes": ["the run was cut short by the watchdog; only the stalling input is reported"],
                        "findings_seen": [],
                        "failures": [{
                            "kind": "oracle", "finding": null,
                            "what": format!("parse_jacoco_xml_report did not return within {} s on an input whose elements are all closed (or which ends in a tokenizer error)", INPROC_LIMIT_S),
                            "case": {"op": "jacoco", "stream": "watchdog", "child": true, "xml_hex": fhex(xml),
                                     "xml": String::from_utf8_lossy(xml), "spec": "returns"}
                        }],
                    });
                    let p = w.workdir.join("result.json");
                    std::fs::write(&p, serde_json::to_string_pretty(&res).unwrap()).unwrap();
                    println!("result {}", p.display());
                    std::process::exit(0);
                }
            }
        }
    });
}

pub fn run_impl(bytes: &[u8]) -> String {
    if let Some(w) = WATCH.lock().unwrap().as_mut() {
        w.current = Some((Instant::now(), bytes.to_vec()));
    }
    let b = bytes.to_vec();
    let r = show_outcome(&guarded(move || grcov::parse_jacoco_xml_report(BufReader::new(Cursor::new(b)))));
    if let Some(w) = WATCH.lock().unwrap().as_mut() {
        w.current = None;
        w.done += 1;
    }
    r
}

// ---- child processes -----------------------------------------------------------------------------------
struct Pending {
    child: Child,
    started: Instant,
    timeout: Duration,
    out_path: PathBuf,
}

fn spawn_child(mode: &str, bytes: &[u8], workdir: &Path, tag: &str, timeout_ms: u64) -> Pending {
    let in_path = workdir.join(format!("{}.xml", tag));
    let out_path = workdir.join(format!("{}.out", tag));
    std::fs::write(&in_path, bytes).unwrap();
    let out = std::fs::File::create(&out_path).unwrap();
    let child = Command::new(std::env::current_exe().unwrap())
        .arg(mode)
        .arg(&in_path)
        .arg("--limit-ms")
        .arg((timeout_ms + 3000).to_string())
        .stdin(Stdio::null())
        .stdout(Stdio::from(out))
        .stderr(Stdio::null())
        .spawn()
        .expect("cannot re-exec the harness binary");
    Pending { child, started: Instant::now(), timeout: Duration::from_millis(timeout_ms), out_path }
}

/// the child's answer line; "diverge" when it had to be killed; "crash <status>" otherwise
fn harvest(mut p: Pending) -> String {
    loop {
        match p.child.try_wait() {
            Ok(Some(st)) => {
                let text = std::fs::read_to_string(&p.out_path).unwrap_or_default();
                let line = text.lines().next().unwrap_or("").to_string();
                if st.success() && !line.is_empty() {
                    return line;
                }
                if st.code() == Some(3) {
                    // the child's own limit fired (we looked late): it was still parsing
                    return "diverge".to_string();
                }
                return format!("crash {:?}", st.code());
            }
            Ok(None) => {
                if p.started.elapsed() > p.timeout {
                    let _ = p.child.kill();
                    let _ = p.child.wait();
                    return "diverge".to_string();
                }
                std::thread::sleep(Duration::from_millis(20));
            }
            Err(_) => return "crash wait".to_string(),
        }
    }
}

fn child_main(args: &[String]) {
    // self-destruct: a child never outlives its limit even if the parent is gone
    let mut limit = 10_000u64;
    if args.len() >= 5 && args[3] == "--limit-ms" {
        limit = args[4].parse().unwrap_or(limit);
    }
    std::thread::spawn(move || {
        std::thread::sleep(Duration::from_millis(limit));
        std::process::exit(3);
    });
    install_panic_hook();
    let bytes = std::fs::read(&args[2]).unwrap();
    if args[1] == "--child-parse" {
        println!("{}", run_impl(&bytes));
    } else {
        // --child-alloc: only the size of what was built
        let b = bytes.clone();
        match guarded(move || grcov::parse_jacoco_xml_report(BufReader::new(Cursor::new(b)))) {
            Ok(Ok(rs)) => {
                let n: usize = rs.iter().map(|(_, c)| c.branches.values().map(|v| v.len()).sum::<usize>()).sum();
                println!("entries {}", n);
            }
            Ok(Err(_)) => println!("err"),
            Err(_) => println!("panic"),
        }
    }
}

// ---- cases ---------------------------------------------------------------------------------------------
struct Case {
    stream: String,
    xml: Vec<u8>,
    request: String,
    /// expected outcome by the property (well-formed cases)
    spec: Option<String>,
    /// observation of the real parser; filled late for child cases
    imp: String,
    child: bool,
    timeout_ms: u64,
}

fn c_clone(c: &Case) -> Case {
    Case { stream: c.stream.clone(), xml: c.xml.clone(), request: c.request.clone(), spec: c.spec.clone(), imp: c.imp.clone(), child: c.child, timeout_ms: c.timeout_ms }
}

fn case_json(c: &Case, model: &str) -> Value {
    json!({"op": "jacoco", "stream": c.stream, "child": c.child, "timeout_ms": c.timeout_ms,
           "xml_hex": fhex(&c.xml), "xml": String::from_utf8_lossy(&c.xml), "request": c.request,
           "spec": c.spec, "impl": c.imp, "model": model})
}

/// what the CODE is expected to return (model-free): a `<method>` without `line` rejects the
/// report; a repeated function name keeps its last method. Both cases are outside the property's
/// quantifier (`outside_quantifier`): there this value is only what the model tie is expected to show.
fn spec_of(doc: &Doc) -> String {
    if has_lineless_method(doc) {
        return "err InvalidRecord".to_string();
    }
    format!("ok {}", show_results(&sem(doc))).trim_end().to_string()
}

/// is the document inside the property's quantifier? `Some(label)` when it is not
fn outside_quantifier(doc: &Doc) -> Option<&'static str> {
    if has_lineless_method(doc) {
        Some(OBS_NOLINE)
    } else if has_repeated_method_name(doc) {
        Some(OBS_OVERLOAD)
    } else {
        None
    }
}

/// fixed witnesses of the two observations outside the quantifier (counted, tied to the model, not
/// judged) and of the capacity-overflow panic (known finding C14-jacoco-branch-vector-alloc), run
/// on the real parser and sent to the model like every other case
fn corpus_findings(rep: &mut Report, cases: &mut Vec<Case>) {
    let overload: &[u8] = b"<report name=\"r\"><package name=\"p\"><class name=\"p/A\" sourcefilename=\"A.java\"><method name=\"&lt;init&gt;\" desc=\"(I)V\" line=\"3\"><counter type=\"METHOD\" missed=\"0\" covered=\"1\"/></method><method name=\"&lt;init&gt;\" desc=\"()V\" line=\"7\"><counter type=\"METHOD\" missed=\"1\" covered=\"0\"/></method></class></package></report>";
    let noline: &[u8] = b"<report name=\"r\"><package name=\"p\"><class name=\"p/A\" sourcefilename=\"A.java\"><method name=\"m\" desc=\"()V\"/></class></package></report>";
    let big: &[u8] = b"<report name=\"r\"><package name=\"p\"><sourcefile name=\"A.java\"><line nr=\"1\" mi=\"0\" ci=\"0\" mb=\"0\" cb=\"18446744073709551615\"/></sourcefile></package></report>";
    let mut last_wins = grcov::CovResult::default();
    last_wins.functions.insert("A#<init>".to_string(), grcov::Function { start: 7, executed: false });
    let want_overload = format!("ok {}", show_results(&[("p/A.java".to_string(), last_wins)])).trim_end().to_string();
    for (name, xml, expected, finding, what) in [
        ("overload", overload, want_overload.as_str(), None,
         "observation (Lean: exOverload): <init>(I)V at line 3, executed, followed by <init>()V at line 7, not executed, is reported as ONE function A#<init>, line 7, not executed"),
        ("noline", noline, "err InvalidRecord", None,
         "observation (Lean: exNoLine): <method name=\"m\" desc=\"()V\"/> (no `line`: class without debug information) makes the whole report Err(InvalidRecord)"),
        ("big", big, "panic", Some(F_ALLOC),
         "corpus witness (Lean: exBig): cb=\"18446744073709551615\" makes `vec![true; cb as usize]` panic with 'capacity overflow' (the same allocation site as the memory finding; a crash, not only memory)"),
    ] {
        let imp = run_impl(xml);
        rep.case(&format!("corpus.{} {}", name, fhex(xml)), true);
        rep.count(&format!("corpus.{}.{}", name, imp.split(' ').take(2).collect::<Vec<_>>().join(" ")));
        let events = qx_events(xml).unwrap_or_default();
        match finding {
            Some(id) if imp == expected => rep.fail(
                "oracle",
                Some(id),
                what.to_string(),
                json!({"op": "finding.c10", "finding": id, "xml_hex": fhex(xml), "xml": String::from_utf8_lossy(xml),
                       "request": request_of(&events), "impl": imp}),
            ),
            Some(_) => rep.count(&format!("corpus.{}.absent", name)),
            None => {
                // outside the quantifier: recorded, not judged; a change of behaviour shows up here
                // (and in the tie, since the model says `expected`)
                rep.count(if name == "overload" { OBS_OVERLOAD } else { OBS_NOLINE });
                if imp != expected {
                    rep.count(&format!("corpus.{}.behaviour_changed", name));
                    rep.notes.push(format!("{} – now gives '{}'", what, imp));
                }
            }
        }
        cases.push(Case { stream: format!("corpus.{}", name), request: request_of(&events), xml: xml.to_vec(), spec: None, imp, child: false, timeout_ms: 0 });
    }
}
/// corpus/C10/*.json: minimised past failures (`case.xml_hex`, the outcome the property calls for in
/// `case.spec`, `case.tie` = whether the bytes are inside the model: valid UTF-8), replayed first;
/// each must hold on the current tree and, when tied, agree with the model
fn corpus_files(rep: &mut Report, cases: &mut Vec<Case>) {
    let mut files: Vec<PathBuf> = std::fs::read_dir("/verif/corpus/C10")
        .map(|d| d.filter_map(|e| e.ok().map(|e| e.path())).collect())
        .unwrap_or_default();
    files.retain(|p| p.extension().map(|e| e == "json").unwrap_or(false));
    files.sort();
    for p in files {
        let v: Value = match std::fs::read_to_string(&p).ok().and_then(|t| serde_json::from_str(&t).ok()) {
            Some(v) => v,
            None => {
                rep.notes.push(format!("corpus file {} is not JSON", p.display()));
                continue;
            }
        };
        let case = &v["case"];
        let (Some(xh), Some(spec)) = (case["xml_hex"].as_str(), case["spec"].as_str()) else {
            rep.notes.push(format!("corpus file {} is not a C10 jacoco case", p.display()));
            continue;
        };
        let xml = unhex(xh);
        let imp = run_impl(&xml);
        rep.case(&format!("corpus.file {}", xh), true);
        rep.count("corpus.files");
        if imp != spec {
            rep.fail(
                "oracle",
                None,
                format!("corpus case {}: parse_jacoco_xml_report gives '{}' instead of '{}'", p.display(), imp, spec),
                case.clone(),
            );
        }
        if case["tie"].as_bool().unwrap_or(false) {
            let events = qx_events(&xml).unwrap_or_default();
            cases.push(Case { stream: "corpus.file".into(), request: request_of(&events), xml, spec: Some(spec.to_string()), imp, child: false, timeout_ms: 0 });
        }
    }
}
fn render(doc: &Doc) -> Vec<u8> {
    xml_of(&tokens(&lower(doc)))
}
/// the property oracle: judged only inside the quantifier
fn oracle_fails(doc: &Doc) -> bool {
    outside_quantifier(doc).is_none() && run_impl(&render(doc)) != spec_of(doc)
}

fn self_check(rep: &mut Report, stream: &str, xml: &[u8], events: &[String]) {
    let qx = qx_events(xml);
    if qx.as_deref() != Some(events) {
        rep.count("harness.serialiser_mismatch");
        rep.fail(
            "disagreement",
            None,
            "HARNESS: the tree->event serialiser and quick-xml's tokenizer disagree on this text (the model would be fed the wrong events)".into(),
            json!({"op": "events", "stream": stream, "xml_hex": fhex(xml), "xml": String::from_utf8_lossy(xml),
                   "harness_events": events, "quick_xml_events": qx}),
        );
    }
}

fn check_oracle(rep: &mut Report, doc: &Doc, shrunk: &mut u32) -> bool {
    if !oracle_fails(doc) {
        return true;
    }
    let min = if *shrunk < 5 {
        *shrunk += 1;
        shrink_doc(doc, &mut |d| oracle_fails(d))
    } else {
        doc.clone()
    };
    let toks = tokens(&lower(&min));
    let xml = xml_of(&toks);
    let c = Case {
        stream: "wellformed".into(),
        request: request_of(&events_of(&toks)),
        spec: Some(spec_of(&min)),
        imp: run_impl(&xml),
        xml,
        child: false,
        timeout_ms: 0,
    };
    rep.fail(
        "oracle",
        None,
        "parse_jacoco_xml_report(XML of the report tree) differs from what the report says (minimised)".into(),
        case_json(&c, ""),
    );
    false
}

pub fn run(rep: &mut Report) {
    rep.rule = "JaCoCo report trees (1-3 packages, 0-4 classes incl. nested / several per file / fallback file name, 0-4 \
                methods with entity-worthy names, overloaded (repeated) names in 1/12 of the further methods of a class, 1/150 without `line` (both outside the property's quantifier: counted as observation.overload / observation.noline, tied to the model, not judged by the oracle), 0-3 sourcefiles, 0-8 lines with all (mb+cb>0, ci>0) combinations, groups, \
                session info, counters at every level, comments/PI/CDATA/text) serialised with random attribute order, extra \
                attributes, quotes, entity/charref escaping, empty-element vs start/end, prefixes, whitespace; each compared \
                with the independent semantics (oracle) and with the Lean event model; plus a malformed stream (one \
                tree-level mutation: dropped/duplicated/prefixed attributes, bad numbers, bad entities, duplicates, \
                misplaced elements, stray end tags, cb/mb >= 2^63 (capacity-overflow panic = the model's alloc outcome), cuts inside a tag or text, truncation outside and inside a package (the latter must be Err(Parse))) for the tie, and helper ties (unescape, \
                parse number, is_jacoco via producer). non-trivial (well-formed) = >=1 class with >=1 method and >=1 \
                sourcefile with both a branch line and a statement line; malformed cases count as non-trivial; distinct = \
                distinct XML bytes"
        .to_string();
    start_watchdog(rep);
    // Rng::new(s+1) is Rng::new(s) advanced by one step: continue from a mixed output so that
    // neighbouring seeds give unrelated streams
    let mut rng = Rng::new(rep.seed ^ 0xC10).fork();
    let no_model = std::env::var("VERIF_NO_MODEL").is_ok();

    // ---- corpus witnesses and the named finding: start their children now, look at them at the end ------------------
    let hang_witness: Vec<u8> = b"<report><package name=\"p\"><class name=\"A\">".to_vec();
    let mut hang_children: Vec<(String, Vec<u8>, Pending)> = vec![];
    let p = spawn_child("--child-parse", &hang_witness, &rep.workdir, "hang0", 5000);
    hang_children.push(("minimal".into(), hang_witness.clone(), p));
    match std::fs::read("/repo/test/jacoco/basic-report.xml") {
        Ok(fx) => {
            if let Some(pos) = fx.windows(9).position(|w| w == b"</method>") {
                let cut = fx[..pos + 9].to_vec();
                let p = spawn_child("--child-parse", &cut, &rep.workdir, "hang1", 5000);
                hang_children.push(("basic-report.xml cut after the first </method>".into(), cut, p));
            }
        }
        Err(_) => rep.notes.push("fixture /repo/test/jacoco/basic-report.xml not found".into()),
    }
    let alloc_witness: Vec<u8> = b"<report name=\"r\"><package name=\"p\"><sourcefile name=\"A.java\"><line nr=\"1\" mi=\"0\" ci=\"1\" mb=\"0\" cb=\"50000000\"/></sourcefile></package></report>".to_vec();
    let alloc_child = spawn_child("--child-alloc", &alloc_witness, &rep.workdir, "alloc0", 20000);

    let mut cases: Vec<Case> = vec![];
    let mut isj_samples: Vec<Vec<u8>> = vec![];
    corpus_files(rep, &mut cases);
    corpus_findings(rep, &mut cases);

    // ---- truncation between elements inside a package: `err Parse` since 34e25d5 (in-process, under
    // the watchdog: a recurrence of the endless loop is reported by it as an oracle failure) ----------
    let n_trunc = rep.budget(400, 10);
    let mut made = 0;
    while made < n_trunc {
        let mut g = G::new(rng.fork());
        let doc = gen_doc(&mut g, &Cfg::small());
        let toks = tokens(&lower(&doc));
        let ks: Vec<usize> = (1..toks.len()).filter(|&k| package_open_at(&toks, k)).collect();
        if ks.is_empty() {
            continue;
        }
        let k = ks[rng.below(ks.len() as u64) as usize];
        let mut t: Vec<Tok> = toks[..k].to_vec();
        if rng.chance(1, 3) {
            t.push(Tok { bytes: b"\n  ".to_vec(), ev: Ev::Text, open: None });
        }
        let xml = xml_of(&t);
        let events = events_of(&t);
        self_check(rep, "trunc.inside_package", &xml, &events);
        let imp = run_impl(&xml);
        rep.case(&fhex(&xml), true);
        rep.count("malformed.mutation.trunc.inside_package");
        let c = Case {
            stream: "trunc.inside_package".into(),
            request: request_of(&events),
            xml,
            spec: None,
            imp,
            child: false,
            timeout_ms: 0,
        };
        if c.imp != "err Parse" {
            rep.fail(
                "oracle",
                None,
                "the input ends while a <package> element is open: parse_jacoco_xml_report must return Err(Parse) (unexpected end of file)".into(),
                case_json(&Case { spec: Some("err Parse".into()), ..c_clone(&c) }, ""),
            );
        }
        cases.push(c);
        made += 1;
    }

    // ---- the repository's own fixtures (events taken from quick-xml: there is no tree) ----------------
    if let Ok(rd) = std::fs::read_dir("/repo/test/jacoco") {
        let mut files: Vec<PathBuf> = rd.filter_map(|e| e.ok()).map(|e| e.path()).filter(|p| p.extension().map(|e| e == "xml").unwrap_or(false)).collect();
        files.sort();
        for f in files {
            let xml = match std::fs::read(&f) {
                Ok(b) => b,
                Err(_) => continue,
            };
            if let Some(events) = qx_events(&xml) {
                let imp = run_impl(&xml);
                rep.case(&fhex(&xml), true);
                rep.count("fixture.repo_test_jacoco");
                cases.push(Case { stream: "fixture".into(), request: request_of(&events), xml, spec: None, imp, child: false, timeout_ms: 0 });
            }
        }
    }

    // ---- well-formed stream: oracle + tie ---------------------------------------------------------------
    let n = rep.budget(3000, 10);
    let cfg = Cfg::full();
    let mut shrunk = 0u32;
    for i in 0..n {
        let mut g = G::new(rng.fork());
        let doc = gen_doc(&mut g, &cfg);
        let toks = tokens(&lower(&doc));
        let xml = xml_of(&toks);
        let events = events_of(&toks);
        self_check(rep, "wellformed", &xml, &events);
        let spec = spec_of(&doc);
        let imp = run_impl(&xml);
        rep.case(&fhex(&xml), nontrivial(&doc));
        for f in &g.feat {
            rep.count(&format!("wf.{}", f));
        }
        let results = sem(&doc);
        let mut paths: Vec<&String> = results.iter().map(|r| &r.0).collect();
        paths.sort();
        if paths.windows(2).any(|w| w[0] == w[1]) {
            rep.count("wf.record.duplicate_path_across_packages");
        }
        rep.count(&format!("wf.records.{}", results.len().min(6)));
        let outside = outside_quantifier(&doc);
        match outside {
            Some(label) => rep.count(label),
            None => {
                rep.count("wf.inside_quantifier");
                if imp != spec {
                    check_oracle(rep, &doc, &mut shrunk);
                }
            }
        }
        if i % 40 == 0 && isj_samples.len() < 40 {
            isj_samples.push(xml.clone());
        }
        cases.push(Case {
            stream: "wellformed".into(),
            request: request_of(&events),
            xml,
            // outside the quantifier there is no spec: the tie with the model always speaks
            spec: if outside.is_some() { None } else { Some(spec) },
            imp,
            child: false,
            timeout_ms: 0,
        });
    }

    // ---- repeated attributes / unreachable attribute syntax errors that do not change the meaning ----------
    // (/repo ae885a6: attributes are iterated `with_checks(false)`; `get_xml_attribute` = first match,
    // the `<line>` loop = last wins). Property oracle: the result is the meaning of the UNMUTATED tree.
    let n_dup = rep.budget(700, 10);
    let mut made = 0;
    let mut tries = 0;
    while made < n_dup && tries < 20 * n_dup {
        tries += 1;
        let mut g = G::new(rng.fork());
        let doc = gen_doc(&mut g, &Cfg::small());
        if outside_quantifier(&doc).is_some() {
            continue;
        }
        let spec = spec_of(&doc);
        let mut nodes = lower(&doc);
        let mut labels: Vec<String> = vec![];
        for _ in 0..g.rng.range(1, 3) {
            for _ in 0..8 {
                if let Some(l) = mutate_preserving(&mut g, &mut nodes) {
                    labels.push(l);
                    break;
                }
            }
        }
        if labels.is_empty() {
            continue;
        }
        made += 1;
        let toks = tokens(&nodes);
        let xml = xml_of(&toks);
        let events = events_of(&toks);
        self_check(rep, "dupattr.preserving", &xml, &events);
        let imp = run_impl(&xml);
        rep.case(&fhex(&xml), true);
        for l in &labels {
            rep.count(&format!("dupattr.preserving.{}", l));
        }
        rep.count(&format!("dupattr.preserving.outcome.{}", imp.split(' ').take(if imp.starts_with("err") { 2 } else { 1 }).collect::<Vec<_>>().join(" ")));
        let c = Case { stream: format!("dupattr.preserving[{}]", labels.join("+")), request: request_of(&events), xml, spec: Some(spec.clone()), imp, child: false, timeout_ms: 0 };
        if c.imp != spec {
            rep.fail(
                "oracle",
                None,
                format!("a repeated attribute behind the first of its name (for <line>: before the last), a repeated unread attribute or an attribute syntax error behind the wanted attributes changed the result ({})", labels.join(", ")),
                case_json(&c, ""),
            );
        }
        cases.push(c);
    }

    // ---- many attributes on one element: linear (review item 11; before ae885a6 quadratic) ---------------------
    {
        let k = 100_000;
        let mut x = String::from("<report><package ");
        for i in 0..k {
            x.push_str(&format!("a{:06}=\"\" ", i));
        }
        x.push_str("name=\"p\"><sourcefile name=\"A.java\"><line nr=\"1\" mi=\"0\" ci=\"1\" mb=\"0\" cb=\"0\"/></sourcefile></package></report>");
        let t0 = Instant::now();
        let imp = run_impl(x.as_bytes());
        let ms = t0.elapsed().as_millis();
        rep.case("witness many_attributes 100000", true);
        rep.count("witness.many_attributes");
        rep.notes.push(format!("witness many_attributes: {} attributes on <package> ({} bytes) read in {} ms", k, x.len(), ms));
        let want = "ok K702f412e6a617661=L1:1;B;F";
        if imp != want || ms > 5000 {
            rep.fail(
                "oracle",
                None,
                format!("a <package> start tag with {} attributes (the wanted one last): result '{}' after {} ms; expected '{}' within 5000 ms (attribute work is linear since /repo ae885a6)", k, truncate_str(&imp, 80), ms, want),
                json!({"op": "jacoco.many_attributes", "attributes": k, "impl": truncate_str(&imp, 200), "ms": ms as u64, "spec": want}),
            );
        }
    }

    // ---- malformed stream ---------------------------------------------------------------------------------
    let m = rep.budget(1500, 10);
    for _ in 0..m {
        let mut g = G::new(rng.fork());
        let doc = gen_doc(&mut g, &Cfg::small());
        let mut nodes = lower(&doc);
        let (label, toks): (String, Vec<Tok>) = match g.rng.below(10) {
            0 => {
                // cut inside a token
                let toks = tokens(&nodes);
                let ks: Vec<usize> = (0..toks.len()).filter(|&k| toks[k].bytes.len() >= 2).collect();
                if ks.is_empty() {
                    continue; // a document without any multi-byte token has no inside to cut
                }
                let k = ks[g.rng.below(ks.len() as u64) as usize];
                let kind = if toks[k].ev == Ev::Text { "cut.inside_text" } else { "cut.inside_markup" };
                (kind.to_string(), cut_inside(&mut g, &toks, k))
            }
            1 => {
                // truncation between tokens outside any package
                let toks = tokens(&nodes);
                let ks: Vec<usize> = (0..=toks.len()).filter(|&k| !package_open_at(&toks, k)).collect();
                let k = ks[g.rng.below(ks.len() as u64) as usize];
                ("trunc.outside_package".to_string(), toks[..k].to_vec())
            }
            _ => {
                let mut label = None;
                for _ in 0..12 {
                    label = mutate(&mut g, &mut nodes);
                    if label.is_some() {
                        break;
                    }
                }
                let label = label.unwrap_or_else(|| {
                    nodes.push(Node::BadEnd("oops".into()));
                    "bad_end.in.top".to_string()
                });
                (label, tokens(&nodes))
            }
        };
        let xml = xml_of(&toks);
        let events = events_of(&toks);
        self_check(rep, &label, &xml, &events);
        rep.case(&fhex(&xml), true);
        rep.count(&format!("malformed.mutation.{}", label));
        let imp = run_impl(&xml);
        cases.push(Case { stream: label, request: request_of(&events), xml, spec: None, imp, child: false, timeout_ms: 0 });
    }

    // ---- the tie ----------------------------------------------------------------------------------------------
    if !no_model {
        let reqs: Vec<String> = cases.iter().map(|c| c.request.clone()).collect();
        let model = run_model_named("gm_c10", &reqs, &rep.workdir, "jacoco");
        let mut sampled: Vec<&str> = vec![];
        for (c, mo) in cases.iter().zip(model.iter()) {
            let kind: String = c.imp.split(' ').take(if c.imp.starts_with("err") { 2 } else { 1 }).collect::<Vec<_>>().join(" ");
            if c.stream == "fixture" {
                rep.count(&format!("fixture.outcome.{}", kind));
            } else if c.stream != "wellformed" {
                rep.count(&format!("malformed.{}", kind));
            } else {
                rep.count(&format!("wf.outcome.{}", kind));
            }
            let class = if c.stream == "wellformed" {
                "wf"
            } else if c.child {
                "trunc"
            } else {
                "mal"
            };
            if !sampled.contains(&class) && (class != "mal" || c.imp.starts_with("err")) && c.xml.len() < 1500 {
                sampled.push(class);
                rep.sample(json!({"stream": c.stream, "xml": String::from_utf8_lossy(&c.xml), "request": c.request,
                                  "impl": c.imp, "model": mo}));
            }
            if &c.imp != mo {
                rep.disagreements_checked += 1;
                if let Some(spec) = &c.spec {
                    if &c.imp != spec {
                        // already reported by the oracle (that is the failing input)
                        continue;
                    }
                }
                rep.fail(
                    "disagreement",
                    None,
                    "parse_jacoco_xml_report differs from the Lean event model Jacoco.parse (C10 theorems no longer transfer)".into(),
                    case_json(c, mo),
                );
            }
        }
    }

    // ---- helper ties ---------------------------------------------------------------------------------------------
    if !no_model {
        ties::unescape_tie(rep, &mut rng);
        ties::parsenum_tie(rep, &mut rng);
        ties::isjacoco_tie(rep, &mut rng, &isj_samples);
    }
    encoding_ties(rep, &mut rng);

    // ---- named findings ------------------------------------------------------------------------------------------
    // corpus: witnesses of the former hang; anything but `err Parse` is a plain violation
    for (name, xml, p) in hang_children {
        let out = harvest(p);
        rep.case(&format!("corpus.eof_inside_element {}", fhex(&xml)), true);
        rep.count(&format!("corpus.eof_inside_element.{}", out.split(' ').take(2).collect::<Vec<_>>().join(" ")));
        if out != "err Parse" {
            rep.fail(
                "oracle",
                None,
                format!("corpus witness '{}': the input ends (EOF) while a <package>/<class>/<method>/<sourcefile> element is open; expected Err(Parse), observed '{}' ('diverge' = no answer within 5 s)", name, out),
                json!({"op": "corpus.eof", "xml_hex": fhex(&xml), "xml": String::from_utf8_lossy(&xml), "timeout_ms": 5000,
                       "spec": "err Parse", "impl": out}),
            );
        }
    }
    check_alloc(rep, &alloc_witness, harvest(alloc_child));
    rep.notes.push("streams: fixtures of /repo/test/jacoco; well-formed trees (oracle sem + model tie); malformed trees (model tie; outcome kinds counted under malformed.*); truncation inside a package (in-process under the watchdog, expected `err Parse` since /repo 34e25d5); unescape / parsenum / isjacoco helper ties; corpus witnesses of the former EOF hang and the named finding C14-jacoco-branch-vector-alloc checked once per run in child processes".into());
    rep.notes.push("every event list sent to the model is checked against quick-xml's own tokenizer on the same bytes (harness.serialiser_mismatch counts differences: none expected)".into());
    if !no_model {
        bytes::run(rep);
    }
}

fn truncate_str(s: &str, n: usize) -> String {
    s.chars().take(n).collect()
}

/// Review item 35: `C10_fidelity_bytes` is about UTF-8 serialisations. /repo builds quick-xml without
/// its `encoding` feature, so a report in another encoding is read as bytes. What the reader does
/// with one: UTF-16 (BOM, every markup byte followed/preceded by 00) never shows an element it knows
/// - `Ok([])`, a silent empty result (observation, counted) - or an error; ISO-8859-1 reads like the
/// UTF-8 twin while the names the parser decodes are ASCII, and is `Err` as soon as one is not (since
/// /repo 276971e also for a class's `sourcefilename`: former finding
/// C10-undecodable-sourcefilename-falls-back, witnesses in corpus/C10).
/// Oracle: error or empty (UTF-16) / error or the document's meaning (Latin-1) - never a wrong record.
fn encoding_ties(rep: &mut Report, rng: &mut Rng) {
    let n = rep.budget(120, 10);
    let mut made = 0;
    let mut tries = 0;
    while made < n && tries < 50 * n {
        tries += 1;
        let mut g = G::new(rng.fork());
        let doc = gen_doc(&mut g, &Cfg::small());
        if outside_quantifier(&doc).is_some() {
            continue;
        }
        let spec = spec_of(&doc);
        let xml = xml_of(&tokens(&lower(&doc)));
        let text = match String::from_utf8(xml) {
            Ok(t) => t,
            Err(_) => continue,
        };
        let body = text.trim_start_matches(|c| c != '<');
        let body = if body.starts_with("<?xml") { body.splitn(2, "?>").nth(1).unwrap_or("") } else { body };
        match made % 3 {
            0 | 1 => {
                let le = made % 3 == 0;
                let full = format!("<?xml version=\"1.0\" encoding=\"UTF-16\"?>{}", body);
                let mut bytes: Vec<u8> = if le { vec![0xFF, 0xFE] } else { vec![0xFE, 0xFF] };
                for u in full.encode_utf16() {
                    bytes.extend_from_slice(&if le { u.to_le_bytes() } else { u.to_be_bytes() });
                }
                let imp = run_impl(&bytes);
                rep.case(&fhex(&bytes), true);
                let kind = if imp == "ok" {
                    if spec == "ok" { "empty_as_it_should" } else { "observation.silently_empty" }
                } else if imp.starts_with("err") {
                    "error"
                } else {
                    "WRONG"
                };
                rep.count(&format!("ties.encoding.utf16{}.{}", if le { "le" } else { "be" }, kind));
                if kind == "WRONG" {
                    rep.fail(
                        "oracle",
                        None,
                        "a UTF-16 JaCoCo report (not a UTF-8 serialisation) must be an error or give nothing; it gave records".into(),
                        json!({"op": "jacoco", "stream": "ties.encoding.utf16", "xml_hex": fhex(&bytes), "xml": full, "impl": imp, "spec": "ok"}),
                    );
                }
            }
            _ => {
                if text.chars().any(|c| c as u32 > 0xFF) {
                    continue;
                }
                let full = format!("<?xml version=\"1.0\" encoding=\"ISO-8859-1\"?>{}", body);
                let bytes: Vec<u8> = full.chars().map(|c| c as u32 as u8).collect();
                let imp = run_impl(&bytes);
                rep.case(&fhex(&bytes), true);
                let ascii = bytes.is_ascii();
                let kind = if imp == spec {
                    if ascii { "ascii_same_as_utf8" } else { "non_ascii_only_in_unread_places" }
                } else if imp.starts_with("err") && !ascii {
                    "error"
                } else {
                    "WRONG"
                };
                rep.count(&format!("ties.encoding.latin1.{}", kind));
                if kind == "WRONG" {
                    rep.fail(
                        "oracle",
                        None,
                        "an ISO-8859-1 JaCoCo report must be an error or read like its UTF-8 twin".into(),
                        json!({"op": "jacoco", "stream": "ties.encoding.latin1", "xml_hex": fhex(&bytes), "xml": full, "impl": imp, "spec": spec}),
                    );
                }
            }
        }
        made += 1;
    }
}

fn check_alloc(rep: &mut Report, xml: &[u8], out: String) {
    rep.case(&format!("finding.alloc {}", fhex(xml)), true);
    let entries: Option<u64> = out.strip_prefix("entries ").and_then(|s| s.parse().ok());
    let present = match entries {
        Some(n) => n / (xml.len() as u64) > 1000,
        // the child died or was killed while building the vector
        None => out.starts_with("crash") || out == "diverge",
    };
    if present {
        rep.count(F_ALLOC);
        rep.fail(
            "oracle",
            Some(F_ALLOC),
            format!("a {}-byte report makes parse_jacoco_xml_report build a branch vector of {} entries (cb/mb are taken as allocation sizes: `vec![true; cb]`); child said '{}'",
                    xml.len(), entries.map(|n| n.to_string()).unwrap_or("?".into()), out),
            json!({"op": "finding.alloc", "xml_hex": fhex(xml), "xml": String::from_utf8_lossy(xml),
                   "spec": "output entries / input bytes <= 1000", "impl": out}),
        );
    } else {
        rep.count("finding.alloc.absent");
    }
}

pub fn replay(rep: &mut Report, case: &Value) {
    start_watchdog(rep);
    let s = |k: &str| case[k].as_str().unwrap_or("").to_string();
    match s("op").as_str() {
        "jacoco" => {
            let xml = unhex(&s("xml_hex"));
            let child = case["child"].as_bool().unwrap_or(false);
            let t = case["timeout_ms"].as_u64().filter(|&t| t > 0).unwrap_or(5000);
            let imp = if child {
                harvest(spawn_child("--child-parse", &xml, &rep.workdir, "replay", t))
            } else {
                run_impl(&xml)
            };
            rep.case(&fhex(&xml), true);
            let request = match case["request"].as_str() {
                Some(r) => r.to_string(),
                None => request_of(&qx_events(&xml).unwrap_or_default()),
            };
            if let Some(spec) = case["spec"].as_str() {
                let ok = if spec == "returns" { imp != "diverge" } else { imp == spec };
                if !ok {
                    rep.fail("oracle", None, format!("parse_jacoco_xml_report gives '{}', the recorded spec is '{}'", imp, spec), case.clone());
                    return;
                }
            }
            let model = run_model_named("gm_c10", &[request], &rep.workdir, "replay").remove(0);
            if imp != model {
                rep.disagreements_checked += 1;
                rep.fail("disagreement", None, format!("parse_jacoco_xml_report gives '{}', Jacoco.parse gives '{}'", imp, model), case.clone());
            }
        }
        "events" => {
            let xml = unhex(&s("xml_hex"));
            let ev: Vec<String> =
                case["harness_events"].as_array().map(|a| a.iter().map(|v| v.as_str().unwrap_or("").to_string()).collect()).unwrap_or_default();
            rep.case(&fhex(&xml), true);
            if qx_events(&xml).as_deref() != Some(&ev[..]) {
                rep.fail("disagreement", None, "HARNESS: recorded event list differs from quick-xml's tokenizer".into(), case.clone());
            }
        }
        "unescape" | "parsenum" | "isjacoco" => {
            let req = s("request");
            let parts: Vec<&str> = req.split(' ').collect();
            let imp = match parts[0] {
                "unescape" => ties::impl_unescape(&String::from_utf8_lossy(&unhex(parts.get(1).unwrap_or(&"")))),
                "parsenum" => ties::impl_parsenum(parts[1].parse().unwrap_or(32), &String::from_utf8_lossy(&unhex(parts.get(2).unwrap_or(&"")))),
                _ => ties::impl_isjacoco(&unhex(parts.get(1).unwrap_or(&"")), &rep.workdir),
            };
            let model = run_model_named("gm_c10", &[req.clone()], &rep.workdir, "replay").remove(0);
            rep.case(&req, true);
            if imp != model {
                rep.disagreements_checked += 1;
                rep.fail("disagreement", None, format!("impl '{}' vs model '{}'", imp, model), case.clone());
            }
        }
        "finding.hang" | "corpus.eof" => {
            let xml = unhex(&s("xml_hex"));
            let t = case["timeout_ms"].as_u64().unwrap_or(5000);
            let out = harvest(spawn_child("--child-parse", &xml, &rep.workdir, "replay", t));
            rep.case(&fhex(&xml), true);
            if out != "err Parse" {
                rep.fail("oracle", None, format!("EOF inside an element: expected 'err Parse', observed '{}' (limit {} ms)", out, t), case.clone());
            }
        }
        "jacoco.bytes" => bytes::replay(rep, case),
        "finding.c10" => {
            // a recorded witness of a named finding: present as long as the parser answers the same
            let xml = unhex(&s("xml_hex"));
            let imp = run_impl(&xml);
            rep.case(&fhex(&xml), true);
            let id = if s("finding") == F_ALLOC { Some(F_ALLOC) } else { None };
            if imp == s("impl") {
                rep.fail("oracle", id, format!("the recorded witness still gives '{}'", imp), case.clone());
            }
        }
        "finding.alloc" => {
            let xml = unhex(&s("xml_hex"));
            let out = harvest(spawn_child("--child-alloc", &xml, &rep.workdir, "replay", 20000));
            check_alloc(rep, &xml, out);
        }
        _ => {}
    }
}

fn main() {
    let args: Vec<String> = std::env::args().collect();
    if args.len() >= 3 && (args[1] == "--child-parse" || args[1] == "--child-alloc") {
        child_main(&args);
        return;
    }
    corrlib::run_main("C10", run, replay);
}
