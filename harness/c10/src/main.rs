//! C10 — probe stub (temporary)
use corrlib::*;
use std::io::{BufReader, Cursor};

pub fn show_outcome(r: &Result<Result<Vec<(String, grcov::CovResult)>, grcov::ParserError>, String>) -> String {
    match r {
        Ok(Ok(rs)) => format!("ok {}", show_results(rs)).trim_end().to_string(),
        Ok(Err(e)) => format!(
            "err {}",
            match e {
                grcov::ParserError::Io(_) => "Io",
                grcov::ParserError::Parse(_) => "Parse",
                grcov::ParserError::InvalidRecord(_) => "InvalidRecord",
                grcov::ParserError::InvalidData(_) => "InvalidData",
            }
        ),
        Err(_) => "panic".to_string(),
    }
}

pub fn run_impl(bytes: &[u8]) -> String {
    let b = bytes.to_vec();
    show_outcome(&guarded(move || grcov::parse_jacoco_xml_report(BufReader::new(Cursor::new(b)))))
}

pub fn run(_rep: &mut Report) {}
pub fn replay(_rep: &mut Report, _case: &serde_json::Value) {}

fn main() {
    let args: Vec<String> = std::env::args().collect();
    if args.len() >= 3 && args[1] == "--child-parse" {
        install_panic_hook();
        let bytes = std::fs::read(&args[2]).unwrap();
        println!("{}", run_impl(&bytes));
        return;
    }
    corrlib::run_main("C10", run, replay);
}
