//! Generator of well-formed JaCoCo report trees (abstract content + serialisation choices).
use crate::tree::*;
use corrlib::Rng;
use std::collections::BTreeSet;

pub struct G {
    pub rng: Rng,
    pub feat: BTreeSet<&'static str>,
}
impl G {
    pub fn new(rng: Rng) -> G {
        G { rng, feat: BTreeSet::new() }
    }
    pub fn f(&mut self, s: &'static str) {
        self.feat.insert(s);
    }
}

#[derive(Clone)]
pub struct Cfg {
    pub max_pk: u64,
    pub max_cls: u64,
    pub max_m: u64,
    pub max_src: u64,
    pub max_lines: u64,
    /// repeated method names within a class and methods without `line` (well-formed stream)
    pub overloads: bool,
}
impl Cfg {
    pub fn full() -> Cfg {
        Cfg { max_pk: 3, max_cls: 4, max_m: 4, max_src: 3, max_lines: 8, overloads: true }
    }
    pub fn small() -> Cfg {
        Cfg { max_pk: 2, max_cls: 2, max_m: 2, max_src: 2, max_lines: 4, overloads: false }
    }
}

#[derive(Clone, Debug)]
pub enum AV {
    Text(String),
    /// number, charref-escaping of digits allowed (only for values read through get_xml_attribute)
    Num(u64, bool),
}

const EXTRA_KEYS: &[&str] = &[
    "desc", "mi", "missed", "id", "start", "dump", "x:name", "xml:lang", "a1", "Name", "NAME", "names", "n",
    "lines", "Type", "ci2", "j:nr", "sourcefile", "class",
];
const EXTRA_VALS: &[&str] = &[
    "", "1", "x", "()V", "([Ljava/lang/String;)V", "a<b", "R&D", "it's", "say \"hi\"", "é", "name=\"p\"", "METHOD",
    "a > b", "/>", "<package name='evil'>",
];

fn charref(g: &mut G, c: char) -> String {
    g.f("syntax.charref");
    match g.rng.below(4) {
        0 => format!("&#{};", c as u32),
        1 => format!("&#x{:x};", c as u32),
        2 => format!("&#x{:X};", c as u32),
        _ => format!("&#{:04};", c as u32),
    }
}

/// escape `s` for an attribute value delimited by `quote`
pub fn esc(g: &mut G, s: &str, quote: char) -> String {
    let heavy = g.rng.chance(1, 10);
    let mut out = String::new();
    for c in s.chars() {
        let named = match c {
            '<' => Some("&lt;"),
            '>' => Some("&gt;"),
            '&' => Some("&amp;"),
            '\'' => Some("&apos;"),
            '"' => Some("&quot;"),
            _ => None,
        };
        let must = c == '<' || c == '&' || c == quote;
        if must || (named.is_some() && g.rng.chance(1, 2)) {
            g.f("syntax.escaped_value");
            if g.rng.chance(2, 3) {
                out.push_str(named.unwrap());
            } else {
                out.push_str(&charref(g, c));
            }
        } else if (heavy && g.rng.chance(1, 3)) || g.rng.chance(1, 60) {
            g.f("syntax.escaped_value");
            out.push_str(&charref(g, c));
        } else {
            out.push(c);
        }
    }
    out
}

fn num_raw(g: &mut G, n: u64, allow_ref: bool) -> String {
    match g.rng.below(100) {
        0..=3 => {
            g.f("syntax.num_leading_zero");
            format!("{:04}", n)
        }
        4..=6 => {
            g.f("syntax.num_plus");
            format!("+{}", n)
        }
        7..=9 if allow_ref => {
            g.f("syntax.num_charref");
            n.to_string().chars().map(|c| format!("&#{};", c as u32)).collect()
        }
        _ => n.to_string(),
    }
}

fn mk_attr(g: &mut G, key: String, v: AV) -> Attr {
    let quote = if g.rng.chance(1, 6) {
        g.f("syntax.single_quote");
        '\''
    } else {
        '"'
    };
    let raw = match v {
        AV::Text(s) => esc(g, &s, quote),
        AV::Num(n, allow) => num_raw(g, n, allow),
    };
    let pre = match g.rng.below(24) {
        0 => "  ",
        1 => "\n      ",
        2 => "\t",
        _ => " ",
    }
    .to_string();
    let eq = if g.rng.chance(1, 40) { " = " } else { "=" }.to_string();
    Attr { key, raw, quote, pre, eq }
}

pub fn mk_shell(g: &mut G, local: &str, attrs: Vec<(&str, AV)>, empty_body: bool) -> Shell {
    let mut list: Vec<(String, AV)> = attrs.into_iter().map(|(k, v)| (k.to_string(), v)).collect();
    if g.rng.chance(1, 6) {
        for _ in 0..g.rng.range(1, 2) {
            let k = *g.rng.pick(EXTRA_KEYS);
            if !list.iter().any(|(q, _)| q == k) {
                let v = g.rng.pick(EXTRA_VALS).to_string();
                list.push((k.to_string(), AV::Text(v)));
                g.f("syntax.extra_attr");
            }
        }
    }
    if list.len() > 1 && g.rng.chance(1, 2) {
        g.rng.shuffle(&mut list);
        g.f("syntax.attr_shuffled");
    }
    let attrs: Vec<Attr> = list.into_iter().map(|(k, v)| mk_attr(g, k, v)).collect();
    let name = if g.rng.chance(1, 30) {
        g.f("syntax.prefix");
        format!("{}:{}", g.rng.pick(&["j", "ns1", "x"]), local)
    } else {
        local.to_string()
    };
    let selfclose = empty_body && g.rng.chance(2, 3);
    if empty_body {
        g.f(if selfclose { "syntax.empty_element" } else { "syntax.start_end_without_children" });
    }
    Shell {
        name,
        attrs,
        selfclose,
        tail: if g.rng.chance(1, 10) { " " } else { "" }.to_string(),
        end_tail: if g.rng.chance(1, 25) { " " } else { "" }.to_string(),
        broken: String::new(),
    }
}

const WS: &[&str] = &["\n", "\n  ", "\n    ", "\n        ", " ", "\t", "\r\n  ", "\n\n"];
const COMMENTS: &[&str] = &[
    "<!-- generated -->",
    "<!---->",
    "<!-- <package name=\"evil\"><class name=\"E\"> -->",
    "<!-- </package> -->",
    "<!-- a -- b > c -->",
];
const PIS: &[&str] = &["<?target data?>", "<?xml-stylesheet href=\"a.xsl\"?>", "<?p </package> ?>"];
const CDATAS: &[&str] = &["<![CDATA[ x < y ]]>", "<![CDATA[<line nr=\"1\"/></class>]]>", "<![CDATA[]]>"];
const TEXTS: &[&str] = &["text", " a &amp; b ", "é語", "x > y", "&lt;package&gt;", "]] >"];

/// what may stand between two elements
pub fn gap(g: &mut G) -> Vec<Node> {
    match g.rng.below(100) {
        0..=57 => vec![Node::Text(g.rng.pick(WS).to_string())],
        58..=84 => vec![],
        85..=88 => {
            g.f("junk.comment");
            vec![Node::Other(g.rng.pick(COMMENTS).to_string())]
        }
        89..=91 => {
            g.f("junk.comment");
            vec![
                Node::Text(g.rng.pick(WS).to_string()),
                Node::Other(g.rng.pick(COMMENTS).to_string()),
                Node::Text(g.rng.pick(WS).to_string()),
            ]
        }
        92..=93 => {
            g.f("junk.pi");
            vec![Node::Other(g.rng.pick(PIS).to_string())]
        }
        94..=95 => {
            g.f("junk.cdata");
            vec![Node::Other(g.rng.pick(CDATAS).to_string())]
        }
        96..=97 => {
            g.f("junk.text");
            vec![Node::Text(g.rng.pick(TEXTS).to_string())]
        }
        _ => {
            // two adjacent text nodes: ONE text event
            g.f("junk.text");
            vec![Node::Text(g.rng.pick(WS).to_string()), Node::Text(g.rng.pick(TEXTS).to_string())]
        }
    }
}

#[derive(Clone, Copy, PartialEq)]
pub enum Level {
    Top,
    Package,
    Class,
    Method,
    Source,
}

fn counter_node(g: &mut G, ty: &str) -> Node {
    let (m, c) = (g.rng.below(30), g.rng.below(30));
    let sh = mk_shell(
        g,
        "counter",
        vec![("type", AV::Text(ty.to_string())), ("missed", AV::Num(m, false)), ("covered", AV::Num(c, false))],
        true,
    );
    Node::Elem(sh, vec![])
}

/// an element the parser has no use for at this level
pub fn junk_elem(g: &mut G, level: Level) -> Node {
    g.f("junk.element");
    let ty = *g.rng.pick(&["INSTRUCTION", "BRANCH", "LINE", "COMPLEXITY", "METHOD", "CLASS"]);
    match level {
        Level::Top => match g.rng.below(3) {
            0 => {
                let sh = mk_shell(
                    g,
                    "sessioninfo",
                    vec![
                        ("id", AV::Text("host-832620af".into())),
                        ("start", AV::Num(1523002732292, false)),
                        ("dump", AV::Num(1523002732308, false)),
                    ],
                    true,
                );
                Node::Elem(sh, vec![])
            }
            1 => counter_node(g, ty),
            _ => {
                let sh = mk_shell(g, "info", vec![("name", AV::Text("class".into()))], false);
                Node::Elem(sh, vec![Node::Text("note".into())])
            }
        },
        Level::Package | Level::Class | Level::Source => {
            if g.rng.chance(3, 4) {
                counter_node(g, ty)
            } else {
                let inner = mk_shell(g, "sub", vec![("name", AV::Text("line".into())), ("nr", AV::Num(7, false))], true);
                let sh = mk_shell(g, "extra", vec![], false);
                Node::Elem(sh, vec![Node::Text("\n".into()), Node::Elem(inner, vec![])])
            }
        }
        Level::Method => {
            let sh = mk_shell(g, "note", vec![("type", AV::Text("METHOD".into())), ("covered", AV::Num(1, false))], true);
            Node::Elem(sh, vec![])
        }
    }
}

const PKG_NAMES: &[&str] = &[
    "", "", "org/example", "com/x/y", "/lead", "p", "org/éxample", "a&b", "x<y", "//two", "org/gradle/kotlin",
];
const CLASS_NAMES: &[&str] = &[
    "Person", "hello", "FileKt", "Main", "Ünï", "A&B", "Outer", "Box", "it's", "$Lead", "Trail$", "a.b", "X<T>",
];
const INNER_NAMES: &[&str] = &["Age", "Inner", "1", "Deep", "Companion", "lambda$0", "É"];
const METHOD_NAMES: &[&str] = &[
    "<init>", "<clinit>", "main", "lambda$main$0", "get\"x\"", "a&b", "it's", "größe", "名前", "run", "equals",
    "access$000", "x>y", "semi;colon", "&amp;", "has space", "#hash", "😀",
];
const FILE_NAMES: &[&str] = &[
    "A.java", "Person.java", "File.kt", "Ünï.java", "a&b.java", "x<y>.kt", "it's.java", "q\"uote.java", "Main.java",
    "hello.java", "Outer.java",
];

fn gen_counter(g: &mut G, ty: &str, missed: u32, covered: u32) -> Counter {
    // `covered` of a METHOD counter is read through get_xml_attribute (unescaped)
    let sh = mk_shell(
        g,
        "counter",
        vec![
            ("type", AV::Text(ty.to_string())),
            ("missed", AV::Num(missed as u64, false)),
            ("covered", AV::Num(covered as u64, ty == "METHOD")),
        ],
        true,
    );
    Counter { ty: ty.to_string(), missed, covered, shell: sh }
}

fn gen_method(g: &mut G, name: String, no_line_ok: bool) -> Method {
    let line = match g.rng.below(20) {
        0 => 0,
        1 => u32::MAX,
        2 => g.rng.below(1 << 32) as u32,
        _ => g.rng.range(1, 400) as u32,
    };
    let mut tys: Vec<&str> = vec!["INSTRUCTION"];
    if g.rng.chance(1, 2) {
        tys.push("BRANCH");
    }
    tys.push("LINE");
    tys.push("COMPLEXITY");
    match g.rng.below(20) {
        0..=2 => g.f("method.no_METHOD_counter"),
        3 => {
            g.f("method.two_METHOD_counters");
            tys.push("METHOD");
            tys.push("METHOD");
        }
        _ => tys.push("METHOD"),
    }
    if g.rng.chance(1, 12) {
        tys.push(*g.rng.pick(&["method", "METHODS", "METHOD ", "CLASS", ""]));
    }
    if g.rng.chance(1, 8) {
        tys.clear();
        g.f("method.no_counters");
    }
    if g.rng.chance(1, 5) {
        g.rng.shuffle(&mut tys);
    }
    let mut body: Vec<MItem> = vec![];
    for ty in tys {
        body.extend(gap(g).into_iter().map(MItem::Junk));
        let covered = match g.rng.below(5) {
            0 | 1 => 0,
            2 | 3 => 1,
            _ => g.rng.range(2, 50) as u32,
        };
        if ty == "METHOD" {
            g.f(if covered > 0 { "method.executed" } else { "method.not_executed" });
        }
        let missed = g.rng.below(9) as u32;
        body.push(MItem::Counter(gen_counter(g, ty, missed, covered)));
        if g.rng.chance(1, 40) {
            body.push(MItem::Junk(junk_elem(g, Level::Method)));
        }
    }
    if !body.is_empty() {
        body.extend(gap(g).into_iter().map(MItem::Junk));
    }
    let mut attrs = vec![("name", AV::Text(name.clone()))];
    if g.rng.chance(9, 10) {
        attrs.push(("desc", AV::Text(g.rng.pick(&["()V", "([Ljava/lang/String;)V", "(I)Z", "(I)V", "(Ljava/lang/Object;)Z"]).to_string())));
    }
    // report.dtd: `line` is #IMPLIED (JaCoCo omits it for classes without debug information)
    let line = if no_line_ok && g.rng.chance(1, 150) {
        g.f("method.no_line_attribute");
        None
    } else {
        attrs.push(("line", AV::Num(line as u64, true)));
        Some(line)
    };
    // a childless container (written `<method …/>` two times in three): `Empty` for the reader
    if g.rng.chance(1, 12) {
        body.clear();
        g.f("container.childless.method");
    }
    let shell = mk_shell(g, "method", attrs, body.is_empty());
    Method { name, line, shell, body }
}

fn gen_class(g: &mut G, fq: String, sfn: Option<String>, cfg: &Cfg) -> Class {
    let nm = g.rng.below(cfg.max_m + 1);
    let mut names: Vec<&str> = METHOD_NAMES.to_vec();
    g.rng.shuffle(&mut names);
    let mut body: Vec<CItem> = vec![];
    let mut used: Vec<String> = vec![];
    for k in 0..nm as usize {
        body.extend(gap(g).into_iter().map(CItem::Junk));
        // overloads: every real Java class has them (several <init>, equals(Object)/equals(T), …)
        let name = if !used.is_empty() && cfg.overloads && g.rng.chance(1, 12) {
            g.f("method.overloaded_name");
            used[g.rng.below(used.len() as u64) as usize].clone()
        } else {
            names[k].to_string()
        };
        used.push(name.clone());
        body.push(CItem::Method(gen_method(g, name, cfg.overloads)));
        if g.rng.chance(1, 25) {
            // a class-level counter between the methods
            body.push(CItem::Junk(junk_elem(g, Level::Class)));
        }
    }
    if g.rng.chance(2, 3) {
        for _ in 0..g.rng.range(1, 3) {
            body.extend(gap(g).into_iter().map(CItem::Junk));
            body.push(CItem::Junk(junk_elem(g, Level::Class)));
        }
    }
    if !body.is_empty() {
        body.extend(gap(g).into_iter().map(CItem::Junk));
    }
    let mut attrs = vec![("name", AV::Text(fq.clone()))];
    if let Some(f) = &sfn {
        attrs.push(("sourcefilename", AV::Text(f.clone())));
    }
    // a childless container (written `<class …/>` two times in three): `Empty` for the reader
    if g.rng.chance(1, 12) {
        body.clear();
        g.f("container.childless.class");
    }
    let shell = mk_shell(g, "class", attrs, body.is_empty());
    Class { fq, sfn, shell, body }
}

fn gen_line(g: &mut G, nr: u32) -> Line {
    let small = |g: &mut G| if g.rng.chance(1, 2) { 0 } else { g.rng.range(1, 20) };
    let (mi, ci) = (small(g), small(g));
    let (mb, cb) = match g.rng.below(8) {
        0..=3 => (0, 0),
        4 => (g.rng.range(1, 6), 0),
        5 => (0, g.rng.range(1, 6)),
        6 => (g.rng.range(1, 4), g.rng.range(1, 4)),
        _ => (g.rng.range(0, 40), g.rng.range(1, 40)),
    };
    g.f(match (mb + cb > 0, ci > 0) {
        (true, true) => "line.branch_ci_pos",
        (true, false) => "line.branch_ci_zero",
        (false, true) => "line.stmt_hit",
        (false, false) => "line.stmt_miss",
    });
    let shell = mk_shell(
        g,
        "line",
        vec![
            ("nr", AV::Num(nr as u64, false)),
            ("mi", AV::Num(mi, false)),
            ("ci", AV::Num(ci, false)),
            ("mb", AV::Num(mb, false)),
            ("cb", AV::Num(cb, false)),
        ],
        true,
    );
    Line { nr, mi, ci, mb, cb, shell }
}

fn gen_source(g: &mut G, name: String, cfg: &Cfg) -> Source {
    let nl = g.rng.below(cfg.max_lines + 1) as usize;
    let mut nrs: Vec<u32> = (1..=40).collect();
    g.rng.shuffle(&mut nrs);
    nrs.truncate(nl);
    if nl > 0 && g.rng.chance(1, 15) {
        nrs[0] = *g.rng.pick(&[0u32, u32::MAX, 65536, 1_000_000]);
    }
    if g.rng.chance(2, 3) {
        nrs.sort();
    }
    let mut body: Vec<SItem> = vec![];
    for nr in nrs {
        body.extend(gap(g).into_iter().map(SItem::Junk));
        body.push(SItem::Line(gen_line(g, nr)));
    }
    if g.rng.chance(2, 3) {
        for _ in 0..g.rng.range(1, 3) {
            body.extend(gap(g).into_iter().map(SItem::Junk));
            body.push(SItem::Junk(junk_elem(g, Level::Source)));
        }
    }
    if !body.is_empty() {
        body.extend(gap(g).into_iter().map(SItem::Junk));
    }
    // a childless container (written `<sourcefile …/>` two times in three): `Empty` for the reader
    if g.rng.chance(1, 12) {
        body.clear();
        g.f("container.childless.sourcefile");
    }
    let shell = mk_shell(g, "sourcefile", vec![("name", AV::Text(name.clone()))], body.is_empty());
    Source { name, shell, body }
}

pub fn gen_package(g: &mut G, name: String, cfg: &Cfg) -> Package {
    // file names of the <sourcefile> elements
    let nsrc = g.rng.below(cfg.max_src + 1) as usize;
    let mut pool: Vec<&str> = FILE_NAMES.to_vec();
    g.rng.shuffle(&mut pool);
    let mut files: Vec<String> = pool[..nsrc].iter().map(|s| s.to_string()).collect();
    // classes
    let ncls = g.rng.below(cfg.max_cls + 1) as usize;
    let mut shorts: Vec<String> = vec![];
    let mut specs: Vec<(String, Option<String>)> = vec![]; // (short, sfn)
    for _ in 0..ncls {
        let nested = !specs.is_empty() && g.rng.chance(2, 5);
        let (mut short, sfn) = if nested {
            g.f("class.nested");
            let (o, f) = specs[g.rng.below(specs.len() as u64) as usize].clone();
            (format!("{}${}", o, g.rng.pick(INNER_NAMES)), f)
        } else {
            let short = g.rng.pick(CLASS_NAMES).to_string();
            let sfn = match g.rng.below(20) {
                0..=11 if !files.is_empty() => Some(files[g.rng.below(files.len() as u64) as usize].clone()),
                0..=14 => Some(pool[nsrc + g.rng.below((pool.len() - nsrc) as u64) as usize].to_string()),
                _ => None,
            };
            (short, sfn)
        };
        let mut k = 2;
        while shorts.contains(&short) {
            short = format!("{}{}", short, k);
            k += 1;
        }
        if sfn.is_none() {
            g.f("class.fallback_filename");
            // sometimes a <sourcefile> for the fallback name exists too
            let top = short.split('$').next().unwrap().to_string();
            let f = format!("{}.java", top);
            if g.rng.chance(1, 2) && !files.contains(&f) {
                files.push(f);
            }
        }
        shorts.push(short.clone());
        specs.push((short, sfn));
    }
    // several classes per file?
    for i in 0..specs.len() {
        for j in 0..i {
            let fi = specs[i].1.clone().unwrap_or(format!("{}.java", specs[i].0.split('$').next().unwrap()));
            let fj = specs[j].1.clone().unwrap_or(format!("{}.java", specs[j].0.split('$').next().unwrap()));
            if fi == fj {
                g.f("class.several_per_file");
            }
        }
    }
    let mut elems: Vec<PItem> = vec![];
    for (short, sfn) in &specs {
        let fq = match g.rng.below(10) {
            0..=6 => format!("{}/{}", name, short),
            7 | 8 => short.clone(),
            _ => format!("other/pre/{}", short),
        };
        match sfn {
            Some(f) if !files.contains(f) => g.f("record.class_only"),
            _ => {}
        }
        elems.push(PItem::Class(gen_class(g, fq, sfn.clone(), cfg)));
    }
    let n_classes = elems.len();
    for f in &files {
        let used = specs.iter().any(|(s, sfn)| {
            sfn.clone().unwrap_or(format!("{}.java", s.split('$').next().unwrap())) == *f
        });
        if !used {
            g.f("record.orphan_sourcefile");
        }
        elems.push(PItem::Source(gen_source(g, f.clone(), cfg)));
    }
    // order: classes then sourcefiles (JaCoCo's own), or arbitrary interleaving
    if g.rng.chance(1, 2) {
        g.rng.shuffle(&mut elems);
        let kinds: Vec<bool> = elems.iter().map(|e| matches!(e, PItem::Class(_))).collect();
        let sorted = kinds.iter().take(n_classes).all(|&k| k);
        if !sorted && n_classes > 0 && n_classes < kinds.len() {
            g.f("package.interleaved_order");
        }
    }
    let mut body: Vec<PItem> = vec![];
    for e in elems {
        body.extend(gap(g).into_iter().map(PItem::Junk));
        body.push(e);
        if g.rng.chance(1, 20) {
            body.push(PItem::Junk(junk_elem(g, Level::Package)));
        }
    }
    if g.rng.chance(2, 3) {
        for _ in 0..g.rng.range(1, 3) {
            body.extend(gap(g).into_iter().map(PItem::Junk));
            body.push(PItem::Junk(junk_elem(g, Level::Package)));
        }
    }
    if !body.is_empty() {
        body.extend(gap(g).into_iter().map(PItem::Junk));
    }
    // a childless container (written `<package …/>` two times in three): `Empty` for the reader
    if g.rng.chance(1, 12) {
        body.clear();
        g.f("container.childless.package");
    }
    let shell = mk_shell(g, "package", vec![("name", AV::Text(name.clone()))], body.is_empty());
    Package { name, shell, body }
}

fn arrange(g: &mut G, pkgs: &mut std::collections::VecDeque<Package>, depth: u32) -> Vec<TItem> {
    let mut items: Vec<TItem> = vec![];
    while let Some(p) = pkgs.pop_front() {
        items.extend(gap(g).into_iter().map(TItem::Junk));
        if depth < 2 && g.rng.chance(1, 5) {
            g.f(if depth == 0 { "doc.group" } else { "doc.nested_group" });
            let take = g.rng.below(3).min(pkgs.len() as u64) as usize;
            let mut sub: std::collections::VecDeque<Package> = std::collections::VecDeque::new();
            sub.push_back(p);
            for _ in 0..take {
                sub.push_back(pkgs.pop_front().unwrap());
            }
            let mut body = arrange(g, &mut sub, depth + 1);
            if g.rng.chance(1, 2) {
                body.push(TItem::Junk(junk_elem(g, Level::Top)));
                body.extend(gap(g).into_iter().map(TItem::Junk));
            }
            let gn = g_name(g);
            let sh = mk_shell(g, "group", vec![("name", AV::Text(gn))], body.is_empty());
            items.push(TItem::Wrap(sh, body));
        } else {
            items.push(TItem::Package(p));
        }
    }
    items.extend(gap(g).into_iter().map(TItem::Junk));
    items
}

fn g_name(g: &mut G) -> String {
    g.rng.pick(&["JaCoCo Coverage Report", "module-a", "R&D <core>", "", "grüppe"]).to_string()
}

pub fn gen_doc(g: &mut G, cfg: &Cfg) -> Doc {
    let npk = if g.rng.chance(1, 40) { 0 } else { g.rng.range(1, cfg.max_pk) };
    let mut pkgs = std::collections::VecDeque::new();
    let mut prev: Option<String> = None;
    for _ in 0..npk {
        let name = match &prev {
            Some(p) if g.rng.chance(1, 6) => {
                g.f("doc.repeated_package_name");
                p.clone()
            }
            _ => g.rng.pick(PKG_NAMES).to_string(),
        };
        prev = Some(name.clone());
        pkgs.push_back(gen_package(g, name, cfg));
    }
    let mut inner: Vec<TItem> = vec![];
    for _ in 0..g.rng.below(3) {
        inner.extend(gap(g).into_iter().map(TItem::Junk));
        inner.push(TItem::Junk(junk_elem(g, Level::Top)));
    }
    if g.rng.chance(1, 25) {
        // an empty group
        let sh = mk_shell(g, "group", vec![("name", AV::Text("empty".into()))], true);
        inner.push(TItem::Wrap(sh, vec![]));
    }
    inner.extend(arrange(g, &mut pkgs, 0));
    for _ in 0..g.rng.below(3) {
        inner.push(TItem::Junk(junk_elem(g, Level::Top)));
        inner.extend(gap(g).into_iter().map(TItem::Junk));
    }
    let mut top: Vec<TItem> = vec![];
    if g.rng.chance(4, 5) {
        top.push(TItem::Junk(Node::Other(
            g.rng
                .pick(&[
                    "<?xml version=\"1.0\" encoding=\"UTF-8\" standalone=\"yes\"?>",
                    "<?xml version=\"1.0\" encoding=\"UTF-8\"?>",
                    "<?xml version='1.0'?>",
                ])
                .to_string(),
        )));
        if g.rng.chance(1, 2) {
            top.push(TItem::Junk(Node::Text("\n".into())));
        }
    }
    if g.rng.chance(4, 5) {
        g.f("doc.doctype");
        top.push(TItem::Junk(Node::Other(
            g.rng
                .pick(&[
                    "<!DOCTYPE report PUBLIC \"-//JACOCO//DTD Report 1.1//EN\" \"report.dtd\">",
                    "<!DOCTYPE report PUBLIC \"-//JACOCO//DTD Report 1.0//EN\" \"report.dtd\">",
                ])
                .to_string(),
        )));
        if g.rng.chance(1, 2) {
            top.push(TItem::Junk(Node::Text("\n".into())));
        }
    }
    if g.rng.chance(11, 12) {
        let gn = g_name(g);
        let sh = mk_shell(g, "report", vec![("name", AV::Text(gn))], inner.is_empty());
        top.push(TItem::Wrap(sh, inner));
    } else {
        g.f("doc.no_report_wrapper");
        top.extend(inner);
    }
    if g.rng.chance(1, 2) {
        top.push(TItem::Junk(Node::Text("\n".into())));
    }
    Doc { top }
}
