//! C15 — run data only scales counts. Synthetic gcno/gcda bytes from random CFGs and flows plus the
//! gcno/gcda corpus of /repo/test go through the real `grcov::Gcno::compute` with gcda sequences of
//! length 0–6 (shuffled, repeated k times, with mismatching members); the same cases, as abstract
//! records, go through the Lean model (`gm_c15`); the C15 laws are evaluated on the
//! implementation's own results.
mod gcno;
use corrlib::*;
use gcno::*;
use serde_json::{json, Value};

/// one notes file with a pool of gcda files and the gcda sequences to try
struct Case {
    notes: Notes,
    gcno: Vec<u8>,
    pool: Vec<Gcda>,
    pool_bytes: Vec<Vec<u8>>,
    /// which pool members are mismatching (must be rejected)
    bad: Vec<bool>,
    branch: bool,
    /// generator knowledge, when the case is synthetic: per function (GenFn, per pool member flow)
    fns: Vec<GenFn>,
    flows: Vec<Vec<Option<Vec<u64>>>>,
    origin: String,
}

fn case_json(c: &Case, seq: &[usize], what: &str) -> Value {
    json!({
        "origin": c.origin,
        "branch": c.branch,
        "gcno": hex(&c.gcno),
        "gcdas": seq.iter().map(|&i| hex(&c.pool_bytes[i])).collect::<Vec<_>>(),
        "bad": seq.iter().map(|&i| c.bad[i]).collect::<Vec<_>>(),
        "model_req": compute_req(&c.notes, &seq.iter().map(|&i| &c.pool[i]).collect::<Vec<_>>(), c.branch),
        "check": what,
    })
}

fn gen_case(rng: &mut Rng, idx: u64) -> Case {
    // every threshold the reader tests (47, 48, 80, 90): the value, one below, one above
    let version = match rng.below(16) {
        0 | 1 | 2 => 42,
        3 => 122,
        4 => *rng.pick(&[46u32, 47, 49]),
        5 => *rng.pick(&[79u32, 80, 81]),
        6 | 7 => *rng.pick(&[89u32, 90, 90, 91]),
        8 => *rng.pick(&[93u32, 101]),
        _ => 48,
    };
    // versions 89..99 also in the letter spelling of gcc 9 (`A90*`, `A93*`)
    let letter = version >= 89 && version < 100 && rng.chance(1, 2);
    let checksum = rng.next() as u32;
    let nf = rng.range(1, 3) as u32;
    let small = rng.chance(1, 3);
    let mut fns: Vec<GenFn> = (0..nf).map(|i| gen_fn(rng, version, i, small)).collect();
    // the smallest functions (2, 1, 0 blocks) now and then
    if rng.chance(1, 8) {
        let k = rng.below(nf as u64) as u32;
        fns[k as usize] = gen_tiny_fn(rng, version, k);
    }
    if nf > 1 && rng.chance(1, 10) {
        // two functions with the same name in the same file: the later one wins in `functions`
        let (n, f) = (fns[0].name.clone(), fns[0].file.clone());
        fns[1].name = n;
        fns[1].file = f.clone();
        for (_, items) in fns[1].lines.iter_mut() {
            for it in items.iter_mut() {
                if let LineItem::File(x) = it {
                    if x != b"other.h" {
                        *x = f.clone();
                    }
                }
            }
        }
    }
    if nf > 1 && rng.chance(1, 12) {
        fns[1].ident = fns[0].ident; // duplicate identifier: gcda records go to the later one
    }
    // 1 in 5 functions announces its blocks in two or three BLOCKS records (no compiler does;
    // `GcovBlock.no` then differs from the position in the block table)
    for f in fns.iter_mut() {
        if f.nblocks >= 3 && rng.chance(1, 5) {
            let parts = if f.nblocks >= 4 && rng.chance(1, 2) { 3 } else { 2 };
            let mut cuts: Vec<u32> = Vec::new();
            while (cuts.len() as u32) < parts - 1 {
                let c = rng.range(1, f.nblocks as u64 - 1) as u32;
                if !cuts.contains(&c) {
                    cuts.push(c);
                }
            }
            cuts.sort();
            cuts.push(f.nblocks);
            let mut prev = 0;
            f.block_split = cuts.iter().map(|&c| { let k = c - prev; prev = c; k }).collect();
        }
    }
    // every sixth case: names that are not UTF-8 (decoded lossily by `read_string`)
    if idx % 6 == 3 {
        mangle_names(rng, &mut fns);
    }
    // every ninth case: the ARCS record of block 0 of the first function is not the first one
    // (`EntryFirst` of Props/C15Entry.lean violated)
    if idx % 9 == 4 {
        fns[0].move_entry_arcs_back();
    }
    let mut recs = Vec::new();
    for f in &fns {
        recs.extend(f.recs());
    }
    let notes = Notes { version, checksum, recs };
    let mut gcno = encode_gcno(&notes);
    if letter {
        restamp_letter(&mut gcno, version);
    }
    let npool = rng.below(5) as usize;
    let huge = rng.chance(1, 15);
    let mut pool = Vec::new();
    let mut flows: Vec<Vec<Option<Vec<u64>>>> = Vec::new();
    let mut bad = Vec::new();
    for _ in 0..npool {
        let mut per_fn: Vec<Option<Vec<u64>>> = Vec::new();
        let mut parts: Vec<(&GenFn, Vec<u64>)> = Vec::new();
        let mut order: Vec<usize> = (0..fns.len()).collect();
        if rng.chance(1, 3) {
            rng.shuffle(&mut order);
        }
        per_fn.resize(fns.len(), None);
        for &i in &order {
            if rng.chance(1, 6) {
                continue; // function absent from this gcda
            }
            let walks = if rng.chance(1, 4) { 0 } else { rng.range(1, 5) };
            let scale = if huge {
                1u64 << rng.range(54, 59)
            } else if rng.chance(1, 10) {
                rng.range(1, 1 << 33)
            } else {
                1
            };
            let mut flow = gen_flow(rng, &fns[i], walks, scale);
            if huge && rng.chance(1, 2) {
                // counters near the top of u64 (no longer a flow): sums overflow
                for v in flow.iter_mut() {
                    *v = *rng.pick(&[1u64 << 62, 1 << 63, u64::MAX, (1 << 63) - 1, 0, 1]);
                }
            }
            per_fn[i] = Some(flow.clone());
            parts.push((&fns[i], flow));
        }
        let mut d = gcda_for(version, checksum, &parts);
        if rng.chance(1, 4) {
            let at = rng.below(d.recs.len() as u64 + 1) as usize;
            d.recs.insert(at, DRec::Other);
        }
        pool.push(d);
        flows.push(per_fn);
        bad.push(false);
    }
    // mismatching members
    let nbad = if rng.chance(1, 2) { rng.range(1, 2) } else { 0 };
    for _ in 0..nbad {
        let mut d = if npool > 0 && rng.chance(3, 4) {
            pool[rng.below(npool as u64) as usize].clone()
        } else {
            let parts: Vec<(&GenFn, Vec<u64>)> =
                fns.iter().map(|f| (f, vec![1; f.arcs.len()])).collect();
            gcda_for(version, checksum, &parts)
        };
        match rng.below(7) {
            0 => d.version = if version == 48 { 42 } else { 48 },
            1 => d.checksum = d.checksum.wrapping_add(1 + rng.below(5) as u32),
            k => {
                // function-level mismatch in one function record
                let fidx: Vec<usize> = (0..d.recs.len())
                    .filter(|&i| matches!(d.recs[i], DRec::Func { .. }))
                    .collect();
                if fidx.is_empty() {
                    d.checksum ^= 0x8000_0000;
                } else {
                    let i = *rng.pick(&fidx);
                    if let DRec::Func { len, ident, lsum, csum } = &mut d.recs[i] {
                        match k {
                            2 => *lsum = lsum.wrapping_add(1),
                            3 => {
                                if version >= 47 {
                                    *csum ^= 1
                                } else {
                                    *lsum ^= 4
                                }
                            }
                            4 => *ident = 1000 + *ident,
                            5 => *len = 1,
                            _ => {
                                // wrong number of counters in the following record
                                if let Some(DRec::Arcs { len, vals }) = d.recs.get_mut(i + 1) {
                                    vals.push(3);
                                    *len += 2;
                                } else {
                                    d.checksum ^= 2;
                                }
                            }
                        }
                    }
                }
            }
        }
        pool.push(d);
        flows.push(vec![None; fns.len()]);
        bad.push(true);
    }
    // truncated gcda (cut in the middle of the counters): also rejected
    if !pool.is_empty() && !bad[0] && rng.chance(1, 8) {
        let mut d = pool[0].clone();
        if let Some(p) = d.recs.iter().position(|r| matches!(r, DRec::Arcs { vals, .. } if !vals.is_empty())) {
            if let DRec::Arcs { vals, .. } = &mut d.recs[p] {
                vals.pop();
            }
            d.recs.truncate(p + 1);
            d.recs.push(DRec::Short);
            pool.push(d);
            flows.push(vec![None; fns.len()]);
            bad.push(true);
        }
    }
    if huge {
        for f in fns.iter_mut() {
            f.tree_ok = false; // no flow knowledge for the executed-iff-entered oracle
        }
    }
    let mut enc_rng = rng.fork();
    let pool_bytes: Vec<Vec<u8>> = pool
        .iter()
        .map(|d| {
            let mut b = encode_gcda(d, &mut enc_rng);
            if letter {
                restamp_letter(&mut b, d.version);
            }
            if let Some(DRec::Short) = d.recs.last() {
                // cut inside the last counter
                let n = b.len();
                b.truncate(n.saturating_sub(4).max(12));
                b.extend_from_slice(&[0, 0]);
            }
            b
        })
        .collect();
    Case {
        notes,
        gcno,
        pool,
        pool_bytes,
        bad,
        branch: rng.chance(3, 4),
        fns,
        flows,
        origin: format!("synthetic#{}", idx),
    }
}

fn corpus_cases(rep: &mut Report, rng: &mut Rng) -> Vec<Case> {
    let mut out = Vec::new();
    let mut files = Vec::new();
    fn walk(dir: &std::path::Path, files: &mut Vec<std::path::PathBuf>) {
        if let Ok(rd) = std::fs::read_dir(dir) {
            let mut es: Vec<_> = rd.filter_map(|e| e.ok()).map(|e| e.path()).collect();
            es.sort();
            for p in es {
                if p.is_dir() {
                    if p.is_symlink() {
                        continue;
                    }
                    walk(&p, files);
                } else if p.extension().map(|e| e == "gcno").unwrap_or(false) {
                    files.push(p);
                }
            }
        }
    }
    // minimised past failures first: corpus/C15/*.json (gcno + gcda bytes, the expected answer)
    let mut js: Vec<std::path::PathBuf> = std::fs::read_dir("/verif/corpus/C15")
        .map(|rd| rd.flatten().map(|e| e.path()).filter(|p| p.extension().map(|x| x == "json").unwrap_or(false)).collect())
        .unwrap_or_default();
    js.sort();
    for p in js {
        let Some(v) = std::fs::read_to_string(&p).ok().and_then(|t| serde_json::from_str::<Value>(&t).ok()) else { continue };
        let case = &v["case"];
        let gcno = unhex(case["gcno"].as_str().unwrap_or(""));
        let pool_bytes: Vec<Vec<u8>> =
            case["gcdas"].as_array().map(|a| a.iter().map(|x| unhex(x.as_str().unwrap_or(""))).collect()).unwrap_or_default();
        let branch = case["branch"].as_bool().unwrap_or(true);
        let (Some(notes), Some(pool)) = (decode_gcno(&gcno), pool_bytes.iter().map(|b| decode_gcda(b)).collect::<Option<Vec<Gcda>>>()) else {
            rep.notes.push(format!("corpus file {} is not decodable", p.display()));
            continue;
        };
        rep.count("corpus.c15.cases");
        if let Some(exp) = case["expect"].as_str() {
            let out = show_compute(&run_compute(&gcno, &pool_bytes, branch));
            if out != exp {
                rep.fail("oracle", None, format!("corpus case {}: Gcno::compute gives {} where {} was recorded", p.display(), out, exp), case.clone());
            }
        }
        let n = pool.len();
        out.push(Case { notes, gcno, pool, pool_bytes, bad: vec![false; n], branch, fns: vec![], flows: vec![], origin: format!("corpus {}", p.display()) });
    }
    walk(std::path::Path::new("/repo/test"), &mut files);
    let limit = if rep.thorough() { 320_000 } else { 40_000 };
    for p in files {
        let gcno = match std::fs::read(&p) {
            Ok(b) => b,
            Err(_) => continue,
        };
        if gcno.len() > limit {
            rep.count("corpus.skipped_large");
            continue;
        }
        let notes = match decode_gcno(&gcno) {
            Some(n) => n,
            None => {
                rep.count("corpus.undecodable_gcno");
                continue;
            }
        };
        let mut pool = Vec::new();
        let mut pool_bytes = Vec::new();
        let gp = p.with_extension("gcda");
        if let Ok(b) = std::fs::read(&gp) {
            if let Some(d) = decode_gcda(&b) {
                // a second, different run: the same records with other counter values
                let mut d2 = d.clone();
                for r in d2.recs.iter_mut() {
                    if let DRec::Arcs { vals, .. } = r {
                        for v in vals.iter_mut() {
                            *v = (*v % 1000) * 3 + rng.below(4);
                        }
                    }
                }
                let mut er = rng.fork();
                let b2 = encode_gcda(&d2, &mut er);
                pool.push(d);
                pool_bytes.push(b);
                if decode_gcda(&b2).as_ref() == Some(&d2) {
                    pool.push(d2);
                    pool_bytes.push(b2);
                }
            } else {
                rep.count("corpus.undecodable_gcda");
            }
        }
        rep.count("corpus.files");
        let n = pool.len();
        out.push(Case {
            notes,
            gcno,
            pool,
            pool_bytes,
            bad: vec![false; n],
            branch: true,
            fns: vec![],
            flows: vec![],
            origin: p.display().to_string(),
        });
    }
    out
}

struct Pending {
    case_idx: usize,
    seq: Vec<usize>,
    impl_out: String,
    what: &'static str,
}

/// evaluate the C15 laws on the implementation for one case; returns (law, message, sequence)
fn oracles(rep: &mut Report, c: &Case, rng: &mut Rng) -> Vec<(String, Vec<usize>)> {
    let mut fails = Vec::new();
    let good: Vec<usize> = (0..c.pool.len()).filter(|&i| !c.bad[i]).collect();
    let run = |seq: &[usize]| {
        let ds: Vec<Vec<u8>> = seq.iter().map(|&i| c.pool_bytes[i].clone()).collect();
        run_compute(&c.gcno, &ds, c.branch)
    };
    let r0 = run(&[]);
    let s0 = match &r0 {
        Ok(r) => {
            if !all_zero(r) {
                fails.push(("no gcda, yet a count, an executed function or a taken branch is reported".to_string(), vec![]));
            }
            Some(structure(r))
        }
        Err(e) => {
            rep.count(&format!("oracle.nogcda.{}", e.split(' ').take(2).collect::<Vec<_>>().join("_")));
            None
        }
    };
    // all good members, in order and shuffled
    if !good.is_empty() {
        let r1 = run(&good);
        if let (Ok(r), Some(s0)) = (&r1, &s0) {
            if &structure(r) != s0 {
                fails.push(("line set / function set / branch slots differ from the no-gcda result".to_string(), good.clone()));
            }
        }
        if r1.is_ok() && r0.is_err() {
            fails.push(("computation fails without gcda but succeeds with gcda".to_string(), good.clone()));
        }
        for _ in 0..2 {
            let mut sh = good.clone();
            // longer histories: repeat some members
            while sh.len() < 6 && rng.chance(1, 3) {
                sh.push(*rng.pick(&good));
            }
            let base = run(&sh);
            let mut sh2 = sh.clone();
            rng.shuffle(&mut sh2);
            let r2 = run(&sh2);
            rep.count(&format!("oracle.order.len={}", sh.len()));
            match (&base, &r2) {
                (Ok(a), Ok(b)) => {
                    if show_results(a) != show_results(b) {
                        fails.push((format!("result depends on the order of the gcda files: {:?} vs {:?}", sh, sh2), sh2.clone()));
                    }
                }
                (Err(a), Err(b)) => {
                    // neither order is accepted: the law holds; which failure is met first (an
                    // error of one member or the u64 overflow of another) may depend on the order
                    if a.starts_with("panic") != b.starts_with("panic") {
                        rep.count("oracle.order.both_fail_differently");
                    }
                    rep.count("oracle.order.both_fail");
                }
                (a, b) => fails.push((
                    format!("one order is accepted and the other is not: {} / {}", show_compute(a), show_compute(b)),
                    sh2.clone(),
                )),
            }
        }
        // k copies of one member
        let m = *rng.pick(&good);
        let k = rng.range(2, 6) as usize;
        let one = run(&[m]);
        let many = run(&vec![m; k]);
        rep.count(&format!("oracle.kcopies.k={}", k));
        match (&one, &many) {
            (Ok(a), Ok(b)) => match scaled(a, k as u64) {
                Some(want) => {
                    if show_results(&want) != show_results(b) {
                        fails.push((format!("{} copies of one gcda are not {} times one copy", k, k), vec![m; k]));
                    }
                }
                None => fails.push(("k copies accepted although k times the counts overflow".to_string(), vec![m; k])),
            },
            (Ok(_), Err(e)) if e.starts_with("panic") && e.contains("overflow") => {
                rep.count("oracle.kcopies.u64_overflow_panic");
            }
            (Err(e), Err(_)) => {
                rep.count(&format!("oracle.kcopies.single_fails.{}", e.split(' ').next().unwrap_or("")));
            }
            (a, b) => fails.push((
                format!("one copy: {} ; {} copies: {}", show_compute(a), k, show_compute(b)),
                vec![m; k],
            )),
        }
    }
    // a run that executed nothing changes nothing: the good members followed / preceded by a gcda
    // with the same records and every counter zero give the result of the good members alone
    // (every function is "entered in some gcda files and not in others")
    if !good.is_empty() {
        let src = &c.pool[*rng.pick(&good)];
        let z = zeroed(src);
        let mut er = rng.fork();
        let zb = encode_gcda(&z, &mut er);
        if decode_gcda(&zb).as_ref() == Some(&z) {
            let base: Vec<Vec<u8>> = good.iter().map(|&i| c.pool_bytes[i].clone()).collect();
            let mut after = base.clone();
            after.push(zb.clone());
            let mut before = vec![zb.clone()];
            before.extend(base.iter().cloned());
            let (r0, r1, r2) = (run_compute(&c.gcno, &base, c.branch), run_compute(&c.gcno, &after, c.branch), run_compute(&c.gcno, &before, c.branch));
            rep.count("oracle.zero_run");
            match (&r0, &r1, &r2) {
                (Ok(a), Ok(b), Ok(d)) => {
                    if show_results(a) != show_results(b) || show_results(a) != show_results(d) {
                        rep.count("oracle.zero_run.differs");
                        let which = if show_results(a) != show_results(b) { "after" } else { "before" };
                        fails.push((format!("a gcda whose counters are all zero, supplied {} the others, changes the result", which), good.clone()));
                    }
                }
                (Err(_), Err(_), Err(_)) => rep.count("oracle.zero_run.all_fail"),
                (a, b, d) => fails.push((
                    format!("a gcda whose counters are all zero changes acceptance: {} / {} / {}", show_compute(a), show_compute(b), show_compute(d)),
                    good.clone(),
                )),
            }
        }
    }
    // mismatching members are rejected wherever they stand
    for b in 0..c.pool.len() {
        if !c.bad[b] {
            continue;
        }
        let mut seq = good.clone();
        let at = rng.below(seq.len() as u64 + 1) as usize;
        seq.insert(at, b);
        let r = run(&seq);
        rep.count("oracle.mismatch");
        match &r {
            Ok(_) => fails.push(("a mismatching gcda was accepted".to_string(), seq.clone())),
            Err(e) if e.starts_with("panic") && !e.contains("overflow") => {
                fails.push((format!("a mismatching gcda panics instead of failing with an error: {}", e), seq.clone()))
            }
            Err(_) => {}
        }
    }
    // executed iff entered / recovered flow (generator knowledge)
    if !c.fns.is_empty() && !good.is_empty() {
        let r1 = run(&good);
        if let Ok(res) = &r1 {
            let dup_ident = c.fns.iter().enumerate().any(|(i, f)| c.fns.iter().skip(i + 1).any(|g| g.ident == f.ident));
            for (fi, f) in c.fns.iter().enumerate() {
                let lossy = |b: &[u8]| String::from_utf8_lossy(b).to_string();
                let later_same = c.fns.iter().skip(fi + 1).any(|g| lossy(&g.name) == lossy(&f.name) && lossy(&g.file) == lossy(&f.file));
                if later_same || dup_ident || !f.tree_ok {
                    continue;
                }
                let entered: u128 = good
                    .iter()
                    .filter_map(|&g| c.flows[g][fi].as_ref())
                    .map(|fl| fl.first().copied().unwrap_or(0) as u128)
                    .sum();
                let file = String::from_utf8_lossy(&f.file).to_string();
                let name = String::from_utf8_lossy(&f.name).to_string();
                let got = res.iter().find(|(k, _)| *k == file).and_then(|(_, cv)| cv.functions.get(&name)).map(|x| x.executed);
                rep.count(if entered > 0 { "oracle.executed.entered" } else { "oracle.executed.never_entered" });
                if got != Some(entered > 0) {
                    fails.push((
                        format!("function {} entered {} times but executed flag is {:?}", name, entered, got),
                        good.clone(),
                    ));
                }
            }
        }
    }
    fails
}

fn nontrivial(c: &Case, seq: &[usize]) -> bool {
    seq.iter().any(|&i| {
        c.pool[i].recs.iter().any(|r| matches!(r, DRec::Arcs { vals, .. } if vals.iter().any(|&v| v > 0)))
    })
}

pub fn run(rep: &mut Report) {
    // a panic of the harness itself (not of the code under test) must be visible
    if let Err(p) = guarded(std::panic::AssertUnwindSafe(|| run_inner(rep))) {
        eprintln!("harness panicked: {}", p);
        std::process::exit(2);
    }
}

fn run_inner(rep: &mut Report) {
    rep.rule = "synthetic: 1-3 functions over random CFGs (entry arc, forward skeleton to the exit block, back/self/parallel \
                arcs, random spanning tree incl. the virtual exit->entry arc, 1/8 with a broken tree flag, fake flags, lines \
                shared between blocks and foreign-file lines; every sixth case with function / file names that are not \
                UTF-8, LINES records naming the file by other ill-formed bytes that decode alike, names colliding after \
                decoding; one case in eight with a function of 2, 1 or 0 blocks), gcno versions 402*/408*/B22* and every threshold of the reader with its neighbours (406*/407*/409*, 709*/800*/801*, 809*/900*/901* also spelled A89*/A90*/A91*, A93*, B01*), gcda = arc counters of random \
                walks (sometimes scaled to 2^58..2^62 or absent per function), sequences of 0-6 gcda: in order, shuffled with \
                repeats, k copies, followed/preceded by an all-zero gcda, with version/checksum/function-checksum/ident/\
                length/count mismatches and truncation; gcda files re-stamped byte-wise (other canonical stamp, middle \
                character changed, last character changed); \
                corpus: every decodable gcno(+gcda) under /repo/test. non-trivial = the gcda sequence carries a non-zero \
                counter; distinct = distinct canonical model request"
        .to_string();
    let mut rng = Rng::new(rep.seed ^ 0xC15);
    let mut cases = corpus_cases(rep, &mut rng);
    let n = rep.budget(1500, 10);
    for i in 0..n {
        cases.push(gen_case(&mut rng, i));
    }

    let mut reqs: Vec<String> = Vec::new();
    let mut pend: Vec<Pending> = Vec::new();
    let mut orng = rng.fork();
    for (ci, c) in cases.iter().enumerate() {
        rep.count(&format!("gcno.version={}", c.notes.version));
        rep.count(&format!("pool.size={}", c.pool.len()));
        // ---- property oracles on the implementation
        for (msg, seq) in oracles(rep, c, &mut orng) {
            rep.fail("oracle", None, msg.clone(), case_json(c, &seq, &msg));
        }
        // shapes outside the compilers' output: what the real code does is recorded
        for f in &c.fns {
            if f.block_split.len() > 1 {
                rep.count("gen.fn.several_blocks_records");
            }
        }
        if let Some(f) = c.fns.first() {
            if !f.entry_first() {
                rep.count("gen.fn.entry_not_first");
                let good: Vec<usize> = (0..c.pool.len()).filter(|&i| !c.bad[i]).collect();
                let lossy = |b: &[u8]| String::from_utf8_lossy(b).to_string();
                let names_unique = c.fns.iter().filter(|g| lossy(&g.name) == lossy(&f.name) && lossy(&g.file) == lossy(&f.file)).count() == 1;
                if !good.is_empty() && names_unique {
                    let bytes: Vec<Vec<u8>> = good.iter().map(|&i| c.pool_bytes[i].clone()).collect();
                    if let Ok(rs) = run_compute(&c.gcno, &bytes, c.branch) {
                        let entry_idx = f.arcs.iter().position(|a| a.0 == 0).unwrap_or(0);
                        let (mut entered, mut first) = (0u128, 0u128);
                        for &i in &good {
                            if let Some(Some(fl)) = c.flows.get(i).map(|v| v[0].clone()) {
                                entered += fl.get(entry_idx).copied().unwrap_or(0) as u128;
                                first += fl.first().copied().unwrap_or(0) as u128;
                            }
                        }
                        let file = String::from_utf8_lossy(&f.file).to_string();
                        let name = String::from_utf8_lossy(&f.name).to_string();
                        let got = rs.iter().find(|(k, _)| *k == file).and_then(|(_, cv)| cv.functions.get(&name)).map(|x| x.executed);
                        if got == Some(first > 0) {
                            rep.count("entry_not_first.impl.executed_is_first_arc_taken");
                        } else {
                            rep.count("entry_not_first.impl.executed_is_something_else");
                        }
                        if got != Some(entered > 0) {
                            rep.count("entry_not_first.impl.executed_differs_from_entered");
                        }
                    }
                }
            }
        }
        // ---- tie: a few sequences per case through both sides
        let all: Vec<usize> = (0..c.pool.len()).collect();
        let good: Vec<usize> = all.iter().copied().filter(|&i| !c.bad[i]).collect();
        let mut seqs: Vec<(Vec<usize>, &'static str)> = vec![(vec![], "compute")];
        if !good.is_empty() {
            seqs.push((good.clone(), "compute"));
            seqs.push((good.clone(), "state"));
            let mut sh = good.clone();
            while sh.len() < 6 && rng.chance(1, 2) {
                sh.push(*rng.pick(&good));
            }
            rng.shuffle(&mut sh);
            seqs.push((sh, "compute"));
            let m = *rng.pick(&good);
            let k = rng.range(2, 5) as usize;
            seqs.push((vec![m; k], "compute"));
        } else {
            seqs.push((vec![], "state"));
        }
        if all.len() > good.len() {
            let mut sh = all.clone();
            rng.shuffle(&mut sh);
            seqs.push((sh, "compute"));
            let b = *rng.pick(&all.iter().copied().filter(|&i| c.bad[i]).collect::<Vec<_>>());
            seqs.push((vec![b], "compute"));
        }
        for (seq, what) in seqs {
            let ds: Vec<&Gcda> = seq.iter().map(|&i| &c.pool[i]).collect();
            let bytes: Vec<Vec<u8>> = seq.iter().map(|&i| c.pool_bytes[i].clone()).collect();
            let (req, out) = if what == "compute" {
                (compute_req(&c.notes, &ds, c.branch), show_compute(&run_compute(&c.gcno, &bytes, c.branch)))
            } else {
                (state_req(&c.notes, &ds), run_state(&c.gcno, &bytes))
            };
            rep.count(&format!("seq.len={}", seq.len()));
            rep.count(&format!("impl.{}.{}", what, out.split(' ').take(if out.starts_with("err") { 2 } else { 1 }).collect::<Vec<_>>().join("_")));
            rep.case(&req, nontrivial(c, &seq));
            reqs.push(req);
            pend.push(Pending { case_idx: ci, seq: seq.clone(), impl_out: out.clone(), what });
            // the same computation from the file bytes (byte layer of the model)
            let total: usize = c.gcno.len() + bytes.iter().map(|b| b.len()).sum::<usize>();
            if what == "compute" && total < 40_000 {
                let mut rb = format!("computeb {} {}", if c.branch { 1 } else { 0 }, hex_tok(&c.gcno));
                for b in &bytes {
                    rb.push(' ');
                    rb.push_str(&hex_tok(b));
                }
                rep.count("tie.bytes");
                reqs.push(rb);
                pend.push(Pending { case_idx: ci, seq: seq.clone(), impl_out: out.clone(), what: "compute (bytes)" });
            }
        }
    }
    // ---- malformed bytes: truncations and word substitutions of generated files (tie of the byte
    // layer; the laws of C15 say nothing about these beyond "error, never a partial result")
    let n_mal = rep.budget(1500, 10);
    let mut mal: Vec<(String, String, Value)> = Vec::new();
    let synth: Vec<usize> =
        (0..cases.len()).filter(|&i| !cases[i].fns.is_empty() && cases[i].gcno.len() < 3000).collect();
    for _ in 0..n_mal {
        if synth.is_empty() {
            break;
        }
        let c = &cases[*rng.pick(&synth)];
        let good: Vec<usize> = (0..c.pool.len()).filter(|&i| !c.bad[i]).collect();
        let mut gcno = c.gcno.clone();
        let mut gcdas: Vec<Vec<u8>> = good.iter().take(2).map(|&i| c.pool_bytes[i].clone()).collect();
        let target_gcda = !gcdas.is_empty() && rng.chance(1, 3);
        {
            let buf: &mut Vec<u8> = if target_gcda { let k = rng.below(gcdas.len() as u64) as usize; &mut gcdas[k] } else { &mut gcno };
            match rng.below(4) {
                0 => {
                    let n = rng.below(buf.len() as u64 + 1) as usize;
                    buf.truncate(n);
                    rep.count("malformed.truncate");
                }
                1 | 2 => {
                    if buf.len() >= 8 {
                        let w = rng.below((buf.len() / 4) as u64) as usize * 4;
                        let old = u32::from_le_bytes(buf[w..w + 4].try_into().unwrap());
                        let v: u32 = match rng.below(7) {
                            0 => 0,
                            1 => 1,
                            2 => 0x7fff_ffff,
                            3 => 0x8000_0000,
                            4 => 0xffff_ffff,
                            5 => old.wrapping_add(1),
                            _ => old.wrapping_sub(1),
                        };
                        buf[w..w + 4].copy_from_slice(&v.to_le_bytes());
                        rep.count("malformed.word");
                    }
                }
                _ => {
                    if !buf.is_empty() {
                        let i = rng.below(buf.len() as u64) as usize;
                        buf[i] ^= 1 << rng.below(8);
                        rep.count("malformed.bitflip");
                    }
                }
            }
        }
        // names that are no longer UTF-8 after the corruption are decoded lossily (/repo 7f9b2b3):
        // they stay in the stream
        let r = run_compute(&gcno, &gcdas, c.branch);
        if let Ok(rs) = &r {
            if rs.iter().any(|(k, cv)| k.contains('\u{fffd}') || cv.functions.keys().any(|n| n.contains('\u{fffd}'))) {
                rep.count("malformed.result_has_replacement_char");
            }
        }
        let out = show_compute(&r);
        let mut rb = format!("computeb {} {}", if c.branch { 1 } else { 0 }, hex_tok(&gcno));
        for b in &gcdas {
            rb.push(' ');
            rb.push_str(&hex_tok(b));
        }
        rep.count(&format!("malformed.impl.{}", out.split(' ').take(if out.starts_with("err") { 2 } else { 1 }).collect::<Vec<_>>().join("_")));
        let cj = json!({"origin": "malformed", "branch": c.branch, "gcno": hex(&gcno),
            "gcdas": gcdas.iter().map(|b| hex(b)).collect::<Vec<_>>(), "bad": [], "model_req": rb.clone(), "check": "bytes"});
        rep.evaluations += 1;
        mal.push((rb, out, cj));
    }
    for (rb, _, _) in &mal {
        reqs.push(rb.clone());
    }
    let answers = run_model_named("gm_c15", &reqs, &rep.workdir, "gcno");
    let base = pend.len();
    stamp_stream(rep, &mut rng, &cases);
    for (k, (_, out, cj)) in mal.iter().enumerate() {
        if &answers[base + k] != out {
            rep.disagreements_checked += 1;
            let mut cj = cj.clone();
            cj["impl"] = json!(out);
            cj["model"] = json!(answers[base + k]);
            rep.fail("disagreement", None, "Gcno::compute differs from the byte-level model on a corrupted file".into(), cj);
        }
    }
    for (i, p) in pend.iter().enumerate() {
        if i % 97 == 0 {
            let cut = |s: &str| if s.len() > 600 { format!("{}…", &s[..600]) } else { s.to_string() };
            rep.sample(json!({"request": cut(&reqs[i]), "impl": cut(&p.impl_out), "model": cut(&answers[i])}));
        }
        if answers[i] != p.impl_out {
            rep.disagreements_checked += 1;
            let c = &cases[p.case_idx];
            let mut cj = case_json(c, &p.seq, p.what);
            cj["impl"] = json!(p.impl_out);
            cj["model"] = json!(answers[i]);
            rep.fail(
                "disagreement",
                None,
                format!("Gcno::{} differs from the model on {} (theorems C15_* no longer transfer)", p.what, c.origin),
                cj,
            );
        }
    }
}

/// Version stamps over their four BYTES (second review, item 35). For a synthetic case and a good
/// gcda: the gcda is re-stamped (a) with another canonical stamp – must be rejected with "GCOV
/// versions do not match" (`C15_stamp_mismatch_rejected_partial`); (b) with the same stamp whose
/// middle character is changed (`478*` against `408*`) – the property says rejected; the code
/// accepts it, because `get_version` ignores that character: named finding
/// C15-version-stamp-middle-char-ignored, matched precisely (stamps differ in the middle character
/// only, first character a digit, and the result is the result of the correctly stamped gcda).
/// Every case also goes through the byte model; `c15.stamp` ties `stampSpelling`, `spellingVersion`
/// and `stampCanon` to independent Rust versions on random headers.
fn stamp_stream(rep: &mut Report, rng: &mut Rng, cases: &[Case]) {
    let synth: Vec<usize> = (0..cases.len())
        .filter(|&i| !cases[i].fns.is_empty() && cases[i].gcno.len() < 3000 && cases[i].notes.version < 80 && (0..cases[i].pool.len()).any(|k| !cases[i].bad[k]))
        .collect();
    let n = rep.budget(300, 10);
    let mut reqs: Vec<String> = Vec::new();
    let mut want: Vec<(String, Value)> = Vec::new();
    for _ in 0..n {
        if synth.is_empty() || rep.verdict_clear() {
            break;
        }
        let c = &cases[*rng.pick(&synth)];
        let good: Vec<usize> = (0..c.pool.len()).filter(|&i| !c.bad[i]).collect();
        let g = *rng.pick(&good);
        let mut gcda = c.pool_bytes[g].clone();
        let ns = stamp_spelling(&c.gcno).unwrap();
        let kind = rng.below(3);
        // spelling order [c2, c1, c0, '*'] = file bytes 7, 6, 5, 4 of a little-endian file
        let mut s = ns;
        match kind {
            0 => {
                // another canonical stamp
                loop {
                    let t: [u8; 4] = *rng.pick(&[*b"402*", *b"407*", *b"408*", *b"409*", *b"800*", *b"A93*", *b"B01*", *b"B22*", *b"401*", *b"508*"]);
                    if t != ns {
                        s = t;
                        break;
                    }
                }
            }
            1 => {
                // the middle character changed: same number for a digit-first stamp
                s[1] = *rng.pick(&[b'1', b'7', b'9', b'5', b'a', b'/']);
            }
            _ => {
                // the last character changed: another number
                s[2] = if ns[2] == b'3' { b'4' } else { b'3' };
            }
        }
        gcda[4] = s[3];
        gcda[5] = s[2];
        gcda[6] = s[1];
        gcda[7] = s[0];
        let r = run_compute(&c.gcno, &[gcda.clone()], c.branch);
        let out = show_compute(&r);
        let rb = format!("computeb {} {} {}", if c.branch { 1 } else { 0 }, hex_tok(&c.gcno), hex_tok(&gcda));
        let cj = json!({"origin": "stamp", "branch": c.branch, "gcno": hex(&c.gcno), "gcdas": [hex(&gcda)], "bad": [true],
            "model_req": rb.clone(), "check": "stamp", "notes_stamp": String::from_utf8_lossy(&ns), "gcda_stamp": String::from_utf8_lossy(&s)});
        rep.case(&rb, true);
        rep.count(&format!("stamp.kind={}.{}", kind, out.split(' ').take(if out.starts_with("err") { 2 } else { 1 }).collect::<Vec<_>>().join("_")));
        // oracle: different stamp bytes => rejected for the version
        if s != ns && out != "err versionMismatch" {
            let same = show_compute(&run_compute(&c.gcno, &[c.pool_bytes[g].clone()], c.branch));
            let middle_only = s[0] == ns[0] && s[2] == ns[2] && s[3] == ns[3] && s[1] != ns[1] && ns[0].is_ascii_digit();
            let finding = if middle_only && out == same { Some("C15-version-stamp-middle-char-ignored") } else { None };
            rep.count(if finding.is_some() { "stamp.finding.middle_char_ignored" } else { "stamp.unexplained" });
            rep.fail(
                "oracle",
                finding,
                format!("a gcda stamped {:?} is not rejected against notes stamped {:?}: {}", String::from_utf8_lossy(&s), String::from_utf8_lossy(&ns), out.chars().take(80).collect::<String>()),
                cj.clone(),
            );
        }
        if stamp_canonical(&s) && stamp_canonical(&ns) && s != ns {
            rep.count("stamp.canonical_mismatch");
        }
        reqs.push(rb);
        want.push((out, cj));
    }
    // spec functions of Gcno/Records.lean on random headers
    let m = rep.budget(400, 10);
    for _ in 0..m {
        let magic: &[u8] = *rng.pick(&[&b"oncg"[..], b"adcg", b"gcno", b"gcda", b"oncG"]);
        let pool: &[u8] = b"0123456789*ABZ@/:az\x00\xff";
        let mut h = magic.to_vec();
        let t: [u8; 4] = if rng.chance(1, 2) {
            let sp: [u8; 4] = *rng.pick(&[*b"408*", *b"402*", *b"A93*", *b"B01*", *b"478*", *b"903*", *b"A48*", *b"Z99*", *b"900*", *b"4085"]);
            sp
        } else {
            [*rng.pick(pool), *rng.pick(pool), *rng.pick(pool), if rng.chance(2, 3) { b'*' } else { *rng.pick(pool) }]
        };
        let le = magic[0] == b'o' || magic[0] == b'a';
        if le {
            h.extend_from_slice(&[t[3], t[2], t[1], t[0]]);
        } else {
            h.extend_from_slice(&t);
        }
        if rng.chance(1, 10) {
            h.truncate(rng.range(4, 7) as usize);
        }
        let is_gcno = magic[1] == b'n' || magic[1] == b'c' && magic[2] == b'n';
        let which = if is_gcno { "g" } else { "d" };
        let expect = match stamp_spelling(&h) {
            Some(sp) if &h[..4] != b"oncG" => format!(
                "ok {} {} {}",
                hex(&sp),
                stamp_number(&sp).map(|v| v.to_string()).unwrap_or("-".into()),
                if stamp_canonical(&sp) { 1 } else { 0 }
            ),
            _ => "none".to_string(),
        };
        let rq = format!("c15.stamp {} {}", which, hex(&h));
        rep.case(&rq, true);
        rep.count(&format!("stamp.spec.{}", expect.split(' ').next().unwrap_or("")));
        reqs.push(rq.clone());
        want.push((expect, json!({"origin": "stamp-spec", "model_req": rq, "gcno": "", "gcdas": [], "bad": [], "branch": true, "check": "stamp-spec"})));
    }
    let answers = run_model_named("gm_c15", &reqs, &rep.workdir, "stamp");
    for (i, (w, cj)) in want.iter().enumerate() {
        if &answers[i] != w {
            rep.disagreements_checked += 1;
            let mut cj = cj.clone();
            cj["impl"] = json!(w);
            cj["model"] = json!(answers[i]);
            rep.fail("disagreement", None, "stamp: the byte model / the stamp functions of Gcno/Records.lean differ from the code / the independent reading".into(), cj);
        }
    }
}

pub fn replay(rep: &mut Report, case: &Value) {
    if case["check"].as_str() == Some("stamp-spec") {
        return;
    }
    let gcno = unhex(case["gcno"].as_str().unwrap_or(""));
    let gcdas: Vec<Vec<u8>> = case["gcdas"]
        .as_array()
        .map(|a| a.iter().map(|v| unhex(v.as_str().unwrap_or(""))).collect())
        .unwrap_or_default();
    let bad: Vec<bool> = case["bad"]
        .as_array()
        .map(|a| a.iter().map(|v| v.as_bool().unwrap_or(false)).collect())
        .unwrap_or_default();
    let branch = case["branch"].as_bool().unwrap_or(true);
    let r = run_compute(&gcno, &gcdas, branch);
    let r0 = run_compute(&gcno, &[], branch);
    rep.case(case["model_req"].as_str().unwrap_or(""), true);
    // laws that can be re-evaluated from the bytes alone
    if let Ok(z) = &r0 {
        if !all_zero(z) {
            rep.fail("oracle", None, "no gcda, yet something is reported as run".into(), case.clone());
        }
    }
    if let (Ok(a), Ok(z)) = (&r, &r0) {
        if structure(a) != structure(z) {
            rep.fail("oracle", None, "structure differs from the no-gcda result".into(), case.clone());
        }
    }
    if bad.iter().any(|&b| b) && r.is_ok() {
        // a re-stamped gcda whose stamp differs from the notes' in the middle character only
        // (digit-first stamp) keeps its finding id
        let finding = match (case["check"].as_str(), stamp_spelling(&gcno), gcdas.first().and_then(|g| stamp_spelling(g))) {
            (Some("stamp"), Some(ns), Some(s)) if s[0] == ns[0] && s[2] == ns[2] && s[3] == ns[3] && s[1] != ns[1] && ns[0].is_ascii_digit() => {
                Some("C15-version-stamp-middle-char-ignored")
            }
            _ => None,
        };
        rep.fail("oracle", finding, "a mismatching gcda was accepted".into(), case.clone());
    }
    let mut rev = gcdas.clone();
    rev.reverse();
    let rr = run_compute(&gcno, &rev, branch);
    if let (Ok(a), Ok(b)) = (&r, &rr) {
        if show_results(a) != show_results(b) {
            rep.fail("oracle", None, "result depends on the gcda order".into(), case.clone());
        }
    }
    if r.is_ok() != rr.is_ok() {
        rep.fail("oracle", None, "one order accepted, the reverse not".into(), case.clone());
    }
    if gcdas.len() >= 2 && gcdas.iter().all(|g| *g == gcdas[0]) {
        let one = run_compute(&gcno, &gcdas[..1], branch);
        if let (Ok(o), Ok(m)) = (&one, &r) {
            if scaled(o, gcdas.len() as u64).map(|s| show_results(&s)) != Some(show_results(m)) {
                rep.fail("oracle", None, "k copies are not k times one copy".into(), case.clone());
            }
        }
    }
    if let Some(req) = case["model_req"].as_str() {
        let m = run_model_named("gm_c15", &[req.to_string()], &rep.workdir, "replay");
        let out = show_compute(&r);
        if rep.failures.is_empty() && m[0] != out {
            rep.disagreements_checked += 1;
            rep.fail("disagreement", None, format!("impl {} / model {}", out, m[0]), case.clone());
        }
    }
}

fn main() {
    corrlib::run_main("C15", run, replay);
}
