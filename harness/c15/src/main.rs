//! C15 — stub, to be written.
use corrlib::*;

pub fn run(_rep: &mut Report) {}
pub fn replay(_rep: &mut Report, _case: &serde_json::Value) {}

fn main() {
    corrlib::run_main("C15", run, replay);
}
