//! Shared by c15 and c08 (c08 includes this file with `#[path]`): abstract gcno/gcda records, the
//! text protocol of `gm_c15`/`gm_c08`, a byte encoder and an independent byte decoder for the record
//! layouts `reader.rs` accepts, a random CFG/flow generator, and canonical observations of the
//! real `grcov::Gcno`.
#![allow(dead_code)]
use corrlib::*;
use grcov::{CovResult, Gcno, GcovReaderBuf, LittleEndian};
use std::collections::BTreeMap;

pub const TAG_FUNCTION: u32 = 0x0100_0000;
pub const TAG_BLOCKS: u32 = 0x0141_0000;
pub const TAG_ARCS: u32 = 0x0143_0000;
pub const TAG_LINES: u32 = 0x0145_0000;
pub const TAG_COUNTER_ARCS: u32 = 0x01a1_0000;
pub const TAG_OBJECT_SUMMARY: u32 = 0xa100_0000;
pub const TAG_PROGRAM_SUMMARY: u32 = 0xa300_0000;

#[derive(Clone, Debug, PartialEq)]
pub enum LineItem {
    Line(u32),
    File(Vec<u8>),
}

#[derive(Clone, Debug, PartialEq)]
pub enum NRec {
    Func {
        ident: u32,
        lsum: u32,
        csum: u32,
        name: Vec<u8>,
        file: Vec<u8>,
        start: u32,
        end: u32,
    },
    Blocks(u32),
    Arcs(u32, Vec<(u32, u32)>),
    Lines(u32, Vec<LineItem>),
    Short,
    /// a blocks record (format 8 and later) that announces more blocks than bytes are left
    BlockCount,
}

#[derive(Clone, Debug, PartialEq)]
pub struct Notes {
    /// internal version number as computed by `read_version` (42, 48, 122 …)
    pub version: u32,
    pub checksum: u32,
    pub recs: Vec<NRec>,
}

#[derive(Clone, Debug, PartialEq)]
pub enum DRec {
    Func { len: u32, ident: u32, lsum: u32, csum: u32 },
    Arcs { len: u32, vals: Vec<u64> },
    Other,
    Short,
    /// record shorter than its content
    RecordLen,
}

#[derive(Clone, Debug, PartialEq)]
pub struct Gcda {
    pub version: u32,
    pub checksum: u32,
    pub recs: Vec<DRec>,
}

// ---------------------------------------------------------------------------------------------
// text protocol

pub fn recs_text(recs: &[NRec]) -> String {
    if recs.is_empty() {
        return "-".into();
    }
    recs.iter()
        .map(|r| match r {
            NRec::Func { ident, lsum, csum, name, file, start, end } => format!(
                "F{},{},{},{},{},{},{}",
                ident,
                lsum,
                csum,
                start,
                end,
                hex(name),
                hex(file)
            ),
            NRec::Blocks(n) => format!("B{}", n),
            NRec::Arcs(src, v) => {
                let mut s = format!("A{}", src);
                for (d, f) in v {
                    s.push_str(&format!(",{}:{}", d, f));
                }
                s
            }
            NRec::Lines(b, items) => {
                let mut s = format!("L{}", b);
                for it in items {
                    match it {
                        LineItem::Line(n) => s.push_str(&format!(",{}", n)),
                        LineItem::File(f) => s.push_str(&format!(",f{}", hex(f))),
                    }
                }
                s
            }
            NRec::Short => "S".to_string(),
            NRec::BlockCount => "X".to_string(),
        })
        .collect::<Vec<_>>()
        .join(";")
}

pub fn notes_text(n: &Notes) -> String {
    format!("{} {} {}", n.version, n.checksum, recs_text(&n.recs))
}

pub fn gcda_text(d: &Gcda) -> String {
    let mut s = format!("D{}:{}", d.version, d.checksum);
    for r in &d.recs {
        match r {
            DRec::Func { len, ident, lsum, csum } => {
                s.push_str(&format!(";f{},{},{},{}", len, ident, lsum, csum))
            }
            DRec::Arcs { len, vals } => {
                s.push_str(&format!(";a{}", len));
                for v in vals {
                    s.push_str(&format!(",{}", v));
                }
            }
            DRec::Other => s.push_str(";o"),
            DRec::Short => s.push_str(";s"),
            DRec::RecordLen => s.push_str(";r"),
        }
    }
    s
}

pub fn compute_req(n: &Notes, ds: &[&Gcda], branch: bool) -> String {
    let mut s = format!("compute {} {}", if branch { 1 } else { 0 }, notes_text(n));
    for d in ds {
        s.push(' ');
        s.push_str(&gcda_text(d));
    }
    s
}

pub fn state_req(n: &Notes, ds: &[&Gcda]) -> String {
    let mut s = format!("state {}", notes_text(n));
    for d in ds {
        s.push(' ');
        s.push_str(&gcda_text(d));
    }
    s
}

// ---------------------------------------------------------------------------------------------
// byte encoder (little endian, the layouts read by reader.rs)

pub fn version_tag(version: u32) -> [u8; 4] {
    // file bytes of the little-endian word whose big-endian spelling is e.g. "408*"
    if version >= 100 {
        [
            b'*',
            b'0' + (version % 10) as u8,
            b'0' + ((version / 10) % 10) as u8,
            b'A' + (version / 100) as u8,
        ]
    } else {
        [b'*', b'0' + (version % 10) as u8, b'0', b'0' + (version / 10) as u8]
    }
}

/// little-endian writer; `.1` = the byte ranges that are not words (string contents): a
/// big-endian file has the same bytes there and every other 32-bit word byte-swapped
pub struct W(pub Vec<u8>, pub Vec<(usize, usize)>);
impl W {
    pub fn u32(&mut self, v: u32) {
        self.0.extend_from_slice(&v.to_le_bytes());
    }
    pub fn u64(&mut self, v: u64) {
        self.u32(v as u32);
        self.u32((v >> 32) as u32);
    }
    pub fn string(&mut self, s: &[u8]) {
        if s.is_empty() {
            self.u32(0);
            return;
        }
        // length in words, NUL padded (at least one NUL like gcov's own writer)
        let words = s.len() / 4 + 1;
        self.u32(words as u32);
        let start = self.0.len();
        self.0.extend_from_slice(s);
        for _ in s.len()..words * 4 {
            self.0.push(0);
        }
        self.1.push((start, self.0.len()));
    }
}

fn string_words(s: &[u8]) -> u32 {
    if s.is_empty() {
        1
    } else {
        1 + (s.len() / 4 + 1) as u32
    }
}

pub fn encode_gcno(n: &Notes) -> Vec<u8> {
    let v = n.version;
    let mut w = W(Vec::new(), Vec::new());
    w.0.extend_from_slice(b"oncg");
    w.0.extend_from_slice(&version_tag(v));
    w.u32(n.checksum);
    if v >= 90 {
        w.string(b"/cwd");
    }
    if v >= 80 {
        w.u32(0);
    }
    for r in &n.recs {
        match r {
            NRec::Func { ident, lsum, csum, name, file, start, end } => {
                w.u32(TAG_FUNCTION);
                let mut len = 2 + string_words(name) + string_words(file) + 1;
                if v >= 47 {
                    len += 1;
                }
                if v >= 80 {
                    len += 3;
                }
                if v >= 90 {
                    len += 1;
                }
                w.u32(len);
                w.u32(*ident);
                w.u32(*lsum);
                if v >= 47 {
                    w.u32(*csum);
                }
                w.string(name);
                if v >= 80 {
                    w.u32(0); // artificial
                }
                w.string(file);
                w.u32(*start);
                if v >= 80 {
                    w.u32(1); // start column
                    w.u32(*end);
                    if v >= 90 {
                        w.u32(1); // end column
                    }
                }
            }
            NRec::Blocks(k) => {
                w.u32(TAG_BLOCKS);
                if v < 80 {
                    w.u32(*k);
                    for _ in 0..*k {
                        w.u32(0);
                    }
                } else {
                    w.u32(1);
                    w.u32(*k);
                }
            }
            NRec::Arcs(src, arcs) => {
                w.u32(TAG_ARCS);
                w.u32(1 + 2 * arcs.len() as u32);
                w.u32(*src);
                for (d, f) in arcs {
                    w.u32(*d);
                    w.u32(*f);
                }
            }
            NRec::Lines(b, items) => {
                w.u32(TAG_LINES);
                let mut len = 1 + 2;
                for it in items {
                    len += match it {
                        LineItem::Line(_) => 1,
                        LineItem::File(f) => 1 + string_words(f),
                    };
                }
                w.u32(len);
                w.u32(*b);
                for it in items {
                    match it {
                        LineItem::Line(l) => w.u32(*l),
                        LineItem::File(f) => {
                            w.u32(0);
                            w.string(f);
                        }
                    }
                }
                w.u32(0);
                w.u32(0);
            }
            NRec::Short | NRec::BlockCount => {
                // a record header whose payload is missing
                w.u32(TAG_FUNCTION);
                return w.0;
            }
        }
    }
    w.u32(0);
    w.0
}

pub fn encode_gcda(d: &Gcda, rng: &mut Rng) -> Vec<u8> {
    let mut w = W(Vec::new(), Vec::new());
    w.0.extend_from_slice(b"adcg");
    w.0.extend_from_slice(&version_tag(d.version));
    w.u32(d.checksum);
    for r in &d.recs {
        match r {
            DRec::Func { len, ident, lsum, csum } => {
                w.u32(TAG_FUNCTION);
                w.u32(*len);
                if *len >= 2 {
                    w.u32(*ident);
                    w.u32(*lsum);
                    if d.version >= 47 {
                        w.u32(*csum);
                    }
                    // a longer record is skipped to its end
                    let used = if d.version >= 47 { 3 } else { 2 };
                    for _ in used..*len {
                        w.u32(0xdead_beef);
                    }
                }
            }
            DRec::Arcs { len, vals } => {
                w.u32(TAG_COUNTER_ARCS);
                w.u32(*len);
                for v in vals {
                    w.u64(*v);
                }
                if *len as usize > 2 * vals.len() {
                    for _ in 2 * vals.len()..*len as usize {
                        w.u32(0);
                    }
                }
            }
            DRec::Other => {
                if rng.chance(1, 2) {
                    w.u32(TAG_OBJECT_SUMMARY);
                    w.u32(3);
                    w.u32(1);
                    w.u32(7);
                    w.u32(9);
                } else {
                    w.u32(TAG_PROGRAM_SUMMARY);
                    w.u32(3);
                    w.u32(0);
                    w.u32(0);
                    w.u32(1);
                }
            }
            DRec::Short | DRec::RecordLen => {
                return w.0;
            }
        }
    }
    w.u32(0);
    w.0
}

// ---------------------------------------------------------------------------------------------
// independent byte decoder (used for files that do not come from the generator)

struct R<'a> {
    b: &'a [u8],
    pos: usize,
}
impl<'a> R<'a> {
    fn u32(&mut self) -> Option<u32> {
        if self.pos + 4 <= self.b.len() {
            let v = u32::from_le_bytes(self.b[self.pos..self.pos + 4].try_into().unwrap());
            self.pos += 4;
            Some(v)
        } else {
            self.pos += 4;
            None
        }
    }
    fn u64(&mut self) -> Option<u64> {
        let lo = self.u32()? as u64;
        let hi = self.u32()? as u64;
        Some(hi << 32 | lo)
    }
    /// None = buffer too short; a string without any non-NUL byte is empty
    fn string(&mut self) -> Option<Option<Vec<u8>>> {
        let n = self.u32()? as usize;
        if n == 0 {
            return Some(Some(vec![]));
        }
        let start = self.pos;
        self.pos += 4 * n;
        if self.pos > self.b.len() {
            return None;
        }
        let mut s = self.b[start..self.pos].to_vec();
        while s.last() == Some(&0) {
            s.pop();
        }
        Some(Some(s))
    }
    /// the `skip!` macro: strict
    fn skip(&mut self, n: usize) -> Option<()> {
        self.pos += n;
        if self.pos < self.b.len() {
            Some(())
        } else {
            None
        }
    }
}

pub fn parse_version(b: &[u8]) -> Option<u32> {
    if b.len() < 8 || b[4] != b'*' {
        return None;
    }
    let d = |c: u8| c.wrapping_sub(b'0') as u32; // u8 wrapping, like get_version
    if b[7] >= b'A' {
        Some(100 * (b[7] - b'A') as u32 + 10 * d(b[6]) + d(b[5]))
    } else {
        Some(10 * d(b[7]) + d(b[5]))
    }
}

/// Decode a little-endian gcno into records. `None` when the file is not a regular little-endian
/// gcno (other endianness, all-NUL strings, …): such files are left to the byte-level checks.
pub fn decode_gcno(b: &[u8]) -> Option<Notes> {
    if b.len() < 12 || &b[..4] != b"oncg" {
        return None;
    }
    let version = parse_version(b)?;
    let mut r = R { b, pos: 8 };
    let checksum = r.u32()?;
    if version >= 90 {
        r.string()??;
    }
    if version >= 80 {
        r.skip(4)?;
    }
    let mut recs = Vec::new();
    let mut have_fn = false;
    // `total_blocks` of `read_functions`: a file cannot announce more blocks than it has bytes
    let mut total_blocks: usize = 0;
    macro_rules! rd {
        ($e:expr) => {
            match $e {
                Some(v) => v,
                None => {
                    recs.push(NRec::Short);
                    return Some(Notes { version, checksum, recs });
                }
            }
        };
    }
    loop {
        let tag = match r.u32() {
            Some(t) => t,
            None => break,
        };
        if tag == 0 {
            break;
        }
        let length = rd!(r.u32());
        if tag == TAG_FUNCTION {
            let ident = rd!(r.u32());
            let lsum = rd!(r.u32());
            let csum = if version >= 47 { rd!(r.u32()) } else { 0 };
            let name = rd!(r.string())?;
            let (file, start, end);
            if version < 80 {
                file = rd!(r.string())?;
                start = rd!(r.u32());
                end = 0;
            } else {
                rd!(r.u32());
                file = rd!(r.string())?;
                start = rd!(r.u32());
                rd!(r.u32());
                end = rd!(r.u32());
                if version >= 90 {
                    rd!(r.u32());
                }
            }
            have_fn = true;
            recs.push(NRec::Func { ident, lsum, csum, name, file, start, end });
        } else if tag == TAG_BLOCKS {
            if !have_fn {
                continue;
            }
            if version < 80 {
                for _ in 0..length {
                    rd!(r.skip(4));
                }
                total_blocks += length as usize;
                if total_blocks > r.b.len() {
                    recs.push(NRec::BlockCount);
                    return Some(Notes { version, checksum, recs });
                }
                recs.push(NRec::Blocks(length));
            } else {
                let k = rd!(r.u32());
                if k as usize > r.b.len().saturating_sub(r.pos) {
                    recs.push(NRec::BlockCount);
                    return Some(Notes { version, checksum, recs });
                }
                total_blocks += k as usize;
                if total_blocks > r.b.len() {
                    recs.push(NRec::BlockCount);
                    return Some(Notes { version, checksum, recs });
                }
                recs.push(NRec::Blocks(k));
            }
        } else if tag == TAG_ARCS {
            if !have_fn {
                continue;
            }
            let cnt = length.saturating_sub(1) / 2;
            let src = rd!(r.u32());
            let mut arcs = Vec::new();
            for _ in 0..cnt {
                let d = rd!(r.u32());
                let f = rd!(r.u32());
                arcs.push((d, f));
            }
            recs.push(NRec::Arcs(src, arcs));
        } else if tag == TAG_LINES {
            if !have_fn {
                continue;
            }
            let blk = rd!(r.u32());
            let mut items = Vec::new();
            loop {
                let l = rd!(r.u32());
                if l != 0 {
                    items.push(LineItem::Line(l));
                } else {
                    let f = rd!(r.string())?;
                    if f.is_empty() {
                        break;
                    }
                    items.push(LineItem::File(f));
                }
            }
            recs.push(NRec::Lines(blk, items));
        }
    }
    Some(Notes { version, checksum, recs })
}

pub fn decode_gcda(b: &[u8]) -> Option<Gcda> {
    if b.len() < 12 || &b[..4] != b"adcg" {
        return None;
    }
    let version = parse_version(b)?;
    let mut r = R { b, pos: 8 };
    let checksum = r.u32()?;
    let mut recs = Vec::new();
    let mut have_fn = false;
    macro_rules! rd {
        ($e:expr) => {
            match $e {
                Some(v) => v,
                None => {
                    recs.push(DRec::Short);
                    return Some(Gcda { version, checksum, recs });
                }
            }
        };
    }
    loop {
        let tag = match r.u32() {
            Some(t) => t,
            None => break,
        };
        if tag == 0 {
            break;
        }
        let length = rd!(r.u32());
        let end = r.pos + 4 * length as usize;
        if tag == TAG_FUNCTION {
            if length == 0 {
                recs.push(DRec::Func { len: 0, ident: 0, lsum: 0, csum: 0 });
                continue;
            }
            if length == 1 {
                recs.push(DRec::Func { len: 1, ident: 0, lsum: 0, csum: 0 });
                return Some(Gcda { version, checksum, recs });
            }
            let ident = rd!(r.u32());
            let lsum = rd!(r.u32());
            let csum = if version >= 47 { rd!(r.u32()) } else { 0 };
            have_fn = true;
            recs.push(DRec::Func { len: length, ident, lsum, csum });
        } else if tag == TAG_COUNTER_ARCS {
            if !have_fn {
                continue;
            }
            let mut vals = Vec::new();
            let mut short = false;
            for _ in 0..length / 2 {
                match r.u64() {
                    Some(v) => vals.push(v),
                    None => {
                        short = true;
                        break;
                    }
                }
            }
            recs.push(DRec::Arcs { len: length, vals });
            if short {
                // the reader fails inside this record if it needs the missing counters, and
                // right after it otherwise
                recs.push(DRec::Short);
                return Some(Gcda { version, checksum, recs });
            }
        } else if tag == TAG_OBJECT_SUMMARY {
            rd!(r.u32());
            rd!(r.skip(4));
            if length == 9 {
                rd!(r.u32());
            }
            recs.push(DRec::Other);
        } else if tag == TAG_PROGRAM_SUMMARY {
            if length > 0 {
                rd!(r.skip(4));
                rd!(r.skip(4));
                rd!(r.u32());
            }
            recs.push(DRec::Other);
        } else {
            recs.push(DRec::Other);
        }
        if end < r.pos {
            recs.push(DRec::RecordLen);
            return Some(Gcda { version, checksum, recs });
        }
        let n = end - r.pos;
        rd!(r.skip(n));
    }
    Some(Gcda { version, checksum, recs })
}

// ---------------------------------------------------------------------------------------------
// observations of the real code

pub fn err_kind(msg: &str) -> &'static str {
    if msg.starts_with("GCOV versions do not match") {
        "versionMismatch"
    } else if msg.starts_with("File checksums do not match") {
        "checksumMismatch"
    } else if msg.starts_with("Invalid header length") {
        "headerLen"
    } else if msg.starts_with("Checksum mismatch") {
        "fnChecksum"
    } else if msg.starts_with("Invalid function identifier") {
        "fnIdent"
    } else if msg.starts_with("Unexpected number of edges") {
        "edgeCount"
    } else if msg.starts_with("Not enough data in buffer") {
        "short"
    } else if msg.starts_with("Unexpected block number") || msg.starts_with("Unexpected destination block number") {
        "blockNo"
    } else if msg.starts_with("Unexpected number of blocks") || msg.starts_with("Unexpected total number of blocks") {
        "blockCount"
    } else if msg.starts_with("Record shorter than its content") {
        "recordLen"
    } else if msg.contains("memory allocation") || msg.contains("capacity overflow") {
        // `try_reserve` for an arcs record whose length is far beyond the file: had the
        // reservation succeeded the reads would have run out of data
        "short"
    } else if msg.starts_with("Unexpected version") {
        "version"
    } else if msg.starts_with("Unexpected file type") {
        "fileType"
    } else {
        "other"
    }
}

pub type Results = Vec<(String, CovResult)>;

/// `Gcno::compute` under `catch_unwind`: Ok(results) / Err("err kind" | "panic …")
pub fn run_compute(gcno: &[u8], gcdas: &[Vec<u8>], branch: bool) -> Result<Results, String> {
    let g = gcno.to_vec();
    let ds = gcdas.to_vec();
    match guarded(move || Gcno::compute("stem", g, ds, branch)) {
        Ok(Ok(r)) => Ok(r),
        Ok(Err(e)) => {
            let k = err_kind(&e.to_string());
            if k == "other" {
                Err(format!("err other:{}", e.to_string().replace(' ', "_")))
            } else {
                Err(format!("err {}", k))
            }
        }
        Err(p) => Err(format!("panic {}", p)),
    }
}

/// hex, with "-" for the empty string (a token of the line protocol must not be empty)
pub fn hex_tok(b: &[u8]) -> String {
    if b.is_empty() {
        "-".to_string()
    } else {
        hex(b)
    }
}

/// results sorted by the bytes of the file name (the model's order)
pub fn show_results_b(rs: &Results) -> String {
    let mut v: Vec<(&[u8], String)> = rs
        .iter()
        .map(|(k, c)| (k.as_bytes(), format!("K{}={}", hex(k.as_bytes()), show_cov(c))))
        .collect();
    v.sort_by(|a, b| a.0.cmp(b.0));
    v.into_iter().map(|x| x.1).collect::<Vec<_>>().join(" ")
}

pub fn show_compute(r: &Result<Results, String>) -> String {
    match r {
        Ok(rs) => format!("ok {}", show_results_b(rs)).trim_end().to_string(),
        Err(e) => {
            if e.starts_with("panic") {
                "panic".to_string()
            } else {
                e.clone()
            }
        }
    }
}

/// read the notes and all gcda, `stop`, and return the `{:?}` dump re-encoded like the model's
/// `state` answer (little-endian files only)
pub fn run_state(gcno: &[u8], gcdas: &[Vec<u8>]) -> String {
    let g = gcno.to_vec();
    let ds = gcdas.to_vec();
    let r = guarded(move || -> Result<String, String> {
        let mut gc = Gcno::new();
        gc.read_gcno(GcovReaderBuf::<LittleEndian>::new("stem", g))
            .map_err(|e| format!("err {}", err_kind(&e.to_string())))?;
        for d in ds {
            gc.read_gcda(GcovReaderBuf::<LittleEndian>::new("stem", d))
                .map_err(|e| format!("err {}", err_kind(&e.to_string())))?;
        }
        gc.stop();
        Ok(format!("{:?}", gc))
    });
    match r {
        Ok(Ok(dump)) => format!("ok {}", state_of_dump(&dump)).trim_end().to_string(),
        Ok(Err(e)) => e,
        Err(_) => "panic".to_string(),
    }
}

/// the raw `{:?}` dump of the Gcno after all gcda and `stop` (None when reading fails)
pub fn run_dump(gcno: &[u8], gcdas: &[Vec<u8>]) -> Option<String> {
    let g = gcno.to_vec();
    let ds = gcdas.to_vec();
    guarded(move || -> Option<String> {
        let mut gc = Gcno::new();
        gc.read_gcno(GcovReaderBuf::<LittleEndian>::new("stem", g)).ok()?;
        for d in ds {
            gc.read_gcda(GcovReaderBuf::<LittleEndian>::new("stem", d)).ok()?;
        }
        gc.stop();
        Some(format!("{:?}", gc))
    })
    .ok()
    .flatten()
}

#[derive(Debug, Clone, Default)]
pub struct BlockDump {
    pub counter: u64,
    pub inflow: u64,
    pub outflow: u64,
    pub lines: Vec<u32>,
    /// outgoing arcs: (destination block, count)
    pub succ: Vec<(usize, u64)>,
}

/// shape of the blocks that list one source line (what `get_line_count` works on)
#[derive(Debug, Clone, Copy, Default, PartialEq)]
pub struct LineShape {
    /// block occurrences of the line (>= 2: the multi-block rule is used)
    pub blocks: usize,
    /// the arcs between those blocks contain a circuit
    pub cycle: bool,
    /// … a circuit all of whose arcs were taken
    pub executed_cycle: bool,
    /// … and a block of the line with two taken arcs to blocks of the line that lie on taken
    /// circuits (two executed paths through the circuit structure)
    pub two_paths: bool,
}

impl FnDump {
    /// the blocks of `line` contain a loop with two entries (an irreducible region): some
    /// strongly connected set of >= 2 of them – at any nesting depth – is entered, from blocks
    /// outside the set, at two different blocks
    pub fn line_irreducible(&self, line: u32) -> bool {
        let set: Vec<usize> = (0..self.blocks.len()).filter(|&i| self.blocks[i].lines.contains(&line)).collect();
        self.irreducible_in(&set)
    }

    fn irreducible_in(&self, set: &[usize]) -> bool {
        let reach = |from: usize| -> Vec<usize> {
            let mut seen: Vec<usize> = Vec::new();
            let mut stack: Vec<usize> = vec![from];
            while let Some(x) = stack.pop() {
                for &(d, _) in &self.blocks[x].succ {
                    if set.contains(&d) && !seen.contains(&d) {
                        seen.push(d);
                        stack.push(d);
                    }
                }
            }
            seen
        };
        let reaches: Vec<Vec<usize>> = set.iter().map(|&b| reach(b)).collect();
        let mut done: Vec<usize> = Vec::new();
        for (i, &b) in set.iter().enumerate() {
            if done.contains(&b) || !reaches[i].contains(&b) {
                continue; // already handled, or not on any circuit
            }
            let scc: Vec<usize> = set
                .iter()
                .enumerate()
                .filter(|(j, &c)| c == b || (reaches[i].contains(&c) && reaches[*j].contains(&b)))
                .map(|(_, &c)| c)
                .collect();
            done.extend(scc.iter().copied());
            if scc.len() < 2 {
                continue;
            }
            let entries: Vec<usize> = scc
                .iter()
                .copied()
                .filter(|&c| {
                    (0..self.blocks.len())
                        .any(|p| !scc.contains(&p) && self.blocks[p].succ.iter().any(|(d, _)| *d == c))
                })
                .collect();
            if entries.len() >= 2 {
                return true;
            }
            // a natural loop: look inside its body (the loop without its header)
            let header = entries.first().copied().unwrap_or(scc[0]);
            let body: Vec<usize> = scc.iter().copied().filter(|&c| c != header).collect();
            if self.irreducible_in(&body) {
                return true;
            }
        }
        false
    }

    pub fn line_shape(&self, line: u32) -> LineShape {
        let occ: usize = self.blocks.iter().map(|b| b.lines.iter().filter(|l| **l == line).count()).sum();
        let set: Vec<usize> = (0..self.blocks.len()).filter(|&i| self.blocks[i].lines.contains(&line)).collect();
        let inset = |b: usize| set.contains(&b);
        // nodes on a circuit of the induced subgraph (arcs filtered by `taken`)
        let on_cycle = |taken: bool| -> Vec<usize> {
            let reach = |from: usize| -> Vec<usize> {
                let mut seen: Vec<usize> = Vec::new();
                let mut stack: Vec<usize> = vec![from];
                while let Some(x) = stack.pop() {
                    for &(d, c) in &self.blocks[x].succ {
                        if inset(d) && (!taken || c > 0) && !seen.contains(&d) {
                            seen.push(d);
                            stack.push(d);
                        }
                    }
                }
                seen
            };
            set.iter().copied().filter(|&b| reach(b).contains(&b)).collect()
        };
        let cyc = on_cycle(false);
        let ecyc = on_cycle(true);
        let two = ecyc.iter().any(|&b| {
            self.blocks[b].succ.iter().filter(|(d, c)| *c > 0 && ecyc.contains(d)).count() >= 2
        });
        LineShape { blocks: occ, cycle: !cyc.is_empty(), executed_cycle: !ecyc.is_empty(), two_paths: two }
    }
}

#[derive(Debug, Clone, Default)]
pub struct FnDump {
    pub file: String,
    pub blocks: Vec<BlockDump>,
}

/// per function: its file and, per block, counter / sum of incoming / sum of outgoing arc counts / lines
pub fn dump_functions(dump: &str) -> Vec<FnDump> {
    let sum = |s: &str| -> u64 {
        s.split(", ")
            .filter(|e| !e.trim().is_empty())
            .filter_map(|e| e.trim().split_once(" (").and_then(|(_, c)| c.trim_end_matches(')').parse::<u64>().ok()))
            .sum()
    };
    let mut out: Vec<FnDump> = Vec::new();
    for line in dump.lines() {
        if let Some(rest) = line.strip_prefix("===== ") {
            let file = rest
                .rsplit_once(" @ ")
                .map(|(_, f)| f.rsplit_once(':').map(|(p, _)| p).unwrap_or(f).to_string())
                .unwrap_or_default();
            out.push(FnDump { file, blocks: vec![] });
        } else if let Some(rest) = line.strip_prefix("Block : ") {
            let c = rest.split(" Counter : ").nth(1).and_then(|x| x.trim().parse().ok()).unwrap_or(0);
            if let Some(f) = out.last_mut() {
                f.blocks.push(BlockDump { counter: c, ..Default::default() });
            }
        } else if let Some(rest) = line.strip_prefix("\tSource Edges : ") {
            if let Some(b) = out.last_mut().and_then(|f| f.blocks.last_mut()) {
                b.inflow = sum(rest);
            }
        } else if let Some(rest) = line.strip_prefix("\tDestination Edges : ") {
            if let Some(b) = out.last_mut().and_then(|f| f.blocks.last_mut()) {
                b.outflow = sum(rest);
                b.succ = rest
                    .split(", ")
                    .filter(|e| !e.trim().is_empty())
                    .filter_map(|e| {
                        let (d, c) = e.trim().split_once(" (")?;
                        Some((d.trim_start_matches('*').parse().ok()?, c.trim_end_matches(')').parse().ok()?))
                    })
                    .collect();
            }
        } else if let Some(rest) = line.strip_prefix("\tLines : ") {
            if let Some(b) = out.last_mut().and_then(|f| f.blocks.last_mut()) {
                b.lines = rest.split(',').filter_map(|x| x.trim().parse().ok()).collect();
            }
        }
    }
    out
}

fn edge_list(s: &str) -> String {
    // "2 (5), *3 (0), " -> "2=5,*3=0"
    s.split(", ")
        .filter(|e| !e.trim().is_empty())
        .map(|e| {
            let (a, b) = e.trim().split_once(" (").unwrap();
            format!("{}={}", a, b.trim_end_matches(')'))
        })
        .collect::<Vec<_>>()
        .join(",")
}

pub fn state_of_dump(dump: &str) -> String {
    let mut funs: Vec<Vec<String>> = Vec::new();
    let mut cur: Option<(String, String, String, String)> = None;
    let flush = |cur: &mut Option<(String, String, String, String)>, funs: &mut Vec<Vec<String>>| {
        if let Some((c, s, d, l)) = cur.take() {
            funs.last_mut().unwrap().push(format!("{}:S{}:D{}:L{}", c, s, d, l));
        }
    };
    for line in dump.lines() {
        if line.starts_with("===== ") {
            flush(&mut cur, &mut funs);
            funs.push(Vec::new());
        } else if let Some(rest) = line.strip_prefix("Block : ") {
            flush(&mut cur, &mut funs);
            let c = rest.split(" Counter : ").nth(1).unwrap_or("?").trim().to_string();
            cur = Some((c, String::new(), String::new(), String::new()));
        } else if let Some(rest) = line.strip_prefix("\tSource Edges : ") {
            if let Some(c) = cur.as_mut() {
                c.1 = edge_list(rest);
            }
        } else if let Some(rest) = line.strip_prefix("\tDestination Edges : ") {
            if let Some(c) = cur.as_mut() {
                c.2 = edge_list(rest);
            }
        } else if let Some(rest) = line.strip_prefix("\tLines : ") {
            if let Some(c) = cur.as_mut() {
                c.3 = rest.trim_end_matches(',').to_string();
            }
        }
    }
    flush(&mut cur, &mut funs);
    funs.iter().map(|f| f.join("|")).collect::<Vec<_>>().join(";")
}

// ---------------------------------------------------------------------------------------------
// structure of a result (what C15 says is determined by the gcno alone)

pub fn structure(rs: &Results) -> String {
    let mut v: Vec<String> = rs
        .iter()
        .map(|(k, c)| {
            let lines: Vec<String> = c.lines.keys().map(|l| l.to_string()).collect();
            let brs: Vec<String> =
                c.branches.iter().map(|(l, v)| format!("{}:{}", l, v.len())).collect();
            let mut fns: Vec<String> = c
                .functions
                .iter()
                .map(|(n, f)| format!("{}:{}", hex(n.as_bytes()), f.start))
                .collect();
            fns.sort();
            format!("K{}=L{};B{};F{}", hex(k.as_bytes()), lines.join(","), brs.join(","), fns.join(","))
        })
        .collect();
    v.sort();
    v.join(" ")
}

/// the result with every line count multiplied by k (None on u64 overflow)
pub fn scaled(rs: &Results, k: u64) -> Option<Results> {
    let mut out = Vec::new();
    for (n, c) in rs {
        let mut c2 = c.clone();
        for v in c2.lines.values_mut() {
            *v = v.checked_mul(k)?;
        }
        out.push((n.clone(), c2));
    }
    Some(out)
}

pub fn all_zero(rs: &Results) -> bool {
    rs.iter().all(|(_, c)| {
        c.lines.values().all(|&v| v == 0)
            && c.functions.values().all(|f| !f.executed)
            && c.branches.values().all(|v| v.iter().all(|t| !t))
    })
}

// ---------------------------------------------------------------------------------------------
// random CFGs with a spanning tree and flows

#[derive(Clone, Debug)]
pub struct GenFn {
    pub ident: u32,
    pub lsum: u32,
    pub csum: u32,
    pub name: Vec<u8>,
    pub file: Vec<u8>,
    pub start: u32,
    pub end: u32,
    pub nblocks: u32,
    /// how the blocks are announced: one BLOCKS record per entry (the compilers write exactly one
    /// record; `read_blocks` restarts `GcovBlock.no` at 0 in every record)
    pub block_split: Vec<u32>,
    /// arcs in file order, grouped by source block (ascending): (src, dst, flags)
    pub arcs: Vec<(u32, u32, u32)>,
    pub lines: Vec<(u32, Vec<LineItem>)>,
    /// the on-tree flags really are a spanning tree of arcs + virtual arc
    pub tree_ok: bool,
    pub sink: u32,
}

impl GenFn {
    pub fn recs(&self) -> Vec<NRec> {
        let mut v = vec![
            NRec::Func {
                ident: self.ident,
                lsum: self.lsum,
                csum: self.csum,
                name: self.name.clone(),
                file: self.file.clone(),
                start: self.start,
                end: self.end,
            },
        ];
        for k in &self.block_split {
            v.push(NRec::Blocks(*k));
        }
        let mut i = 0;
        while i < self.arcs.len() {
            let src = self.arcs[i].0;
            let mut grp = Vec::new();
            while i < self.arcs.len() && self.arcs[i].0 == src {
                grp.push((self.arcs[i].1, self.arcs[i].2));
                i += 1;
            }
            v.push(NRec::Arcs(src, grp));
        }
        for (b, items) in &self.lines {
            v.push(NRec::Lines(*b, items.clone()));
        }
        v
    }
    /// move the ARCS record of block 0 behind the next ARCS record: arc 0 is then no longer the
    /// entry arc (no compiler writes this; `add_line_count` looks at `edges.first()`)
    pub fn move_entry_arcs_back(&mut self) -> bool {
        let n0 = self.arcs.iter().take_while(|a| a.0 == 0).count();
        if n0 == 0 || n0 == self.arcs.len() {
            return false;
        }
        let next_src = self.arcs[n0].0;
        let n1 = self.arcs[n0..].iter().take_while(|a| a.0 == next_src).count();
        let head: Vec<(u32, u32, u32)> = self.arcs.drain(..n0).collect();
        for (k, a) in head.into_iter().enumerate() {
            self.arcs.insert(n1 + k, a);
        }
        true
    }
    /// arc 0 leaves block 0 and is block 0's only outgoing arc
    pub fn entry_first(&self) -> bool {
        !self.arcs.is_empty() && self.arcs[0].0 == 0 && self.arcs.iter().filter(|a| a.0 == 0).count() == 1
    }
    pub fn real_arcs(&self) -> Vec<usize> {
        (0..self.arcs.len()).filter(|&i| self.arcs[i].2 & 1 == 0).collect()
    }
}

pub const FILES: &[&str] = &["a.c", "dir/b.c", "inc.h"];
pub const FNAMES: &[&str] = &["main", "f", "g_h", "_ZN3foo3barEv", "caf\u{e9}"];

/// random function: block 0 = entry with one arc to the first body block; exit block = `sink`;
/// a forward skeleton guarantees that every block reaches the exit; extra and back arcs on top
pub fn gen_fn(rng: &mut Rng, version: u32, idx: u32, small: bool) -> GenFn {
    let body = rng.range(1, if small { 4 } else { 8 }) as u32;
    let nblocks = body + 2;
    let sink = if version < 48 { nblocks - 1 } else { 1 };
    // body blocks in topological order
    let body_ids: Vec<u32> = (0..nblocks).filter(|&b| b != 0 && b != sink).collect();
    let mut arcs: Vec<(u32, u32, u32)> = vec![(0, body_ids[0], 0)];
    for (k, &b) in body_ids.iter().enumerate() {
        // forward skeleton arc
        let fwd = if k + 1 < body_ids.len() {
            if rng.chance(1, 4) {
                sink
            } else {
                body_ids[rng.range(k as u64 + 1, body_ids.len() as u64 - 1) as usize]
            }
        } else {
            sink
        };
        arcs.push((b, fwd, 0));
        // every body block needs an incoming arc: link from an earlier block
        if k > 0 && !arcs.iter().any(|a| a.1 == b) {
            let p = body_ids[rng.below(k as u64) as usize];
            arcs.push((p, b, 0));
        }
        let extra = rng.below(3);
        for _ in 0..extra {
            let t = match rng.below(6) {
                0 => b,                                                 // self loop
                1 | 2 => body_ids[rng.below(body_ids.len() as u64) as usize], // any (back) arc
                3 => sink,
                _ => body_ids[rng.range(k as u64, body_ids.len() as u64 - 1) as usize],
            };
            if rng.chance(1, 6) || !arcs.iter().any(|a| a.0 == b && a.1 == t) {
                arcs.push((b, t, 0)); // parallel arcs only now and then
            }
        }
    }
    arcs.sort_by_key(|a| a.0); // stable: groups by source, keeps relative order
    // make sure arcs[0] is the entry arc (src 0 sorts first)
    // spanning tree: union-find over the virtual arc first, then arcs in random order
    let mut parent: Vec<u32> = (0..nblocks).collect();
    fn find(p: &mut Vec<u32>, x: u32) -> u32 {
        let mut r = x;
        while p[r as usize] != r {
            r = p[r as usize];
        }
        let mut y = x;
        while p[y as usize] != r {
            let n = p[y as usize];
            p[y as usize] = r;
            y = n;
        }
        r
    }
    let (a, b) = (find(&mut parent, sink), find(&mut parent, 0));
    parent[a as usize] = b;
    let mut order: Vec<usize> = (0..arcs.len()).collect();
    rng.shuffle(&mut order);
    for &i in &order {
        let (s, d, _) = arcs[i];
        let (rs, rd) = (find(&mut parent, s), find(&mut parent, d));
        if rs != rd {
            parent[rs as usize] = rd;
            arcs[i].2 |= 1;
        }
    }
    let mut tree_ok = true;
    // sometimes break the tree on purpose (the structural laws hold for every CFG)
    if rng.chance(1, 8) {
        let i = rng.below(arcs.len() as u64) as usize;
        arcs[i].2 ^= 1;
        tree_ok = false;
    }
    // fake / fall-through flags
    for a in arcs.iter_mut() {
        if rng.chance(1, 12) {
            a.2 |= 2;
        }
        if rng.chance(1, 6) {
            a.2 |= 4;
        }
    }
    let file = FILES[rng.below(if small { 2 } else { FILES.len() as u64 }) as usize].as_bytes().to_vec();
    let start = 10 * (idx + 1);
    let end = start + 9;
    let mut lines = Vec::new();
    for &b in &body_ids {
        if rng.chance(1, 6) {
            continue;
        }
        let mut items = vec![LineItem::File(file.clone())];
        let k = rng.range(1, 3);
        for _ in 0..k {
            items.push(LineItem::Line(start + rng.below(6) as u32));
        }
        // a statement spread over several lines whose code returns to its first line: the block
        // lists that line again (A, B, A – LLVM only suppresses consecutive repeats); each listing
        // registers the block once more for the line (`lines_to_block`)
        if rng.chance(1, 4) {
            if let (Some(LineItem::Line(a)), Some(LineItem::Line(b))) = (items.get(1).cloned(), items.last().cloned()) {
                let a2 = if a == b { items.push(LineItem::Line(a + 1)); a } else { a };
                items.push(LineItem::Line(a2));
                if rng.chance(1, 3) {
                    items.push(LineItem::Line(a2 + 2));
                    items.push(LineItem::Line(a2));
                }
            }
        }
        if rng.chance(1, 5) {
            items.push(LineItem::File(b"other.h".to_vec()));
            items.push(LineItem::Line(rng.range(1, 5) as u32));
            if rng.chance(1, 2) {
                items.push(LineItem::File(file.clone()));
                items.push(LineItem::Line(start + rng.below(8) as u32));
            }
        }
        lines.push((b, items));
    }
    if rng.chance(1, 10) {
        lines.push((sink, vec![LineItem::File(file.clone()), LineItem::Line(end)]));
    }
    GenFn {
        ident: idx + 1,
        lsum: rng.next() as u32,
        csum: if version >= 47 { rng.next() as u32 } else { 0 },
        name: FNAMES[idx as usize % FNAMES.len()].as_bytes().to_vec(),
        file,
        start,
        end,
        nblocks,
        block_split: vec![nblocks],
        arcs,
        lines,
        tree_ok,
        sink,
    }
}

/// The smallest functions: two blocks (entry -> exit, one measured arc: the `blocks.len() >= 2`
/// guard of `count_on_tree` at its boundary), one block or no block at all (below the guard: no
/// artificial arc, no propagation); lines on the entry block now and then.
pub fn gen_tiny_fn(rng: &mut Rng, version: u32, idx: u32) -> GenFn {
    let nblocks: u32 = match rng.below(6) {
        0 => 0,
        1 | 2 => 1,
        _ => 2,
    };
    let file = FILES[rng.below(2) as usize].as_bytes().to_vec();
    let start = 10 * (idx + 1);
    let mut arcs: Vec<(u32, u32, u32)> = Vec::new();
    if nblocks == 2 {
        // the virtual exit -> entry arc is the tree; the real arc carries the counter – or, now
        // and then, the real arc is marked on-tree as well (no counter at all: not a spanning tree)
        arcs.push((0, 1, 0));
    }
    let mut tree_ok = nblocks == 2;
    if nblocks == 2 && rng.chance(1, 6) {
        arcs[0].2 = 1;
        tree_ok = false;
    }
    let mut lines = Vec::new();
    if nblocks >= 1 && rng.chance(2, 3) {
        lines.push((0, vec![LineItem::File(file.clone()), LineItem::Line(start), LineItem::Line(start + 1)]));
    }
    if nblocks == 2 && rng.chance(1, 2) {
        lines.push((1, vec![LineItem::File(file.clone()), LineItem::Line(start + 2)]));
    }
    let _ = version;
    GenFn {
        ident: idx + 1,
        lsum: rng.next() as u32,
        csum: if version >= 47 { rng.next() as u32 } else { 0 },
        name: format!("tiny{}", idx).into_bytes(),
        file,
        start,
        end: start + 9,
        nblocks,
        block_split: vec![nblocks],
        arcs,
        lines,
        tree_ok,
        sink: if nblocks >= 2 { 1 } else { 0 },
    }
}

/// re-spell the stamp of an encoded little-endian gcno/gcda in the letter style (`A90*` for 90,
/// `A89*`, `A48*`): the same version number for every version below 100
pub fn restamp_letter(b: &mut [u8], version: u32) {
    if b.len() >= 8 && version < 100 {
        b[4] = b'*';
        b[5] = b'0' + (version % 10) as u8;
        b[6] = b'0' + (version / 10) as u8;
        b[7] = b'A';
    }
}

/// A function in the 408* layout made of loops whose bodies have two paths (and, now and then,
/// an inner loop or a three-way switch): every loop is `head -> {left, right} -> latch -> head`,
/// `head -> next`. All body blocks sit on `nlines` source lines, so the multi-block line rule and
/// the cycle search decide the counts. Random spanning tree (always valid).
pub fn gen_loop_fn(rng: &mut Rng, idx: u32, nlines: u32, file: &[u8]) -> GenFn {
    let sink = 1u32;
    let mut next_block = 2u32;
    let mut arcs: Vec<(u32, u32, u32)> = Vec::new();
    // returns (entry block, exit block) of a gadget
    fn gadget(rng: &mut Rng, depth: u32, next: &mut u32, arcs: &mut Vec<(u32, u32, u32)>) -> (u32, u32) {
        if rng.chance(1, 3) {
            // a loop {u, v} with two entries (from the head and through x): irreducible
            let (s, u, v, x, after) = (*next, *next + 1, *next + 2, *next + 3, *next + 4);
            *next += 5;
            for a in [(s, u), (u, v), (v, u), (u, s), (s, x), (x, v), (s, after)] {
                arcs.push((a.0, a.1, 0));
            }
            if rng.chance(1, 2) {
                arcs.push((v, after, 0));
            }
            return (s, after);
        }
        let head = *next;
        let latch = *next + 1;
        let after = *next + 2;
        *next += 3;
        let ways = if rng.chance(1, 4) { 3 } else { 2 };
        for _ in 0..ways {
            if depth > 0 && rng.chance(1, 3) {
                let (e, x) = gadget(rng, depth - 1, next, arcs);
                arcs.push((head, e, 0));
                arcs.push((x, latch, 0));
            } else {
                let b = *next;
                *next += 1;
                arcs.push((head, b, 0));
                arcs.push((b, latch, 0));
                if rng.chance(1, 6) {
                    arcs.push((b, after, 0)); // break
                }
            }
        }
        arcs.push((latch, head, 0));
        arcs.push((head, after, 0));
        (head, after)
    }
    let n_gadgets = rng.range(1, 3);
    let mut prev: Option<u32> = None;
    let mut first = 0;
    for g in 0..n_gadgets {
        let (e, x) = gadget(rng, 1, &mut next_block, &mut arcs);
        if g == 0 {
            first = e;
        }
        if let Some(p) = prev {
            arcs.push((p, e, 0));
        }
        prev = Some(x);
    }
    arcs.push((0, first, 0));
    arcs.push((prev.unwrap(), sink, 0));
    let nblocks = next_block;
    arcs.sort_by_key(|a| a.0);
    arcs.dedup_by_key(|a| (a.0, a.1));
    // random spanning tree over arcs + virtual arc
    let mut parent: Vec<u32> = (0..nblocks).collect();
    fn find(p: &mut Vec<u32>, x: u32) -> u32 {
        let mut r = x;
        while p[r as usize] != r {
            r = p[r as usize];
        }
        r
    }
    let (a, b) = (find(&mut parent, sink), find(&mut parent, 0));
    parent[a as usize] = b;
    let mut order: Vec<usize> = (0..arcs.len()).collect();
    rng.shuffle(&mut order);
    for &i in &order {
        let (s, d, _) = arcs[i];
        let (rs, rd) = (find(&mut parent, s), find(&mut parent, d));
        if rs != rd {
            parent[rs as usize] = rd;
            arcs[i].2 |= 1;
        }
    }
    let start = 10 * (idx + 1);
    let mut lines = Vec::new();
    for b in 2..nblocks {
        let mut items = vec![LineItem::File(file.to_vec())];
        if b == first {
            items.push(LineItem::Line(start));
        }
        items.push(LineItem::Line(start + 1 + rng.below(nlines as u64) as u32));
        if rng.chance(1, 5) {
            items.push(LineItem::Line(start + 1 + rng.below(nlines as u64) as u32));
        }
        lines.push((b, items));
    }
    GenFn {
        ident: idx + 1,
        lsum: rng.next() as u32,
        csum: rng.next() as u32,
        name: format!("fn{}", idx).into_bytes(),
        file: file.to_vec(),
        start,
        end: start + 9,
        nblocks,
        block_split: vec![nblocks],
        arcs,
        lines,
        tree_ok: true,
        sink,
    }
}

/// Names that are not UTF-8 (since /repo 7f9b2b3 `read_string` decodes them lossily): give some
/// functions ill-formed names / file names; the LINES records of such a function name its file
/// either by the same bytes or by DIFFERENT ill-formed bytes that decode to the same string (the
/// reader compares decoded names); now and then two functions of one file get names that differ
/// as bytes and collide after decoding. Returns true when something was changed.
pub fn mangle_names(rng: &mut Rng, fns: &mut [GenFn]) -> bool {
    const BAD_FILES: &[(&[u8], &[u8])] = &[
        (b"dir/\xe9.c", b"dir/\xe8.c"),       // latin-1 bytes: both decode to dir/U+FFFD.c
        (b"a\xff.c", b"a\xfe.c"),
        (b"\xc3(.c", b"\xc3(.c"),
        (b"src/\xf0\x9f\x98.c", b"src/\xf0\x9f\x99.c"), // truncated 4-byte sequence: one U+FFFD
        (b"x\xed\xa0\x80.c", b"x\xed\xa0\x80.c"),        // a surrogate: three U+FFFD
    ];
    const BAD_NAMES: &[(&[u8], &[u8])] = &[(b"f\xff", b"f\xfe"), (b"\x80g", b"\xbfg"), (b"h\xc0\xaf", b"h\xc0\xaf"), (b"caf\xe9", b"caf\xe8")];
    let mut changed = false;
    let mut k = 0;
    while k < fns.len() {
        if rng.chance(1, 2) {
            let (a, b) = *rng.pick(BAD_FILES);
            let old = fns[k].file.clone();
            fns[k].file = a.to_vec();
            let other = rng.chance(1, 2);
            for (_, items) in fns[k].lines.iter_mut() {
                for it in items.iter_mut() {
                    if let LineItem::File(x) = it {
                        if *x == old {
                            *x = if other { b.to_vec() } else { a.to_vec() };
                        }
                    }
                }
            }
            changed = true;
        }
        if rng.chance(1, 2) {
            let (a, b) = *rng.pick(BAD_NAMES);
            fns[k].name = a.to_vec();
            // a second function of the same file whose name collides after decoding
            if k + 1 < fns.len() && rng.chance(1, 3) {
                let (file, old) = (fns[k].file.clone(), fns[k + 1].file.clone());
                fns[k + 1].name = b.to_vec();
                fns[k + 1].file = file.clone();
                for (_, items) in fns[k + 1].lines.iter_mut() {
                    for it in items.iter_mut() {
                        if let LineItem::File(x) = it {
                            if *x == old {
                                *x = file.clone();
                            }
                        }
                    }
                }
                k += 1;
            }
            changed = true;
        }
        k += 1;
    }
    changed
}

/// the same records with every counter zero: a run that executed nothing
pub fn zeroed(d: &Gcda) -> Gcda {
    let mut z = d.clone();
    for r in z.recs.iter_mut() {
        if let DRec::Arcs { vals, .. } = r {
            for v in vals.iter_mut() {
                *v = 0;
            }
        }
    }
    z
}

/// the four stamp bytes in big-endian spelling order (`408*`), from a buffer of either byte order
pub fn stamp_spelling(b: &[u8]) -> Option<[u8; 4]> {
    if b.len() < 8 {
        return None;
    }
    match &b[..4] {
        b"oncg" | b"adcg" => Some([b[7], b[6], b[5], b[4]]),
        b"gcno" | b"gcda" => Some([b[4], b[5], b[6], b[7]]),
        _ => None,
    }
}

/// the stamps compilers write (Lean `stampCanon`): `d0d*` with d <= 8, `A9d*`, `Bdd*`..`Zdd*`
pub fn stamp_canonical(s: &[u8; 4]) -> bool {
    let dig = |c: u8| c.is_ascii_digit();
    s[3] == b'*'
        && dig(s[2])
        && dig(s[1])
        && ((dig(s[0]) && s[0] <= b'8' && s[1] == b'0') || (s[0] == b'A' && s[1] == b'9') || (b'B'..=b'Z').contains(&s[0]))
}

/// `get_version` on a spelling (None when the last byte is not `*`), u8 wrapping arithmetic
pub fn stamp_number(s: &[u8; 4]) -> Option<u32> {
    if s[3] != b'*' {
        return None;
    }
    let d = |c: u8| c.wrapping_sub(b'0') as u32;
    Some(if s[0] >= b'A' { 100 * (s[0] - b'A') as u32 + 10 * d(s[1]) + d(s[2]) } else { 10 * d(s[0]) + d(s[2]) })
}

/// counts of `walks` random walks from the entry to the exit: per arc; flow-consistent by
/// construction (the virtual arc carries `walks`)
pub fn gen_flow(rng: &mut Rng, f: &GenFn, walks: u64, scale: u64) -> Vec<u64> {
    gen_flow_n(rng, f, walks, scale, 12)
}

/// the same with `free` random steps per walk before heading for the exit
pub fn gen_flow_n(rng: &mut Rng, f: &GenFn, walks: u64, scale: u64, free: u32) -> Vec<u64> {
    let mut cnt = vec![0u64; f.arcs.len()];
    // forward skeleton: the first arc listed for a block whose target is "later" – we simply
    // fall back to the first outgoing arc that leads towards the sink by BFS distance
    let n = f.nblocks as usize;
    if n == 0 {
        return cnt;
    }
    let mut dist = vec![u32::MAX; n];
    dist[f.sink as usize] = 0;
    for _ in 0..n {
        for &(s, d, _) in &f.arcs {
            if dist[d as usize] != u32::MAX && dist[s as usize] > dist[d as usize] + 1 {
                dist[s as usize] = dist[d as usize] + 1;
            }
        }
    }
    for _ in 0..walks {
        // a walk passes an arc at most ~40 times: stay inside u64
        let top = cnt.iter().copied().max().unwrap_or(0);
        if scale.checked_mul(48 + 4 * free as u64).and_then(|x| top.checked_add(x)).is_none() {
            break;
        }
        let mut b = 0u32;
        let mut steps = 0;
        while b != f.sink {
            let outs: Vec<usize> = (0..f.arcs.len()).filter(|&i| f.arcs[i].0 == b).collect();
            if outs.is_empty() {
                break;
            }
            let i = if steps > free {
                *outs.iter().min_by_key(|&&i| dist[f.arcs[i].1 as usize]).unwrap()
            } else {
                outs[rng.below(outs.len() as u64) as usize]
            };
            cnt[i] += scale;
            b = f.arcs[i].1;
            steps += 1;
            if steps > 200 {
                break;
            }
        }
    }
    cnt
}

pub fn gcda_for(version: u32, checksum: u32, fns: &[(&GenFn, Vec<u64>)]) -> Gcda {
    let mut recs = Vec::new();
    for (f, flow) in fns {
        recs.push(DRec::Func {
            len: if version >= 47 { 3 } else { 2 },
            ident: f.ident,
            lsum: f.lsum,
            csum: f.csum,
        });
        let vals: Vec<u64> = f.real_arcs().iter().map(|&i| flow[i]).collect();
        recs.push(DRec::Arcs { len: 2 * vals.len() as u32, vals });
    }
    Gcda { version, checksum, recs }
}

/// per-line expectation for lines that live in exactly one block occurrence: the block's inflow
pub fn single_block_lines(f: &GenFn, flow: &[u64], version: u32) -> BTreeMap<u32, u64> {
    // lines kept by read_lines, per block
    let mut occ: BTreeMap<u32, Vec<u32>> = BTreeMap::new();
    for (b, items) in &f.lines {
        let mut take = true;
        for it in items {
            match it {
                LineItem::File(n) => take = String::from_utf8_lossy(n) == String::from_utf8_lossy(&f.file),
                LineItem::Line(l) => {
                    if take && !(version >= 80 && (*l < f.start || *l > f.end)) {
                        occ.entry(*l).or_default().push(*b);
                    }
                }
            }
        }
    }
    let mut out = BTreeMap::new();
    for (l, bs) in occ {
        if bs.len() == 1 {
            let b = bs[0];
            // outflow of the block (= inflow); the exit block's outflow is the virtual arc
            let c: u64 = if b == f.sink {
                (0..f.arcs.len()).filter(|&i| f.arcs[i].1 == b).map(|i| flow[i]).sum()
            } else {
                (0..f.arcs.len()).filter(|&i| f.arcs[i].0 == b).map(|i| flow[i]).sum()
            };
            out.insert(l, c);
        }
    }
    out
}
