//! corr — correspondence harness. `corr <Cxx> [--tier quick|thorough] [--seed N] [--replay file]`
mod common;
mod c01;

use common::*;

fn main() {
    let args: Vec<String> = std::env::args().collect();
    if args.len() < 2 {
        eprintln!("usage: corr <property> [--tier quick|thorough] [--seed N] [--replay file]");
        std::process::exit(2);
    }
    let prop = args[1].clone();
    let mut tier = std::env::var("VERIF_TIER").unwrap_or_else(|_| "quick".into());
    let mut seed: u64 = std::env::var("VERIF_SEED")
        .ok()
        .and_then(|s| s.parse().ok())
        .unwrap_or(1);
    let mut replay: Option<String> = None;
    let mut i = 2;
    while i < args.len() {
        match args[i].as_str() {
            "--tier" => {
                tier = args[i + 1].clone();
                i += 1;
            }
            "--seed" => {
                seed = args[i + 1].parse().unwrap();
                i += 1;
            }
            "--replay" => {
                replay = Some(args[i + 1].clone());
                i += 1;
            }
            _ => {}
        }
        i += 1;
    }
    install_panic_hook();
    let mut rep = Report::new(&prop, &tier, seed);
    if let Some(path) = replay {
        let text = std::fs::read_to_string(&path).expect("cannot read replay file");
        let v: serde_json::Value = serde_json::from_str(&text).expect("replay file is not JSON");
        let case = if v.get("case").is_some() { v["case"].clone() } else { v };
        match prop.as_str() {
            "C01" => c01::replay(&mut rep, &case),
            _ => {
                eprintln!("no replay for {}", prop);
                std::process::exit(2);
            }
        }
    } else {
        match prop.as_str() {
            "C01" => c01::run(&mut rep),
            _ => {
                eprintln!("unknown property {}", prop);
                std::process::exit(2);
            }
        }
    }
    rep.finish();
}
