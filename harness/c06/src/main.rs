//! C06 — sharded aggregation through lcov equals direct aggregation.
//! CLI: a random shard tree over 2-8 .info/.xml inputs (depth 1-3); every inner node is one grcov
//! run writing an lcov report that the parent run reads; the root report must equal the report of
//! the single direct run, with and without --branch.
use corrlib::pipe::*;
use corrlib::*;
use serde_json::json;
use std::time::Duration;

mod climodel;

#[derive(Debug)]
enum Shard {
    Leaf(usize),
    Node(Vec<Shard>),
}

fn gen_tree(rng: &mut Rng, idx: &[usize], depth: u32) -> Shard {
    if idx.len() == 1 && depth > 0 && rng.chance(1, 2) {
        return Shard::Leaf(idx[0]);
    }
    if depth >= 3 || idx.len() == 1 {
        return Shard::Node(idx.iter().map(|&i| Shard::Leaf(i)).collect());
    }
    // split into 1..=3 groups
    let g = rng.range(1, 3.min(idx.len() as u64)) as usize;
    let mut groups: Vec<Vec<usize>> = vec![vec![]; g];
    for (n, &i) in idx.iter().enumerate() {
        if n < g {
            groups[n].push(i);
        } else {
            groups[rng.below(g as u64) as usize].push(i);
        }
    }
    Shard::Node(
        groups
            .iter()
            .map(|gr| {
                if gr.len() == 1 && rng.chance(1, 2) {
                    Shard::Leaf(gr[0])
                } else {
                    gen_tree(rng, gr, depth + 1)
                }
            })
            .collect(),
    )
}

fn show_tree(t: &Shard) -> String {
    match t {
        Shard::Leaf(i) => i.to_string(),
        Shard::Node(c) => format!("({})", c.iter().map(show_tree).collect::<Vec<_>>().join(" ")),
    }
}

/// runs the shard, returns the name of the file holding its contribution
fn eval(
    t: &Shard,
    dir: &std::path::Path,
    inputs: &[Input],
    opts: &[String],
    counter: &mut usize,
    rng: &mut Rng,
    cli: &mut Vec<(String, String, serde_json::Value)>,
) -> Result<String, String> {
    match t {
        Shard::Leaf(i) => Ok(inputs[*i].name.clone()),
        Shard::Node(children) => {
            let mut args = vec![];
            for c in children {
                args.push(eval(c, dir, inputs, opts, counter, rng, cli)?);
            }
            rng.shuffle(&mut args);
            let cfg = RunCfg {
                dir,
                args,
                threads: *rng.pick(&[1usize, 2, 4]),
                perturb: None,
                fault: None,
                limit: Duration::from_secs(60),
                extra: opts.to_vec(),
            };
            let out = run_grcov(&cfg);
            if out.exit != Some(0) {
                return Err(format!("shard run exited with {:?}: {}", out.exit, out.stderr.lines().last().unwrap_or("")));
            }
            model_request(dir, &cfg.args, inputs, opts, &out.stdout, cli);
            *counter += 1;
            let name = format!("shard{}.info", counter);
            std::fs::write(dir.join(&name), &out.stdout).map_err(|e| e.to_string())?;
            Ok(name)
        }
    }
}

/// the same run through the Lean model `Cli.run` (only when every argument is an lcov file: a leaf
/// may be a JaCoCo report)
fn model_request(
    dir: &std::path::Path,
    args: &[String],
    inputs: &[Input],
    opts: &[String],
    stdout: &str,
    cli: &mut Vec<(String, String, serde_json::Value)>,
) {
    if args.iter().any(|a| inputs.iter().any(|i| &i.name == a && i.format != "Info")) {
        return;
    }
    let ins: Vec<Vec<u8>> = args.iter().map(|a| std::fs::read(dir.join(a)).unwrap_or_default()).collect();
    let ccfg = climodel::CliCfg {
        branch: opts.iter().any(|o| o == "--branch"),
        source_dir: None,
        prefix_dir: None,
        ignore: vec![],
        keep: vec![],
        ignore_not_existing: false,
        filter: None,
    };
    let req = climodel::cli_request(&ccfg, &dir.canonicalize().unwrap(), &ins);
    cli.push((req, stdout.to_string(), json!({"op": "cli.run", "opts": opts, "args": args,
        "inputs_hex": ins.iter().map(|b| hex(b)).collect::<Vec<_>>()})));
}

pub fn run(rep: &mut Report) {
    rep.rule = "2-8 overlapping .info/.xml inputs; a random shard tree of depth 1-3 (each inner node = one grcov \
                run whose lcov report feeds its parent) against the single direct run, with and without --branch; \
                non-trivial = the tree has at least two inner nodes and two inputs share a source file; \
                distinct = distinct (inputs, tree, options)"
        .to_string();
    let mut rng = Rng::new(rep.seed ^ 0xC06);
    let n = rep.budget(90, 8);
    let mut cli: Vec<(String, String, serde_json::Value)> = vec![];
    for c in 0..n {
        let dir = rep.workdir.join(format!("case{}", c));
        let _ = std::fs::remove_dir_all(&dir);
        let k = rng.range(2, 8) as usize;
        let inputs = gen_inputs(&mut rng, k);
        write_inputs(&dir, &inputs);
        let branch = rng.chance(2, 3);
        let mut opts: Vec<String> = vec!["-t".into(), "lcov".into(), "--no-demangle".into()];
        if branch {
            opts.push("--branch".into());
        }
        let idx: Vec<usize> = (0..k).collect();
        let tree = gen_tree(&mut rng, &idx, 0);
        let inner = show_tree(&tree).matches('(').count();
        let shares = {
            let mut seen = std::collections::HashSet::new();
            inputs.iter().flat_map(|i| i.parsed.iter().map(|p| p.0.clone())).any(|k| !seen.insert(k))
        };
        rep.case(&format!("{} {} {}", c, show_tree(&tree), branch), inner >= 2 && shares);
        rep.count(if branch { "branch.on" } else { "branch.off" });
        rep.count(&format!("inner_nodes={}", inner.min(6)));
        let case = json!({"op": "shards", "tree": show_tree(&tree), "opts": opts,
            "inputs": inputs.iter().map(|i| json!({"name": i.name, "hex": hex(&i.bytes)})).collect::<Vec<_>>()});
        // direct run
        let direct = run_grcov(&RunCfg {
            dir: &dir,
            args: inputs.iter().map(|i| i.name.clone()).collect(),
            threads: 2,
            perturb: None,
            fault: None,
            limit: Duration::from_secs(60),
            extra: opts.clone(),
        });
        if direct.exit != Some(0) {
            rep.fail("oracle", None, format!("direct run exited with {:?}", direct.exit), case);
            continue;
        }
        let direct_args: Vec<String> = inputs.iter().map(|i| i.name.clone()).collect();
        model_request(&dir, &direct_args, &inputs, &opts, &direct.stdout, &mut cli);
        let mut counter = 0;
        let root = match eval(&tree, &dir, &inputs, &opts, &mut counter, &mut rng, &mut cli) {
            Ok(name) => std::fs::read_to_string(dir.join(name)).unwrap_or_default(),
            Err(e) => {
                rep.fail("oracle", None, e, case);
                continue;
            }
        };
        let d = decode_lcov_report(&direct.stdout).map(|m| show_map(&m));
        let s = decode_lcov_report(&root).map(|m| show_map(&m));
        if c == 0 {
            rep.sample(json!({"tree": show_tree(&tree), "opts": opts, "direct_report_lines": direct.stdout.lines().count()}));
        }
        if d.is_err() || d != s {
            // known finding: without --branch the JaCoCo reader still produces branch vectors, which
            // the direct run reports but a re-imported lcov report (read without --branch) loses
            let finding = if !branch {
                let strip = |text: &str| {
                    decode_lcov_report(text).map(|mut m| {
                        for c in m.values_mut() {
                            c.branches.clear();
                        }
                        show_map(&m)
                    })
                };
                let only_java_branches = decode_lcov_report(&direct.stdout)
                    .map(|m| m.iter().all(|(k, c)| c.branches.is_empty() || k.ends_with(".java")))
                    .unwrap_or(false);
                if only_java_branches && strip(&direct.stdout) == strip(&root) {
                    Some("C06-jacoco-branches-without-branch-flag")
                } else {
                    None
                }
            } else {
                None
            };
            rep.fail(
                "oracle",
                finding,
                "the sharded aggregation differs from the direct aggregation".into(),
                json!({"case": case, "direct": d, "sharded": s}),
            );
        }
        // independent cross-check of the direct run against the aggregate (ties C06 to C01's closed form)
        if branch {
            let refs: Vec<&Input> = inputs.iter().collect();
            let want = show_map(&aggregate(&refs));
            if d.as_ref().ok() != Some(&want) {
                rep.fail("oracle", None, "direct report differs from the independent aggregate".into(), json!({"case": case}));
            }
        }
    }
    cli_tie(rep, &cli);
}

/// tie of the model of one run (`Cli.run`) to the real binary on every shard run and direct run
fn cli_tie(rep: &mut Report, cli: &[(String, String, serde_json::Value)]) {
    let reqs: Vec<String> = cli.iter().map(|x| x.0.clone()).collect();
    let answers = run_model(&reqs, &rep.workdir, "cli");
    for (i, (req, real, case)) in cli.iter().enumerate() {
        rep.count("cli.model.runs");
        if let Some(what) = climodel::compare(&answers[i], real) {
            rep.disagreements_checked += 1;
            let mut cj = case.clone();
            cj["request"] = json!(req);
            cj["real"] = json!(real);
            cj["model"] = json!(answers[i]);
            rep.fail("disagreement", None,
                format!("a grcov run differs from the Lean model Cli.run (theorems C06_cli_* no longer transfer): {}", what), cj);
        }
    }
}

pub fn replay(rep: &mut Report, _case: &serde_json::Value) {
    rep.notes.push("shard-tree replays: re-run ./check C06 with the same seed (the case index is in the replay file)".into());
}

fn main() {
    corrlib::run_main("C06", run, replay);
}
