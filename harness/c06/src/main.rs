//! C06 — sharded aggregation through lcov equals direct aggregation.
//! CLI: a random shard tree over 2-8 .info/.xml inputs (depth 1-3); every inner node is one grcov
//! run writing an lcov report that the parent run reads; the root report must equal the report of
//! the single direct run, with and without --branch, and – second review, item 27 – with the
//! path options `-s srcroot [-p srcroot]` applied AT EVERY STAGE (a source tree on disk that holds
//! the C files of the inputs and two Java files, one reachable only through the partial-path
//! lookup; lcov and JaCoCo inputs then describe the same Java file).
use corrlib::pipe::*;
use corrlib::*;
use serde_json::json;
use std::time::Duration;

mod climodel;

#[derive(Debug)]
enum Shard {
    Leaf(usize),
    Node(Vec<Shard>),
}

fn gen_tree(rng: &mut Rng, idx: &[usize], depth: u32) -> Shard {
    if idx.len() == 1 && depth > 0 && rng.chance(1, 2) {
        return Shard::Leaf(idx[0]);
    }
    if depth >= 3 || idx.len() == 1 {
        return Shard::Node(idx.iter().map(|&i| Shard::Leaf(i)).collect());
    }
    // split into 1..=3 groups
    let g = rng.range(1, 3.min(idx.len() as u64)) as usize;
    let mut groups: Vec<Vec<usize>> = vec![vec![]; g];
    for (n, &i) in idx.iter().enumerate() {
        if n < g {
            groups[n].push(i);
        } else {
            groups[rng.below(g as u64) as usize].push(i);
        }
    }
    Shard::Node(
        groups
            .iter()
            .map(|gr| {
                if gr.len() == 1 && rng.chance(1, 2) {
                    Shard::Leaf(gr[0])
                } else {
                    gen_tree(rng, gr, depth + 1)
                }
            })
            .collect(),
    )
}

fn show_tree(t: &Shard) -> String {
    match t {
        Shard::Leaf(i) => i.to_string(),
        Shard::Node(c) => format!("({})", c.iter().map(show_tree).collect::<Vec<_>>().join(" ")),
    }
}

/// runs the shard, returns the name of the file holding its contribution
#[allow(clippy::too_many_arguments)]
fn eval(
    t: &Shard,
    dir: &std::path::Path,
    inputs: &[Input],
    opts: &[String],
    var: &Variant,
    counter: &mut usize,
    rng: &mut Rng,
    cli: &mut Vec<(String, String, serde_json::Value)>,
) -> Result<String, String> {
    match t {
        Shard::Leaf(i) => Ok(inputs[*i].name.clone()),
        Shard::Node(children) => {
            let mut args = vec![];
            for c in children {
                args.push(eval(c, dir, inputs, opts, var, counter, rng, cli)?);
            }
            rng.shuffle(&mut args);
            let cfg = RunCfg {
                dir,
                args,
                threads: *rng.pick(&[1usize, 2, 4]),
                perturb: None,
                fault: None,
                limit: Duration::from_secs(60),
                extra: opts.to_vec(),
            };
            let out = run_grcov(&cfg);
            if out.exit != Some(0) {
                return Err(format!("shard run exited with {:?}: {}", out.exit, out.stderr.lines().last().unwrap_or("")));
            }
            model_request(dir, &cfg.args, inputs, opts, var, &out.stdout, cli);
            *counter += 1;
            let name = format!("shard{}.info", counter);
            std::fs::write(dir.join(&name), &out.stdout).map_err(|e| e.to_string())?;
            Ok(name)
        }
    }
}

/// the path options of a case: none, or `-s <srcroot>` with or without an explicit `-p <srcroot>`
/// (`main` sets the prefix to the source dir when `-p` is absent: the model gets it either way)
#[derive(Clone, Debug)]
struct Variant {
    /// canonical source dir
    src: Option<String>,
    explicit_prefix: bool,
}

/// the same run through the Lean model `Cli.runJ` (only when every argument is an lcov file: a leaf
/// may be a JaCoCo report)
fn model_request(
    dir: &std::path::Path,
    args: &[String],
    inputs: &[Input],
    opts: &[String],
    var: &Variant,
    stdout: &str,
    cli: &mut Vec<(String, String, serde_json::Value)>,
) {
    if args.iter().any(|a| inputs.iter().any(|i| &i.name == a && i.format != "Info")) {
        return;
    }
    let ins: Vec<Vec<u8>> = args.iter().map(|a| std::fs::read(dir.join(a)).unwrap_or_default()).collect();
    let ccfg = climodel::CliCfg {
        branch: opts.iter().any(|o| o == "--branch"),
        source_dir: var.src.clone(),
        prefix_dir: if var.explicit_prefix { var.src.clone() } else { None },
        ignore: vec![],
        keep: vec![],
        ignore_not_existing: false,
        filter: None,
    };
    let req = climodel::cli_request(&ccfg, &dir.canonicalize().unwrap(), &ins);
    cli.push((req, stdout.to_string(), json!({"op": "cli.runj", "opts": opts, "args": args,
        "inputs_hex": ins.iter().map(|b| hex(b)).collect::<Vec<_>>()})));
}

/// the source tree of the `-s` variant: every C file the inputs name, `pkg/B.java` where the
/// inputs name it, and `A.java` only below `main/java/` (found through the partial-path lookup)
fn make_srcroot(dir: &std::path::Path) -> String {
    let src = dir.join("srcroot");
    for f in ["src/a.c", "src/b.c", "lib/c.rs", "d.cpp", "pkg/B.java", "main/java/pkg/A.java"] {
        let p = src.join(f);
        std::fs::create_dir_all(p.parent().unwrap()).unwrap();
        std::fs::write(&p, "int x;\n".repeat(20)).unwrap();
    }
    src.canonicalize().unwrap().to_str().unwrap().to_string()
}

/// some `SF:d.cpp` sections of the lcov inputs become `SF:pkg/A.java` / `SF:pkg/B.java`: the very
/// keys the JaCoCo inputs produce (package `pkg`, source files `A.java`, `B.java`)
fn java_sections(rng: &mut Rng, inputs: &mut [Input]) {
    for inp in inputs.iter_mut() {
        if inp.format != "Info" || !rng.chance(1, 2) {
            continue;
        }
        let text = String::from_utf8_lossy(&inp.bytes).to_string();
        if !text.contains("SF:d.cpp\n") {
            continue;
        }
        let name = if rng.chance(1, 2) { "pkg/A.java" } else { "pkg/B.java" };
        inp.bytes = text.replace("SF:d.cpp\n", &format!("SF:{}\n", name)).into_bytes();
        inp.id = fnv_id("Info", &inp.bytes);
        inp.parsed = grcov::parse_lcov(inp.bytes.clone(), true).expect("respelled tracefile is well formed");
    }
}

/// a line with 255 / 256 / 257 / 300 branch outcomes in two of the lcov inputs (mutation miss N7: a
/// writer that numbers the slots modulo 256 – the shard reports then carry fewer slots than the
/// direct report)
fn wide_branch_lines(rng: &mut Rng, inputs: &mut [Input]) -> bool {
    let mut done = 0;
    for inp in inputs.iter_mut() {
        if inp.format != "Info" || done == 2 {
            continue;
        }
        let n = *rng.pick(&[255usize, 256, 257, 300]);
        let mut sec = String::from("SF:src/a.c\n");
        for j in 0..n {
            sec.push_str(&format!("BRDA:9,0,{},{}\n", j, if j + 1 == n || rng.chance(1, 3) { "1" } else { "-" }));
        }
        sec.push_str("end_of_record\n");
        inp.bytes.extend_from_slice(sec.as_bytes());
        inp.id = fnv_id("Info", &inp.bytes);
        inp.parsed = grcov::parse_lcov(inp.bytes.clone(), true).expect("widened tracefile is well formed");
        done += 1;
    }
    done > 0
}

/// OR of branch vectors (the longer tail kept)
fn zip_or(a: &[bool], b: &[bool]) -> Vec<bool> {
    (0..a.len().max(b.len())).map(|i| a.get(i).copied().unwrap_or(false) || b.get(i).copied().unwrap_or(false)).collect()
}

/// the branch data JaCoCo inputs `which` contribute, per reported path
fn jacoco_branches(inputs: &[Input], which: &[usize]) -> std::collections::BTreeMap<String, std::collections::BTreeMap<u32, Vec<bool>>> {
    let mut m: std::collections::BTreeMap<String, std::collections::BTreeMap<u32, Vec<bool>>> = Default::default();
    for &i in which {
        if inputs[i].format != "JacocoXml" {
            continue;
        }
        for (k, c) in &inputs[i].parsed {
            for (l, v) in &c.branches {
                let e = m.entry(k.clone()).or_default().entry(*l).or_default();
                *e = zip_or(e, v);
            }
        }
    }
    m.retain(|_, v| !v.is_empty());
    m
}

pub fn run(rep: &mut Report) {
    rep.rule = "2-8 overlapping .info/.xml inputs (lcov sections and JaCoCo reports naming the same Java files); a random \
                shard tree of depth 1-3 (each inner node = one grcov run whose lcov report feeds its parent) against \
                the single direct run, with and without --branch; one case in three with `-s srcroot` (half of those \
                with an explicit `-p srcroot`) passed to EVERY run, the files on disk; non-trivial = the tree has at \
                least two inner nodes and two inputs share a source file; distinct = distinct (inputs, tree, options)"
        .to_string();
    let mut rng = Rng::new(rep.seed ^ 0xC06);
    let n = rep.budget(90, 8);
    let mut cli: Vec<(String, String, serde_json::Value)> = vec![];
    for c in 0..n {
        let dir = rep.workdir.join(format!("case{}", c));
        let _ = std::fs::remove_dir_all(&dir);
        let k = rng.range(2, 8) as usize;
        let mut inputs = gen_inputs(&mut rng, k);
        java_sections(&mut rng, &mut inputs);
        if c % 12 == 5 && wide_branch_lines(&mut rng, &mut inputs) {
            rep.count("inputs.wide_branch_line_255_to_300_slots");
        }
        write_inputs(&dir, &inputs);
        let with_src = rng.chance(1, 3);
        // with a source dir the runs are made with --branch (the --branch-off finding is about the
        // JaCoCo reader, not about paths: it is exercised without path options)
        let branch = with_src || rng.chance(2, 3);
        let var = if with_src {
            Variant { src: Some(make_srcroot(&dir)), explicit_prefix: rng.chance(1, 2) }
        } else {
            Variant { src: None, explicit_prefix: false }
        };
        let mut opts: Vec<String> = vec!["-t".into(), "lcov".into(), "--no-demangle".into()];
        if branch {
            opts.push("--branch".into());
        }
        if let Some(s) = &var.src {
            opts.extend(["-s".to_string(), s.clone()]);
            rep.count("opt.-s");
            if var.explicit_prefix {
                opts.extend(["-p".to_string(), s.clone()]);
                rep.count("opt.-s.-p");
            }
        }
        let idx: Vec<usize> = (0..k).collect();
        let tree = gen_tree(&mut rng, &idx, 0);
        let inner = show_tree(&tree).matches('(').count();
        let shares = {
            let mut seen = std::collections::HashSet::new();
            inputs.iter().flat_map(|i| i.parsed.iter().map(|p| p.0.clone())).any(|k| !seen.insert(k))
        };
        let java_both = {
            let of = |f: &str| -> std::collections::HashSet<String> {
                inputs.iter().filter(|i| i.format == f).flat_map(|i| i.parsed.iter().map(|p| p.0.clone())).filter(|k| k.ends_with(".java")).collect()
            };
            of("Info").intersection(&of("JacocoXml")).next().is_some()
        };
        if java_both {
            rep.count("inputs.java_file_in_lcov_and_jacoco");
        }
        rep.case(&format!("{} {} {} {:?}", c, show_tree(&tree), branch, var), inner >= 2 && shares);
        rep.count(if branch { "branch.on" } else { "branch.off" });
        rep.count(&format!("inner_nodes={}", inner.min(6)));
        let case = json!({"op": "shards", "tree": show_tree(&tree), "opts": opts,
            "inputs": inputs.iter().map(|i| json!({"name": i.name, "hex": hex(&i.bytes)})).collect::<Vec<_>>()});
        // direct run
        let direct = run_grcov(&RunCfg {
            dir: &dir,
            args: inputs.iter().map(|i| i.name.clone()).collect(),
            threads: 2,
            perturb: None,
            fault: None,
            limit: Duration::from_secs(60),
            extra: opts.clone(),
        });
        if direct.exit != Some(0) {
            rep.fail("oracle", None, format!("direct run exited with {:?}", direct.exit), case);
            continue;
        }
        let direct_args: Vec<String> = inputs.iter().map(|i| i.name.clone()).collect();
        model_request(&dir, &direct_args, &inputs, &opts, &var, &direct.stdout, &mut cli);
        let mut counter = 0;
        let root = match eval(&tree, &dir, &inputs, &opts, &var, &mut counter, &mut rng, &mut cli) {
            Ok(name) => std::fs::read_to_string(dir.join(name)).unwrap_or_default(),
            Err(e) => {
                rep.fail("oracle", None, e, case);
                continue;
            }
        };
        let d = decode_lcov_report(&direct.stdout).map(|m| show_map(&m));
        let s = decode_lcov_report(&root).map(|m| show_map(&m));
        if c == 0 {
            rep.sample(json!({"tree": show_tree(&tree), "opts": opts, "direct_report_lines": direct.stdout.lines().count()}));
        }
        if d.is_err() || d != s {
            let finding = if !branch {
                jacoco_branch_finding(&tree, &inputs, &direct.stdout, &root)
            } else if var.src.is_some() {
                partial_path_finding(&inputs, &direct.stdout, &root)
            } else {
                None
            };
            rep.fail(
                "oracle",
                finding,
                "the sharded aggregation differs from the direct aggregation".into(),
                json!({"case": case, "direct": d, "sharded": s}),
            );
        }
        // independent cross-check of the direct run against the aggregate (ties C06 to C01's closed
        // form); with a source dir the reported paths are not the keys of the inputs
        if branch && var.src.is_none() {
            let refs: Vec<&Input> = inputs.iter().collect();
            let want = show_map(&aggregate(&refs));
            if d.as_ref().ok() != Some(&want) {
                rep.fail("oracle", None, "direct report differs from the independent aggregate".into(), json!({"case": case}));
            }
        }
    }
    cli_tie(rep, &cli);
}

/// Known finding C06-jacoco-branches-without-branch-flag, EXACT matcher (second review, item 27).
/// Without --branch the lcov reader skips BRDA records but the JaCoCo reader still files branch
/// vectors. So (no path options): the DIRECT report carries, per file, exactly the OR of the
/// branch vectors of ALL JaCoCo inputs; the SHARDED report exactly the OR over the JaCoCo inputs
/// that are direct children of the root run (the reports of deeper shards are lcov files, read
/// without --branch) and no branch data anywhere else; lines and functions agree.
fn jacoco_branch_finding(tree: &Shard, inputs: &[Input], direct: &str, sharded: &str) -> Option<&'static str> {
    let (Ok(dm), Ok(sm)) = (decode_lcov_report(direct), decode_lcov_report(sharded)) else { return None };
    let strip = |m: &std::collections::BTreeMap<String, grcov::CovResult>| {
        let mut m = m.clone();
        for c in m.values_mut() {
            c.branches.clear();
        }
        show_map(&m)
    };
    if strip(&dm) != strip(&sm) {
        return None;
    }
    let all: Vec<usize> = (0..inputs.len()).collect();
    let root_children: Vec<usize> = match tree {
        Shard::Leaf(i) => vec![*i],
        Shard::Node(cs) => cs.iter().filter_map(|c| if let Shard::Leaf(i) = c { Some(*i) } else { None }).collect(),
    };
    let branches_of = |m: &std::collections::BTreeMap<String, grcov::CovResult>| {
        let mut b: std::collections::BTreeMap<String, std::collections::BTreeMap<u32, Vec<bool>>> = Default::default();
        for (k, c) in m {
            if !c.branches.is_empty() {
                b.insert(k.clone(), c.branches.clone());
            }
        }
        b
    };
    if branches_of(&dm) == jacoco_branches(inputs, &all) && branches_of(&sm) == jacoco_branches(inputs, &root_children) {
        Some("C06-jacoco-branches-without-branch-flag")
    } else {
        None
    }
}

/// New finding C06-partial-path-resolved-shard-listed-twice (second review, item 26's consequence):
/// with `-s`, a Java file that the inputs name by a PARTIAL path (`pkg/A.java`, on disk only as
/// `main/java/pkg/A.java`) is reported by a shard under its full path; the upper run files that
/// under its canonical key, while an input that still says `pkg/A.java` is filed under that
/// spelling – two map entries, both reported as `main/java/pkg/A.java`: the sharded report lists
/// the file TWICE, the direct report once. Matcher: the direct report decodes; every path listed
/// more than once in the sharded report is a `.java`/`.kt` path that no input names as such; and
/// the sharded report with its repeated sections aggregated IS the direct report.
fn partial_path_finding(inputs: &[Input], direct: &str, sharded: &str) -> Option<&'static str> {
    let dm = decode_lcov_report(direct).ok()?;
    // sections of the sharded report, one by one
    let mut secs: Vec<(String, grcov::CovResult)> = vec![];
    let mut cur = String::new();
    for line in sharded.lines() {
        cur.push_str(line);
        cur.push('\n');
        if line == "end_of_record" {
            let m = decode_lcov_report(&cur).ok()?;
            let (k, c) = m.into_iter().next()?;
            secs.push((k, c));
            cur.clear();
        }
    }
    let mut dup = false;
    for (i, (k, _)) in secs.iter().enumerate() {
        if secs[..i].iter().any(|x| x.0 == *k) {
            dup = true;
            let java = k.ends_with(".java") || k.ends_with(".kt");
            let named = inputs.iter().any(|inp| inp.parsed.iter().any(|p| p.0 == *k));
            if !java || named {
                return None;
            }
        }
    }
    if !dup {
        return None;
    }
    let pseudo: Vec<Input> = secs.into_iter().map(|(k, c)| Input { name: String::new(), format: "Info", bytes: vec![], id: String::new(), parsed: vec![(k, c)] }).collect();
    let refs: Vec<&Input> = pseudo.iter().collect();
    if show_map(&aggregate(&refs)) == show_map(&dm) {
        Some("C06-partial-path-resolved-shard-listed-twice")
    } else {
        None
    }
}

/// tie of the model of one run (`Cli.runJ`) to the real binary on every shard run and direct run
fn cli_tie(rep: &mut Report, cli: &[(String, String, serde_json::Value)]) {
    let reqs: Vec<String> = cli.iter().map(|x| x.0.clone()).collect();
    let answers = run_model(&reqs, &rep.workdir, "cli");
    for (i, (req, real, case)) in cli.iter().enumerate() {
        rep.count("cli.model.runs");
        if let Some(what) = climodel::compare(&answers[i], real) {
            rep.disagreements_checked += 1;
            let mut cj = case.clone();
            cj["request"] = json!(req);
            cj["real"] = json!(real);
            cj["model"] = json!(answers[i]);
            rep.fail("disagreement", None,
                format!("a grcov run differs from the Lean model Cli.runJ (theorems C06_cli_* no longer transfer): {}", what), cj);
        }
    }
}

pub fn replay(rep: &mut Report, _case: &serde_json::Value) {
    rep.notes.push("shard-tree replays: re-run ./check C06 with the same seed (the case index is in the replay file)".into());
}

fn main() {
    corrlib::run_main("C06", run, replay);
}
