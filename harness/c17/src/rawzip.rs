//! C17 part `rawzip` — zip archives given by their RAW central-directory entries (fix 2f541c3).
//!
//! The `zip` crate's writer used by the main stream refuses repeated names, so archives are written
//! by `rawzipw::write_raw_zip`: respelled names (`a//b.info`, `a/./b.info`, `./a.info`), repeated raw
//! names, several entries with one canonical spelling, directory entries (`d/`, `x.info/`, `d\`),
//! symlink entries (unix mode 0o120777), unsafe names (`..`, leading `/`, NUL), names of 255 and
//! 300 bytes. Per case one raw archive (sometimes a directory input beside it, holding gcda / info
//! files under the same relative names) goes through the REAL `grcov::producer` in-process;
//!  (1) oracle, independent of model and code: the items are those of the artifact multiset
//!      "per canonical spelling the FIRST entry that is not a directory entry and has a safe name,
//!      with its own bytes" (what the commit promises) + the directory's files – `super::expected`;
//!  (2) packaging oracle: when the canonical names can live in one directory tree, that directory
//!      delivers the same items as the archive;
//!  (3) tie: `c17.run … Z<label>:<raw entries>` (the model lists the archive with
//!      `Producer.zipListed`) answers the same items; `c17.canon` against the verbatim std copy of
//!      `canonical_entry_name` below.
//! corpus/C17/*.json (op `rawzip`) are replayed first: the witnesses of the repaired finding
//! C17-zip-same-canonical-name-reads-other-entry (`zip_index` read another entry than `explore`
//! listed when two entries, directory entries included, shared a canonical spelling; /repo 99c0f28).
//! Since that fix the reference (1) holds without exception; `c17.ziplist` = `c17.zipfirst` is asked
//! of the model on every archive (`C17_zip_entries_exact`).
use super::rawzipw::{write_raw_zip, RawEnt};
use super::*;
use std::path::Component;

/// src/producer.rs `canonical_entry_name`, verbatim on std
fn canonical_entry_name(name: &str) -> Option<PathBuf> {
    let path = Path::new(name);
    if name.contains('\0') || !path.components().all(|c| matches!(c, Component::Normal(_) | Component::CurDir)) {
        return None;
    }
    Some(path.components().filter(|c| matches!(c, Component::Normal(_))).collect())
}

fn is_dir_name(name: &str) -> bool {
    name.ends_with('/') || name.ends_with('\\')
}

/// what `handle_file` would take a file for, from its name and bytes (independent restatement)
pub fn intent_from(rel: &str, content: &[u8]) -> Intent {
    let base = rel.rsplit('/').next().unwrap();
    match ext_of(rel) {
        Some("info") => {
            if content.len() >= 3 && (&content[..3] == b"TN:" || &content[..3] == b"SF:") {
                Intent::Info
            } else {
                Intent::Decoy
            }
        }
        Some("xml") => {
            if content[..content.len().min(256)].windows(MARKER.len()).any(|w| w == MARKER) {
                Intent::Xml
            } else {
                Intent::Decoy
            }
        }
        Some("gcno") => Intent::Gcno,
        Some("gcda") => Intent::Gcda,
        Some("profraw") => Intent::Profraw,
        Some("profdata") => Intent::Profdata,
        Some("json") if base == "linked-files-map.json" => Intent::Map,
        _ => Intent::Decoy,
    }
}

const CANON: &[&str] = &[
    "a.info", "d/b.info", "d/e.info", "x.info", "r.xml", "p.profraw", "q/p.profraw", "s/g.gcno", "s/g.gcda", "h.c.gcno",
    "h.c.gcda", "0/a.gcno", "0/a.gcda", "linked-files-map.json", "m.profdata", "d/deep/er/f.info",
];

fn respell(rng: &mut Rng, n: &str) -> (String, &'static str) {
    match rng.below(16) {
        0 | 1 | 2 => (n.to_string(), "plain"),
        3 | 4 => (format!("./{}", n), "lead-dot"),
        5 | 6 => (n.replace('/', "//"), if n.contains('/') { "double-slash" } else { "plain" }),
        7 | 8 => (n.replace('/', "/./"), if n.contains('/') { "dot-segment" } else { "plain" }),
        9 => (format!("././/{}", n), "lead-dots"),
        10 => (format!("{}/", n), "dir-entry"),
        11 => (format!("{}\\", n), "dir-entry-backslash"),
        12 => (format!("../{}", n), "unsafe-parent"),
        13 => (format!("/{}", n), "unsafe-root"),
        14 => (format!("d/../{}", n), "unsafe-inner-parent"),
        _ => {
            let mut s = n.to_string();
            s.insert(1.min(s.len()), '\0');
            (s, "unsafe-nul")
        }
    }
}

fn content_for(rng: &mut Rng, canon: &str, pools: &Pools) -> Vec<u8> {
    match ext_of(canon) {
        Some("info") => {
            if rng.chance(1, 5) {
                gen_info_decoy(rng)
            } else {
                format!("TN:\nSF:/src/z{}.c\nDA:1,{}\nend_of_record\n", rng.below(1_000_000), rng.below(50)).into_bytes()
            }
        }
        Some("xml") => {
            if rng.chance(1, 4) {
                gen_xml_decoy(rng)
            } else {
                gen_xml(rng)
            }
        }
        Some("gcno") => {
            let l = rng.chance(1, 3);
            gen_gcno(rng, pools, l)
        }
        Some("gcda") => gen_gcda(rng, pools),
        Some("profraw") => blob(rng, b"\x81rforpl\xff", 12),
        Some("profdata") => blob(rng, b"\xffprofdat", 12),
        _ => format!("{{\"m\":{}}}", rng.below(1_000_000)).into_bytes(),
    }
}

struct RCase {
    ignore_orphan: bool,
    llvm: bool,
    entries: Vec<(String, Vec<u8>, Option<u32>)>,
    /// a directory input beside the archive: (canonical relative name, content)
    dir: Vec<(String, Vec<u8>)>,
    dir_first: bool,
}

fn rcase_json(c: &RCase) -> Value {
    json!({"op": "rawzip", "ignore_orphan_gcno": c.ignore_orphan, "is_llvm": c.llvm, "dir_first": c.dir_first,
        "entries": c.entries.iter().map(|(n, d, m)| json!({"name_hex": hex(n.as_bytes()), "name": n, "content_hex": hex(d), "mode": m})).collect::<Vec<_>>(),
        "dir": c.dir.iter().map(|(n, d)| json!({"rel": n, "content_hex": hex(d)})).collect::<Vec<_>>()})
}

fn rcase_from_json(v: &Value) -> RCase {
    RCase {
        ignore_orphan: v["ignore_orphan_gcno"].as_bool().unwrap_or(false),
        llvm: v["is_llvm"].as_bool().unwrap_or(false),
        dir_first: v["dir_first"].as_bool().unwrap_or(false),
        entries: v["entries"].as_array().cloned().unwrap_or_default().iter().map(|e| {
            (String::from_utf8(unhex(e["name_hex"].as_str().unwrap())).unwrap(), unhex(e["content_hex"].as_str().unwrap()), e["mode"].as_u64().map(|m| m as u32))
        }).collect(),
        dir: v["dir"].as_array().cloned().unwrap_or_default().iter().map(|e| (e["rel"].as_str().unwrap().to_string(), unhex(e["content_hex"].as_str().unwrap()))).collect(),
    }
}

/// the archive as the zip crate presents it: a repeated raw name keeps its first place, last data
fn crate_index(entries: &[(String, Vec<u8>, Option<u32>)]) -> Vec<(String, Vec<u8>)> {
    let mut ix: Vec<(String, Vec<u8>)> = vec![];
    for (n, d, _) in entries {
        if let Some(p) = ix.iter().position(|(m, _)| m == n) {
            ix[p].1 = d.clone();
        } else {
            ix.push((n.clone(), d.clone()));
        }
    }
    ix
}

/// per canonical spelling the first listable entry, with its own bytes
fn first_listable(ix: &[(String, Vec<u8>)]) -> Vec<(String, Vec<u8>)> {
    let mut seen = BTreeSet::new();
    let mut out = vec![];
    for (n, d) in ix {
        if is_dir_name(n) {
            continue;
        }
        if let Some(c) = canonical_entry_name(n) {
            let c = c.to_str().unwrap().to_string();
            if seen.insert(c.clone()) {
                out.push((c, d.clone()));
            }
        }
    }
    out
}

fn shared_canon(ix: &[(String, Vec<u8>)]) -> bool {
    let mut seen = BTreeSet::new();
    ix.iter().filter_map(|(n, _)| canonical_entry_name(n)).any(|c| !seen.insert(c))
}

fn run_producer(root: &Path, paths: &[String], io: bool, llvm: bool) -> (String, String) {
    let tmp = tempfile::tempdir_in(root).unwrap();
    let tmp_path = tmp.path().to_path_buf();
    let (sender, receiver) = unbounded();
    let paths2 = paths.to_vec();
    let res = guarded(move || {
        let m = producer(&tmp_path, &paths2, &sender, io, llvm);
        drop(sender);
        m
    });
    let mut items: Vec<(String, String)> = vec![];
    while let Ok(x) = receiver.try_recv() {
        if let Some(it) = x {
            items.push(canon_item(&it, paths));
        }
    }
    match res {
        Ok(_) => {
            let mut with: Vec<String> = items.iter().map(|(o, n)| format!("{}:{}", o, n)).collect();
            with.sort();
            let mut without: Vec<String> = items.iter().map(|(o, _)| o.clone()).collect();
            without.sort();
            (format!("ok {}", with.join("|")), format!("ok {}", without.join("|")))
        }
        Err(msg) => {
            let k = if msg.contains("No input files found") { "panic no-input".to_string() } else { format!("panic other {}", msg) };
            (k.clone(), k)
        }
    }
}

struct Done {
    case: RCase,
    impl_out: String,
    obs: String,
    want: String,
    dir_obs: Option<String>,
    req: String,
    raw_tokens: String,
    shared: bool,
}

fn eval(rep: &mut Report, c: RCase, idx: u64) -> Done {
    let root = rep.workdir.join(format!("rawzip{}", idx));
    let _ = std::fs::remove_dir_all(&root);
    std::fs::create_dir_all(&root).unwrap();
    let ents: Vec<RawEnt> = c.entries.iter().map(|(n, d, m)| RawEnt { name: n.as_bytes().to_vec(), data: d.clone(), mode: *m }).collect();
    let zpath = root.join("raw.zip");
    std::fs::write(&zpath, write_raw_zip(&ents)).unwrap();
    let dpath = root.join("beside");
    let mut paths = vec![zpath.to_str().unwrap().to_string()];
    let raw_tokens = c.entries.iter().map(|(n, d, _)| file_token(n, d)).collect::<Vec<_>>().join(",");
    let mut req_args = vec![format!("Z0:{}", raw_tokens)];
    if !c.dir.is_empty() {
        for (n, d) in &c.dir {
            write_file(&dpath.join(n), d);
        }
        // WalkDir order is the directory order of the file system: the model gets the files in
        // that order (it matters for nothing observable: items are compared sorted)
        let toks: Vec<String> = c.dir.iter().map(|(n, d)| file_token(n, d)).collect();
        if c.dir_first {
            paths.insert(0, dpath.to_str().unwrap().to_string());
            req_args = vec![format!("d0:{}", toks.join(",")), format!("Z1:{}", raw_tokens)];
        } else {
            paths.push(dpath.to_str().unwrap().to_string());
            req_args.push(format!("d1:{}", toks.join(",")));
        }
    }
    let (impl_out, obs) = run_producer(&root, &paths, c.ignore_orphan, c.llvm);
    // (1) the reference: first listable entry per canonical spelling + the directory's files
    let ix = crate_index(&c.entries);
    let firsts = first_listable(&ix);
    let mut arts: Vec<Artifact> = firsts.iter().map(|(n, d)| Artifact { rel: n.clone(), content: d.clone(), intent: intent_from(n, d) }).collect();
    arts.extend(c.dir.iter().map(|(n, d)| Artifact { rel: n.clone(), content: d.clone(), intent: intent_from(n, d) }));
    let ref_case = Case { ignore_orphan: c.ignore_orphan, llvm: c.llvm, arts, layouts: vec![], cli: false, filter: None };
    let want = expected(&ref_case, &choice_from(&ref_case, &obs));
    // (2) the same files as ONE directory (when they can live in one tree and nothing is given twice)
    let mut dir_obs = None;
    let names: Vec<&String> = firsts.iter().map(|(n, _)| n).chain(c.dir.iter().map(|(n, _)| n)).collect();
    let uniq: BTreeSet<&String> = names.iter().cloned().collect();
    let tree_ok = uniq.len() == names.len()
        && names.iter().all(|n| !n.is_empty() && n.len() < 200 && !names.iter().any(|m| m.starts_with(&format!("{}/", n))));
    if tree_ok && !names.is_empty() {
        let t = root.join("astree");
        for (n, d) in firsts.iter().chain(c.dir.iter()) {
            write_file(&t.join(n), d);
        }
        dir_obs = Some(run_producer(&root, &[t.to_str().unwrap().to_string()], c.ignore_orphan, c.llvm).1);
    }
    let _ = std::fs::remove_dir_all(&root);
    let shared = shared_canon(&ix);
    Done { req: format!("{} {} {}", if c.ignore_orphan { 1 } else { 0 }, if c.llvm { 1 } else { 0 }, req_args.join(" ")), case: c, impl_out, obs, want, dir_obs, raw_tokens, shared }
}

fn gen(rng: &mut Rng, pools: &Pools, rep: &mut Report) -> RCase {
    let mut entries: Vec<(String, Vec<u8>, Option<u32>)> = vec![];
    let k = rng.range(1, 6);
    let force_dup = rng.chance(1, 3);
    let mut used: Vec<&str> = vec![];
    for i in 0..k {
        let canon: &str = if force_dup && i > 0 && rng.chance(1, 2) { *rng.pick(&used) } else { *rng.pick(CANON) };
        used.push(canon);
        let (name, kind) = respell(rng, canon);
        rep.count(&format!("rawzip.spelling.{}", kind));
        let mut data = content_for(rng, canon, pools);
        let mut mode = None;
        if kind.starts_with("dir-entry") {
            mode = Some(0o40755);
            if rng.chance(2, 3) {
                data = vec![];
            }
        } else if rng.chance(1, 14) {
            // a symlink entry: its data is the link text
            mode = Some(0o120777);
            data = format!("../elsewhere/{}", rng.below(1000)).into_bytes();
            rep.count("rawzip.symlink_entry");
        }
        entries.push((name, data, mode));
        // the gcda / gcno partner under a (possibly other) spelling
        if rng.chance(1, 2) {
            let partner = if canon.ends_with(".gcno") { Some(canon.replace(".gcno", ".gcda")) } else { None };
            if let Some(p) = partner {
                let (pn, pk) = respell(rng, &p);
                rep.count(&format!("rawzip.spelling.{}", pk));
                let d = content_for(rng, &p, pools);
                entries.push((pn, d, None));
            }
        }
    }
    if rng.chance(1, 10) {
        // a repeated RAW name: the zip crate keeps the first place and the last data
        let j = rng.below(entries.len() as u64) as usize;
        let n = entries[j].0.clone();
        let canon = canonical_entry_name(&n).and_then(|c| c.to_str().map(|s| s.to_string())).unwrap_or_else(|| "a.info".into());
        let d = content_for(rng, &canon, pools);
        entries.push((n, d, None));
        rep.count("rawzip.repeated_raw_name");
    }
    if rng.chance(1, 12) {
        // names of 255 and 300 bytes (read into buffers only: .info needs no temp file)
        let n = if rng.chance(1, 2) { 255 } else { 300 } - ".info".len();
        entries.push((format!("{}.info", "L".repeat(n)), content_for(rng, "a.info", pools), None));
        rep.count("rawzip.long_name");
    }
    if rng.chance(1, 2) {
        rng.shuffle(&mut entries);
    }
    let mut dir = vec![];
    if rng.chance(1, 3) {
        for _ in 0..rng.range(1, 3) {
            let canon = *rng.pick(&["s/g.gcda", "h.c.gcda", "0/a.gcda", "a.info", "d/b.info", "s/g.gcno"]);
            if !dir.iter().any(|(n, _): &(String, Vec<u8>)| n == canon) {
                dir.push((canon.to_string(), content_for(rng, canon, pools)));
            }
        }
    }
    RCase { ignore_orphan: rng.chance(1, 2), llvm: rng.chance(1, 3), entries, dir, dir_first: rng.chance(1, 2) }
}

fn fixed() -> Vec<(&'static str, RCase)> {
    let info = |f: &str, n: u32| format!("TN:\nSF:{}\nDA:1,{}\nend_of_record\n", f, n).into_bytes();
    let e = |n: &str, d: Vec<u8>| (n.to_string(), d, None);
    let mk = |entries| RCase { ignore_orphan: false, llvm: false, entries, dir: vec![], dir_first: false };
    vec![
        // review item 8 (tools/review_probes2/prod-conf/p1_zipnames.py): silently unused before 2f541c3
        ("respelled-used", mk(vec![e("d//b.info", info("b.c", 1)), e("d/./e.info", info("e.c", 2)), e("./a.info", info("a.c", 3)), e("c.info", info("ctl.c", 9))])),
        ("repeated-raw-name", mk(vec![e("d.info", info("first.c", 1)), e("d.info", info("second.c", 2))])),
        ("zip-directory-entry-profraw", mk(vec![("junk.profraw/".to_string(), vec![], Some(0o40755)), e("ok.info", info("ok.c", 1))])),
        // review item 19 (tools/review_probes2/prod-conf/p4_misc.py a, a2): a name the file system cannot
        // hold once `_<n>` is added, or a directory component of 300 bytes, kills the whole run
        ("overlong-component-in-zip", mk(vec![e(&format!("{}/x.gcno", "N".repeat(300)), b"oncg*22B long".to_vec()), e("ok.info", info("ok.c", 1))])),
        ("numbered-name-overlong-in-dir", RCase { ignore_orphan: false, llvm: false, entries: vec![e("c.info", info("ctl.c", 9))],
            dir: vec![(format!("{}.gcno", "y".repeat(249)), b"oncg*22B 254 bytes".to_vec()), ("ok.info".to_string(), info("ok.c", 1))], dir_first: true }),
    ]
}

/// an artifact that must be extracted / linked below the temp dir whose destination the file
/// system cannot hold: `<file stem>_<n>.<ext>` longer than NAME_MAX, or a directory component that is
const F_TOO_LONG: &str = "C17-name-too-long-aborts-run";

fn overlong(c: &RCase) -> bool {
    let names = first_listable(&crate_index(&c.entries)).into_iter().map(|x| x.0).chain(c.dir.iter().map(|x| x.0.clone()));
    for n in names {
        if !matches!(ext_of(&n), Some("gcno" | "gcda" | "profraw" | "profdata")) {
            continue;
        }
        let comps: Vec<&str> = n.split('/').collect();
        let (base, dirs) = comps.split_last().unwrap();
        if base.len() + 2 > 255 || dirs.iter().any(|d| d.len() > 255) {
            return true;
        }
    }
    false
}

fn finish(rep: &mut Report, done: Vec<Done>, tag: &str) {
    let mut reqs = vec![];
    for d in &done {
        reqs.push(format!("c17.run {}", d.req));
        reqs.push(format!("c17.ziplist {}", d.raw_tokens));
        reqs.push(format!("c17.zipfirst {}", d.raw_tokens));
    }
    let ans = run_model_named("gm_c17", &reqs, &rep.workdir, tag);
    for (i, d) in done.iter().enumerate() {
        let (run_ans, list_ans, first_ans) = (&ans[3 * i], &ans[3 * i + 1], &ans[3 * i + 2]);
        let m_items = run_ans.split_once(" ; maps=").map(|x| x.0.to_string()).unwrap_or(run_ans.clone());
        let tie_ok = m_items.trim_end() == d.impl_out.trim_end();
        let case = rcase_json(&d.case);
        let mut oracle_failed = false;
        let too_long = d.impl_out.starts_with("panic other")
            && ["File name too long", "Failed to create a symlink", "Cannot create parent directory", "Failed to create file"].iter().any(|m| d.impl_out.contains(m))
            && overlong(&d.case);
        if d.obs != d.want && too_long {
            oracle_failed = true;
            rep.fail(
                "oracle",
                Some(F_TOO_LONG),
                format!(
                    "raw zip: the producer panics [{}] and nothing is delivered, the artifacts mean [{}] — the temp-dir name of an artifact exceeds NAME_MAX (producer.rs extract: expect / unwrap_or_else(panic) on create_dir_all, File::create, symlink_file)",
                    d.obs, d.want
                ),
                case.clone(),
            );
        } else if d.obs != d.want {
            oracle_failed = true;
            rep.fail(
                "oracle",
                None,
                format!(
                    "raw zip: producer() delivers [{}], the first listable entry per canonical name means [{}]{}",
                    d.obs, d.want,
                    if d.shared { " — two entries share a canonical spelling (was finding C17-zip-same-canonical-name-reads-other-entry, repaired by 99c0f28)" } else { "" }
                ),
                case.clone(),
            );
        } else if let Some(o) = &d.dir_obs {
            if *o != d.obs {
                oracle_failed = true;
                rep.fail("oracle", None, format!("packaging: the raw zip delivers [{}], the same files as a directory [{}]", d.obs, o), case.clone());
            }
        }
        if !tie_ok && !oracle_failed {
            rep.disagreements_checked += 1;
            {
                rep.fail("disagreement", None, format!("raw zip: impl [{}] model [{}]", d.impl_out, m_items), case.clone());
            }
        }
        if list_ans != first_ans {
            rep.fail("disagreement", None, format!("Producer.zipListed [{}] differs from the reference zipFirst [{}]", list_ans, first_ans), case.clone());
        }
    }
}

fn canon_tie(rep: &mut Report, rng: &mut Rng) {
    let n = rep.budget(300, 4);
    let mut reqs = vec![];
    let mut want = vec![];
    let mut names = vec![];
    let segs = ["a", "b.info", ".", "..", "", "x y", "é", "...", ".hid", "c\\d", "\0", "n\0m", "0"];
    for _ in 0..n {
        let k = rng.range(0, 4);
        let mut s: Vec<&str> = vec![];
        for _ in 0..k {
            s.push(*rng.pick(&segs));
        }
        let mut name = s.join("/");
        if rng.chance(1, 8) {
            name = format!("/{}", name);
        }
        if rng.chance(1, 10) {
            name.push('\\');
        }
        let w = if is_dir_name(&name) {
            "dir".to_string()
        } else {
            match canonical_entry_name(&name) {
                Some(p) => format!("x{}", hex(p.to_str().unwrap().as_bytes())),
                None => "none".to_string(),
            }
        };
        rep.count(&format!("rawzip.canon.{}", if w.starts_with('x') { "some" } else { w.as_str() }));
        rep.case(&format!("canon {:?}", name), name.contains("//") || name.contains("/./") || name.starts_with("./") || name.contains(".."));
        reqs.push(format!("c17.canon x{}", hex(name.as_bytes())));
        want.push(w);
        names.push(name);
    }
    let ans = run_model_named("gm_c17", &reqs, &rep.workdir, "rawzip_canon");
    for i in 0..reqs.len() {
        if ans[i] != want[i] {
            rep.disagreements_checked += 1;
            rep.fail("disagreement", None, format!("canonical_entry_name({:?}): std {} model {}", names[i], want[i], ans[i]), json!({"op": "rawzip.canon", "name_hex": hex(names[i].as_bytes())}));
        }
    }
}

pub fn run(rep: &mut Report, pools: &Pools) {
    rep.rule.push_str(
        "; part rawzip: one zip written entry by entry (1-6 entries of 16 canonical names under 16 spellings: plain, ./, //, /./, \
         directory entries with / and \\, .. and root and NUL names, symlink entries, repeated raw names, 255/300-byte names, gcno with its gcda under another \
         spelling), optionally a directory input beside it; non-trivial = at least one entry is not canonically spelled or two share a canonical name",
    );
    let mut rng = Rng::new(rep.seed ^ 0xC17_2A);
    let mut done = vec![];
    let mut idx = 0;
    // corpus first: minimised past failures
    let mut corpus: Vec<PathBuf> = std::fs::read_dir("/verif/corpus/C17").map(|d| d.flatten().map(|e| e.path()).collect()).unwrap_or_default();
    corpus.sort();
    for p in corpus {
        if let Some(v) = std::fs::read_to_string(&p).ok().and_then(|t| serde_json::from_str::<Value>(&t).ok()) {
            if v["op"] == "rawzip" {
                rep.count("rawzip.corpus_case");
                rep.case(&format!("rawzip corpus {}", p.display()), true);
                done.push(eval(rep, rcase_from_json(&v), idx));
                idx += 1;
            }
        }
    }
    for (name, c) in fixed() {
        rep.count(&format!("rawzip.witness.{}", name));
        rep.case(&format!("rawzip {}", name), true);
        done.push(eval(rep, c, idx));
        idx += 1;
    }
    let n = rep.budget(260, 8);
    for _ in 0..n {
        let c = gen(&mut rng, pools, rep);
        let d = eval(rep, c, idx);
        idx += 1;
        let nontrivial = d.case.entries.iter().any(|(n, _, _)| canonical_entry_name(n).map(|c| c.to_str() != Some(n.as_str())).unwrap_or(true)) || d.shared;
        rep.case(&format!("rawzip {}", d.req), nontrivial);
        rep.count(if d.shared { "rawzip.shared_canonical_name" } else { "rawzip.distinct_canonical_names" });
        rep.count(&format!("rawzip.outcome.{}", d.obs.split(' ').take(2).collect::<Vec<_>>().join("-").split(':').next().unwrap()));
        if d.dir_obs.is_some() {
            rep.count("rawzip.compared_with_directory");
        }
        if idx % 61 == 7 {
            rep.sample(json!({"request": format!("c17.run {}", d.req), "impl": d.impl_out}));
        }
        done.push(d);
    }
    finish(rep, done, "rawzip");
    canon_tie(rep, &mut rng);
}

pub fn replay(rep: &mut Report, case: &Value) {
    if case["op"].as_str() == Some("rawzip.canon") {
        let mut rng = Rng::new(rep.seed ^ 0xC17_2A);
        canon_tie(rep, &mut rng);
        return;
    }
    let c = rcase_from_json(case);
    let d = eval(rep, c, 0);
    println!("impl {} want {}", d.impl_out, d.want);
    finish(rep, vec![d], "rawzip_replay");
}
