//! C17 — input discovery is complete, exact and independent of packaging.
//!
//! A case is an *artifact multiset* (relative path + content + what the generator meant it to be)
//! plus two or more *layouts* of it (which directory / zip / plain argument each artifact goes to,
//! argument order, zip compression). Every layout is built for real under `work/C17`, the real
//! `grcov::producer` runs on it in-process with an unbounded channel and a fresh temp dir, and the
//! items it sends are canonicalised (format, kind, stem, content hashes – `Path` items are followed
//! to the files they point to).
//!  (1) exactness oracle: the item multiset equals the closed form computed here, in Rust, from the
//!      artifact multiset alone (every artifact used exactly once, pairing, orphans, decoys, failure);
//!  (2) packaging oracle: all layouts of one multiset give the same item multiset (names aside);
//!  (3) tie: the Lean model `Producer.run` (driver `gm_c17`) on the abstract description of each
//!      layout answers the same item list including archive names, and its closed form
//!      (`c17.spec`) equals the one computed here.
//! Since session 4, wave 2: zip containers may spell their entry names non-canonically (`respell`,
//! sent to the model as RAW entries `Z…`, fix 2f541c3); stems below directories called `0`, `1` and
//! dotted / sibling stems (`hello.c`, `util.c`/`util.cc`); the CLI stream runs with 1, 2 or 8 threads.
//! Parts: `rawzip.rs` (archives written entry by entry: repeated / respelled / hostile / directory /
//! symlink entries), `overlap.rs` (overlapping arguments, linked sub-directories: the domain
//! restriction of the property as named findings).
use corrlib::*;
use crossbeam_channel::unbounded;
use grcov::{producer, ItemFormat, ItemType, WorkItem};
use serde_json::{json, Value};
use std::collections::{BTreeMap, BTreeSet};
use std::io::Write;
use std::path::{Path, PathBuf};

mod overlap;
mod rawzip;
mod rawzipw;

const MARKER: &[u8] = b"-//JACOCO//DTD";
const F_GCNO_LAST: &str = "C17-gcno-same-stem-last-wins";
/// two linked-files-map.json with different contents among the inputs: `get_mapping` returns the
/// first entry of a hash map keyed by entry name (same name in two archives: the later archive
/// replaces the earlier one), so the packaging / the argument order decides which mapping is used
const F_TWO_MAPS: &str = "C17-two-path-mappings-first-wins";

// ---------------------------------------------------------------------------------------------
// artifacts

#[derive(Clone, Copy, Debug, PartialEq, Eq)]
enum Intent {
    Info,       // .info starting with TN: or SF:
    Xml,        // .xml with the marker inside its first 256 bytes (any length, any encoding)
    Gcno,
    Gcda,
    Profraw,
    Profdata,
    Map, // linked-files-map.json
    Decoy,
}

fn intent_name(i: Intent) -> &'static str {
    match i {
        Intent::Info => "info",
        Intent::Xml => "xml",
        Intent::Gcno => "gcno",
        Intent::Gcda => "gcda",
        Intent::Profraw => "profraw",
        Intent::Profdata => "profdata",
        Intent::Map => "map",
        Intent::Decoy => "decoy",
    }
}
fn intent_of(s: &str) -> Intent {
    match s {
        "info" => Intent::Info,
        "xml" => Intent::Xml,
        // replay files written before fix 82d1c8b (short / non-UTF-8-prefix reports are now used)
        "xml-short" | "xml-badutf8" => Intent::Xml,
        "gcno" => Intent::Gcno,
        "gcda" => Intent::Gcda,
        "profraw" => Intent::Profraw,
        "profdata" => Intent::Profdata,
        "map" => Intent::Map,
        _ => Intent::Decoy,
    }
}

#[derive(Clone, Debug)]
struct Artifact {
    rel: String,
    content: Vec<u8>,
    intent: Intent,
}

impl Artifact {
    fn cid(&self) -> u64 {
        fnv64(&self.content)
    }
    /// gcno / gcda: the relative name without its extension
    fn stem(&self) -> String {
        self.rel[..self.rel.rfind('.').unwrap()].to_string()
    }
}

/// extension of the last component (a leading dot does not start an extension)
fn ext_of(rel: &str) -> Option<&str> {
    let base = rel.rsplit('/').next().unwrap();
    match base.rfind('.') {
        Some(0) | None => None,
        Some(i) => Some(&base[i + 1..]),
    }
}

fn plainable(rel: &str) -> bool {
    matches!(ext_of(rel), Some("info" | "json" | "xml" | "profraw" | "profdata"))
}

/// the gcno carries one of the two LLVM version stamps (402*, 408*)
fn llvm_stamp(content: &[u8]) -> bool {
    content.len() >= 8 && (&content[..8] == b"oncg*204" || &content[..8] == b"oncg*804")
}

// ---------------------------------------------------------------------------------------------
// layouts

#[derive(Clone, Copy, Debug, PartialEq, Eq)]
enum CType {
    Dir,
    ZipStored,
    ZipDeflate,
}

#[derive(Clone, Copy, Debug, PartialEq, Eq)]
enum ArgRef {
    C(usize), // container index
    P(usize), // artifact index, given as a plain-file argument
}

#[derive(Clone, Debug)]
struct Layout {
    containers: Vec<CType>,
    /// per artifact: container index, or -1 = plain-file argument
    assign: Vec<i64>,
    order: Vec<ArgRef>,
    relative_args: bool,
    dir_entries: bool,
    zip_seed: u64,
    /// zip containers spell their entry names non-canonically (`./a/b`, `a//b`, `a/./b`): the
    /// canonical name is the artifact's relative name (fix 2f541c3)
    respell: bool,
    /// directory containers also hold FIFOs and dangling links named like coverage artifacts
    /// (`zz_pipe.info`, `zz_dangling.profraw`, a dangling / FIFO `<stem>.gcda` beside a live gcno):
    /// not files, to be ignored (mutant R15: `is_file()` -> `!is_dir()`)
    specials: bool,
}

#[derive(Clone, Debug)]
struct Case {
    ignore_orphan: bool,
    llvm: bool,
    arts: Vec<Artifact>,
    layouts: Vec<Layout>,
    /// also run the `grcov` binary on every layout and compare the lcov reports
    cli: bool,
    /// CLI runs: `--filter covered` (`Some(true)`, which is also what makes `main` pass
    /// `ignore_orphan_gcno = true`), `--filter uncovered` (`Some(false)`) or no filter
    filter: Option<bool>,
}

fn case_json(c: &Case) -> Value {
    json!({
        "ignore_orphan_gcno": c.ignore_orphan,
        "is_llvm": c.llvm,
        "cli": c.cli,
        "filter": match c.filter { Some(true) => json!("covered"), Some(false) => json!("uncovered"), None => Value::Null },
        "artifacts": c.arts.iter().map(|a| json!({"rel": a.rel, "intent": intent_name(a.intent),
            "content_hex": hex(&a.content), "bytes": a.content.len()})).collect::<Vec<_>>(),
        "layouts": c.layouts.iter().map(|l| json!({
            "containers": l.containers.iter().map(|t| match t { CType::Dir => "dir", CType::ZipStored => "zip-stored", CType::ZipDeflate => "zip-deflate" }).collect::<Vec<_>>(),
            "assign": l.assign,
            "order": l.order.iter().map(|r| match r { ArgRef::C(i) => format!("c{}", i), ArgRef::P(i) => format!("p{}", i) }).collect::<Vec<_>>(),
            "relative_args": l.relative_args, "dir_entries": l.dir_entries, "zip_seed": l.zip_seed, "respell": l.respell, "specials": l.specials,
        })).collect::<Vec<_>>(),
    })
}

fn case_from_json(v: &Value) -> Case {
    let arts = v["artifacts"]
        .as_array()
        .unwrap()
        .iter()
        .map(|a| Artifact {
            rel: a["rel"].as_str().unwrap().to_string(),
            content: unhex(a["content_hex"].as_str().unwrap()),
            intent: intent_of(a["intent"].as_str().unwrap()),
        })
        .collect();
    let layouts = v["layouts"]
        .as_array()
        .unwrap()
        .iter()
        .map(|l| Layout {
            containers: l["containers"]
                .as_array()
                .unwrap()
                .iter()
                .map(|t| match t.as_str().unwrap() {
                    "dir" => CType::Dir,
                    "zip-stored" => CType::ZipStored,
                    _ => CType::ZipDeflate,
                })
                .collect(),
            assign: l["assign"].as_array().unwrap().iter().map(|x| x.as_i64().unwrap()).collect(),
            order: l["order"]
                .as_array()
                .unwrap()
                .iter()
                .map(|r| {
                    let s = r.as_str().unwrap();
                    let n: usize = s[1..].parse().unwrap();
                    if s.starts_with('c') {
                        ArgRef::C(n)
                    } else {
                        ArgRef::P(n)
                    }
                })
                .collect(),
            relative_args: l["relative_args"].as_bool().unwrap_or(false),
            dir_entries: l["dir_entries"].as_bool().unwrap_or(false),
            zip_seed: l["zip_seed"].as_u64().unwrap_or(0),
            respell: l["respell"].as_bool().unwrap_or(false),
            specials: l["specials"].as_bool().unwrap_or(false),
        })
        .collect();
    Case {
        ignore_orphan: v["ignore_orphan_gcno"].as_bool().unwrap(),
        llvm: v["is_llvm"].as_bool().unwrap(),
        arts,
        layouts,
        cli: v["cli"].as_bool().unwrap_or(false),
        filter: match v["filter"].as_str() { Some("covered") => Some(true), Some("uncovered") => Some(false), _ => None },
    }
}

// ---------------------------------------------------------------------------------------------
// building a layout and running the real producer on it

struct LayoutRun {
    /// `ok <items with names>` | `panic no-input` | `panic bad-arg` | `panic other …`
    impl_out: String,
    /// the same without archive names (the packaging-invariant observable)
    obs: String,
    /// content id of the returned path mapping
    map: Option<u64>,
    /// ARG tokens of the model request
    req_args: String,
}

fn write_file(p: &Path, content: &[u8]) {
    std::fs::create_dir_all(p.parent().unwrap()).unwrap();
    std::fs::write(p, content).unwrap();
}

fn file_token(path: &str, content: &[u8]) -> String {
    format!(
        "{}/{}/{}",
        hex(path.as_bytes()),
        hex(&content[..content.len().min(256)]),
        fnv64(content)
    )
}

fn hash_file(p: &Path) -> Option<u64> {
    std::fs::read(p).ok().map(|b| fnv64(&b))
}
fn show_opt(o: Option<u64>) -> String {
    o.map(|x| x.to_string()).unwrap_or_else(|| "-".to_string())
}
fn show_sorted(mut v: Vec<u64>) -> String {
    v.sort();
    v.iter().map(|x| x.to_string()).collect::<Vec<_>>().join(",")
}
fn fmt_name(f: &ItemFormat) -> &'static str {
    match f {
        ItemFormat::Gcno => "gcno",
        ItemFormat::Profraw => "profraw",
        ItemFormat::Profdata => "profdata",
        ItemFormat::Info => "info",
        ItemFormat::JacocoXml => "xml",
    }
}

/// (observable, name) of one work item
fn canon_item(it: &WorkItem, paths: &[String]) -> (String, String) {
    let f = fmt_name(&it.format);
    let obs = match &it.item {
        ItemType::Content(buf) => format!("C:{}:{}", f, fnv64(buf)),
        ItemType::Paths(ps) => {
            let hs: Vec<Option<u64>> = ps.iter().map(|p| hash_file(p)).collect();
            let missing = hs.iter().filter(|h| h.is_none()).count();
            format!("P:{}:{}:m{}", f, show_sorted(hs.iter().flatten().cloned().collect()), missing)
        }
        ItemType::Path((stem, gcno_path)) => {
            // what gcov would be run on: the gcno at this path and the gcda beside it
            let gcda_path = gcno_path.with_extension("gcda");
            let tag = if it.format == ItemFormat::Gcno { "G".to_string() } else { format!("G?{}", f) };
            format!(
                "{}:{}:{}:{}",
                tag,
                hex(stem.as_bytes()),
                show_opt(hash_file(gcno_path)),
                show_opt(hash_file(&gcda_path))
            )
        }
        ItemType::Buffers(b) => {
            let tag = if it.format == ItemFormat::Gcno { "B".to_string() } else { format!("B?{}", f) };
            format!(
                "{}:{}:{}:{}",
                tag,
                hex(b.stem.as_bytes()),
                fnv64(&b.gcno_buf),
                show_sorted(b.gcda_buf.iter().map(|g| fnv64(g)).collect())
            )
        }
    };
    let name = if it.name == "plain files" {
        "plain".to_string()
    } else if it.name.is_empty() {
        "-".to_string()
    } else if matches!(it.item, ItemType::Paths(_)) && (it.name == "profraw" || it.name == "profdata") {
        "ext".to_string()
    } else if let Some(i) = paths.iter().position(|p| *p == it.name) {
        format!("a{}", i)
    } else {
        format!("?{}", hex(it.name.as_bytes()))
    };
    (obs, name)
}

/// write the layout under `root`; returns the argument strings and the ARG tokens of the model request
fn build_layout(root: &Path, case: &Case, lay: &Layout) -> (Vec<String>, Vec<String>) {
    std::fs::create_dir_all(root).unwrap();
    let cwd = std::env::current_dir().unwrap();
    let arg_string = |p: &Path| -> String {
        if lay.relative_args {
            if let Ok(r) = p.strip_prefix(&cwd) {
                return r.to_str().unwrap().to_string();
            }
        }
        p.to_str().unwrap().to_string()
    };
    // containers
    let mut cpaths: Vec<PathBuf> = vec![];
    let mut ctokens: Vec<Vec<String>> = vec![];
    for (ci, ct) in lay.containers.iter().enumerate() {
        let members: Vec<usize> = (0..case.arts.len()).filter(|&j| lay.assign[j] == ci as i64).collect();
        match ct {
            CType::Dir => {
                let d = root.join(format!("c{}", ci));
                std::fs::create_dir_all(&d).unwrap();
                for &j in &members {
                    write_file(&d.join(&case.arts[j].rel), &case.arts[j].content);
                }
                if lay.specials {
                    plant_specials(&d, case, &members);
                }
                cpaths.push(d);
                ctokens.push(members.iter().map(|&j| file_token(&case.arts[j].rel, &case.arts[j].content)).collect());
            }
            CType::ZipStored | CType::ZipDeflate => {
                let z = root.join(format!("c{}.zip", ci));
                let mut order = members.clone();
                Rng(lay.zip_seed ^ ci as u64).shuffle(&mut order);
                let method = if *ct == CType::ZipStored {
                    zip::CompressionMethod::Stored
                } else {
                    zip::CompressionMethod::Deflated
                };
                let opts = zip::write::SimpleFileOptions::default().compression_method(method);
                // built in memory, written once (the file system under work/ is slow on small writes)
                let mut w = zip::ZipWriter::new(std::io::Cursor::new(Vec::new()));
                let mut dirs_done: BTreeSet<String> = BTreeSet::new();
                let mut spelled_names: Vec<String> = vec![];
                for &j in &order {
                    let rel = &case.arts[j].rel;
                    if lay.dir_entries {
                        let comps: Vec<&str> = rel.split('/').collect();
                        for k in 1..comps.len() {
                            let d = comps[..k].join("/") + "/";
                            if dirs_done.insert(d.clone()) {
                                w.add_directory(d, opts).unwrap();
                            }
                        }
                    }
                    let spelled = if lay.respell { respell_name(rel, lay.zip_seed ^ (j as u64) << 8) } else { rel.clone() };
                    w.start_file(spelled.as_str(), opts).unwrap();
                    w.write_all(&case.arts[j].content).unwrap();
                    spelled_names.push(spelled);
                }
                let bytes = w.finish().unwrap().into_inner();
                std::fs::write(&z, bytes).unwrap();
                cpaths.push(z);
                ctokens.push(order.iter().zip(spelled_names.iter()).map(|(&j, n)| file_token(n, &case.arts[j].content)).collect());
            }
        }
    }
    // arguments in the chosen order
    let mut paths: Vec<String> = vec![];
    let mut req: Vec<String> = vec![];
    for (pos, r) in lay.order.iter().enumerate() {
        match r {
            ArgRef::C(ci) => {
                paths.push(arg_string(&cpaths[*ci]));
                // a respelled archive is sent with its RAW names (`Z`): the model makes the listing
                let tag = if lay.containers[*ci] == CType::Dir { "d" } else if lay.respell { "Z" } else { "z" };
                req.push(format!("{}{}:{}", tag, pos, ctokens[*ci].join(",")));
            }
            ArgRef::P(j) => {
                let base = case.arts[*j].rel.rsplit('/').next().unwrap();
                let p = root.join(format!("p{}", j)).join(base);
                write_file(&p, &case.arts[*j].content);
                // the producer turns a relative plain argument into current_dir.join(arg)
                let abs = p.to_str().unwrap().to_string();
                paths.push(arg_string(&p));
                req.push(format!("p:{}", file_token(&abs, &case.arts[*j].content)));
            }
        }
    }
    (paths, req)
}

/// runs that did not end because of a FIFO: after two of them no more FIFOs are planted (every
/// further one would cost the whole time limit again; the failure is already reported)
static HANGS: std::sync::atomic::AtomicUsize = std::sync::atomic::AtomicUsize::new(0);

fn mkfifo(p: &Path) {
    if HANGS.load(std::sync::atomic::Ordering::Relaxed) >= 2 {
        return;
    }
    let c = std::ffi::CString::new(p.to_str().unwrap()).unwrap();
    unsafe {
        libc::mkfifo(c.as_ptr(), 0o644);
    }
}

/// FIFOs and dangling links named like coverage artifacts, beside the live ones of a directory
/// container: `WalkDir` yields them, `is_file()` is false for them, nothing may come of them (and the
/// run must not block on a FIFO)
fn plant_specials(d: &Path, case: &Case, members: &[usize]) {
    let free = |name: &str| !d.join(name).exists() && std::fs::symlink_metadata(d.join(name)).is_err();
    for name in ["zz_pipe.info", "sub/zz_pipe.xml", "zz_pipe.profraw"] {
        if free(name) {
            let _ = std::fs::create_dir_all(d.join(name).parent().unwrap());
            mkfifo(&d.join(name));
        }
    }
    for name in ["zz_dangling.info", "zz_dangling.profraw", "zz_dangling.profdata", "zz_dangling.xml", "zz_dangling.gcno", "linked-files-map.json"] {
        if free(name) {
            let _ = std::os::unix::fs::symlink("nowhere/at/all", d.join(name));
        }
    }
    // a gcda that is not a file beside a LIVE gcno of this container
    let mut k = 0;
    for &j in members {
        let a = &case.arts[j];
        if a.intent == Intent::Gcno {
            let g = format!("{}.gcda", a.stem());
            if free(&g) {
                if k % 2 == 0 {
                    let _ = std::os::unix::fs::symlink("nowhere.gcda", d.join(&g));
                } else {
                    mkfifo(&d.join(&g));
                }
                k += 1;
            }
        }
    }
}

/// a non-canonical spelling of a clean relative name; `Path::components` gives the same `Normal`s
fn respell_name(rel: &str, seed: u64) -> String {
    let mut r = Rng::new(seed);
    let mut s = match r.below(4) {
        0 => rel.to_string(),
        1 => rel.replace('/', "//"),
        2 => rel.replace('/', "/./"),
        _ => rel.replacen('/', "/.//", 1),
    };
    if r.chance(1, 2) {
        s = format!("./{}", s);
    }
    s
}

fn run_layout(root: &Path, case: &Case, lay: &Layout) -> LayoutRun {
    let (paths, req) = build_layout(root, case, lay);
    let tmp = tempfile::tempdir_in(root).unwrap();
    let tmp_path = tmp.path().to_path_buf();
    let (sender, receiver) = unbounded();
    let paths2 = paths.clone();
    let (io, llvm) = (case.ignore_orphan, case.llvm);
    // on a thread of its own: a producer that blocks (a FIFO opened for reading) must not block the check
    let (dtx, drx) = std::sync::mpsc::channel();
    std::thread::spawn(move || {
        let r = guarded(move || {
            let m = producer(&tmp_path, &paths2, &sender, io, llvm);
            drop(sender);
            m
        });
        let _ = dtx.send(r);
    });
    let res = match drx.recv_timeout(std::time::Duration::from_secs(20)) {
        Ok(r) => r,
        Err(_) => {
            HANGS.fetch_add(1, std::sync::atomic::Ordering::Relaxed);
            Err("producer() did not return within 20 s (blocked on an input that is not a file?)".to_string())
        }
    };
    let mut items: Vec<(String, String)> = vec![];
    while let Ok(x) = receiver.try_recv() {
        match x {
            Some(it) => items.push(canon_item(&it, &paths)),
            None => items.push(("NONE".to_string(), "-".to_string())),
        }
    }
    let (impl_out, obs, map) = match res {
        Ok(m) => {
            let mut with: Vec<String> = items.iter().map(|(o, n)| format!("{}:{}", o, n)).collect();
            with.sort();
            let mut without: Vec<String> = items.iter().map(|(o, _)| o.clone()).collect();
            without.sort();
            (format!("ok {}", with.join("|")), format!("ok {}", without.join("|")), m.map(|b| fnv64(&b)))
        }
        Err(msg) => {
            let k = if msg.contains("No input files found") {
                "panic no-input".to_string()
            } else if msg.contains("Cannot load file") {
                "panic bad-arg".to_string()
            } else {
                format!("panic other {}", msg)
            };
            // items sent before a panic would be a partial delivery: make it visible
            let k = if items.is_empty() { k } else { format!("{} after {} item(s)", k, items.len()) };
            (k.clone(), k, None)
        }
    };
    drop(tmp);
    LayoutRun { impl_out, obs, map, req_args: req.join(" ") }
}

// ---------------------------------------------------------------------------------------------
// the property, restated on artifact multisets (independent of grcov and of the Lean model)

/// keys (stem, effective llvm flag) that have gcno artifacts with different contents
fn inconsistent_keys(case: &Case) -> BTreeMap<(String, bool), BTreeSet<u64>> {
    let mut m: BTreeMap<(String, bool), BTreeSet<u64>> = BTreeMap::new();
    for a in case.arts.iter().filter(|a| a.intent == Intent::Gcno) {
        m.entry((a.stem(), case.llvm || llvm_stamp(&a.content))).or_default().insert(a.cid());
    }
    m.retain(|_, v| v.len() > 1);
    m
}

/// Expected item multiset (names aside). For a key with several different gcno contents the
/// property does not say which one counts: `choice` picks (the caller tries what the run used).
fn expected(case: &Case, choice: &BTreeMap<(String, bool), u64>) -> String {
    let mut out: Vec<String> = vec![];
    let xml_used = |a: &Artifact| a.intent == Intent::Xml;
    let mut usable = false;
    for a in &case.arts {
        if a.intent == Intent::Info {
            out.push(format!("C:info:{}", a.cid()));
            usable = true;
        }
        if xml_used(a) {
            out.push(format!("C:xml:{}", a.cid()));
            usable = true;
        }
    }
    for (intent, f) in [(Intent::Profdata, "profdata"), (Intent::Profraw, "profraw")] {
        let cs: Vec<u64> = case.arts.iter().filter(|a| a.intent == intent).map(|a| a.cid()).collect();
        if !cs.is_empty() {
            out.push(format!("P:{}:{}:m0", f, show_sorted(cs)));
            usable = true;
        }
    }
    let mut keys: BTreeMap<(String, bool), BTreeSet<u64>> = BTreeMap::new();
    for a in case.arts.iter().filter(|a| a.intent == Intent::Gcno) {
        keys.entry((a.stem(), case.llvm || llvm_stamp(&a.content))).or_default().insert(a.cid());
        usable = true;
    }
    for (k, cands) in &keys {
        let g = choice.get(k).cloned().filter(|c| cands.contains(c)).unwrap_or(*cands.iter().next().unwrap());
        let ds: Vec<u64> =
            case.arts.iter().filter(|a| a.intent == Intent::Gcda && a.stem() == k.0).map(|a| a.cid()).collect();
        let stem = hex(k.0.as_bytes());
        if ds.is_empty() {
            if !case.ignore_orphan {
                if k.1 {
                    out.push(format!("B:{}:{}:", stem, g));
                } else {
                    out.push(format!("G:{}:{}:-", stem, g));
                }
            }
        } else if k.1 {
            out.push(format!("B:{}:{}:{}", stem, g, show_sorted(ds)));
        } else {
            for d in ds {
                out.push(format!("G:{}:{}:{}", stem, g, d));
            }
        }
    }
    if !usable {
        return "panic no-input".to_string();
    }
    out.sort();
    format!("ok {}", out.join("|"))
}

/// which gcno content the run used for each inconsistent key
fn choice_from(case: &Case, obs: &str) -> BTreeMap<(String, bool), u64> {
    let mut m = BTreeMap::new();
    for (k, cands) in inconsistent_keys(case) {
        let stem = hex(k.0.as_bytes());
        let tag = if k.1 { "B" } else { "G" };
        for it in obs.trim_start_matches("ok ").split('|') {
            let f: Vec<&str> = it.split(':').collect();
            if f.len() >= 3 && f[0] == tag && f[1] == stem {
                if let Ok(c) = f[2].parse::<u64>() {
                    if cands.contains(&c) {
                        m.insert(k.clone(), c);
                    }
                }
            }
        }
    }
    m
}

fn strip_stems(obs: &str, stems: &BTreeSet<String>) -> String {
    if !obs.starts_with("ok ") {
        return obs.to_string();
    }
    obs[3..]
        .split('|')
        .filter(|it| {
            let f: Vec<&str> = it.split(':').collect();
            !(f.len() >= 2 && (f[0] == "G" || f[0] == "B") && stems.contains(f[1]))
        })
        .collect::<Vec<_>>()
        .join("|")
}

struct OracleFail {
    finding: Option<&'static str>,
    /// which check failed (shrinking keeps the class)
    class: &'static str,
    what: String,
}

fn has_bad_arg(case: &Case, lay: &Layout) -> bool {
    lay.order.iter().any(|r| matches!(r, ArgRef::P(j) if !plainable(&case.arts[*j].rel)))
}

/// both oracles on the implementation's own output
fn oracles(case: &Case, runs: &[LayoutRun]) -> Option<OracleFail> {
    // a layout with an inadmissible plain argument is outside the property (tie only)
    let ok_layouts: Vec<usize> = (0..runs.len()).filter(|&i| !has_bad_arg(case, &case.layouts[i])).collect();
    // (1) exactness, per layout
    for &i in &ok_layouts {
        let r = &runs[i];
        let want = expected(case, &choice_from(case, &r.obs));
        if r.obs != want {
            return Some(OracleFail {
                finding: None, class: "exact",
                what: format!("exactness: layout {} delivers [{}], the artifact multiset means [{}]", i, r.obs, want),
            });
        }
        // path mapping: absent iff there is no linked-files-map.json; one of the maps otherwise
        let maps: BTreeSet<u64> = case.arts.iter().filter(|a| a.intent == Intent::Map).map(|a| a.cid()).collect();
        if r.obs.starts_with("ok") {
            let good = match r.map {
                None => maps.is_empty(),
                Some(c) => maps.contains(&c),
            };
            if !good {
                return Some(OracleFail {
                    finding: None, class: "map",
                    what: format!("path mapping: layout {} returned {:?}, the linked-files-map.json contents are {:?}", i, r.map, maps),
                });
            }
        }
    }
    // (2) packaging invariance
    if let Some(&a) = ok_layouts.first() {
        for &b in &ok_layouts[1..] {
            if runs[a].obs != runs[b].obs {
                let inc = inconsistent_keys(case);
                if !inc.is_empty() {
                    let stems: BTreeSet<String> = inc.keys().map(|k| hex(k.0.as_bytes())).collect();
                    if strip_stems(&runs[a].obs, &stems) == strip_stems(&runs[b].obs, &stems) {
                        return Some(OracleFail {
                            finding: Some(F_GCNO_LAST), class: "packaging",
                            what: format!(
                                "packaging: layouts {} and {} of the same artifacts deliver [{}] vs [{}]; they differ only \
                                 in which of several different gcno files with the same relative name is used \
                                 (producer.rs:71 HashMap::insert keeps the last archive's)",
                                a, b, runs[a].obs, runs[b].obs
                            ),
                        });
                    }
                }
                return Some(OracleFail {
                    finding: None, class: "packaging",
                    what: format!(
                        "packaging: layouts {} and {} of the same artifacts deliver [{}] vs [{}]",
                        a, b, runs[a].obs, runs[b].obs
                    ),
                });
            }
            // the path mapping is part of the outcome: same artifacts, same mapping (OutcomeEquivM)
            let maps: BTreeSet<u64> = case.arts.iter().filter(|x| x.intent == Intent::Map).map(|x| x.cid()).collect();
            if runs[a].map != runs[b].map {
                return Some(OracleFail {
                    finding: if maps.len() >= 2 { Some(F_TWO_MAPS) } else { None },
                    class: "packaging-map",
                    what: if maps.len() >= 2 {
                        format!(
                            "packaging: layouts {} and {} of the same artifacts deliver the same items but different path mappings ({:?} vs {:?}): \
                             {} different linked-files-map.json among the inputs, producer.rs get_mapping takes the first entry of a hash map \
                             keyed by entry name (the same name in a later archive replaces the earlier one)",
                            a, b, runs[a].map, runs[b].map, maps.len()
                        )
                    } else {
                        format!("packaging: path mapping differs between layouts {} and {}: {:?} vs {:?}", a, b, runs[a].map, runs[b].map)
                    },
                });
            }
        }
    }
    None
}

// ---------------------------------------------------------------------------------------------
// the same property at the CLI: the lcov report of every layout equals the aggregate of what the
// usable inputs contain (each exactly once), hence is the same for all layouts

fn cli_oracle(dir: &Path, case: &Case) -> Option<OracleFail> {
    use corrlib::pipe::{aggregate, decode_lcov_report, run_grcov, show_map, Input, RunCfg};
    let mut inputs: Vec<Input> = vec![];
    for a in &case.arts {
        let parsed = match a.intent {
            Intent::Info => grcov::parse_lcov(a.content.clone(), true).ok(),
            Intent::Xml => grcov::parse_jacoco_xml_report(std::io::BufReader::new(std::io::Cursor::new(a.content.clone()))).ok(),
            _ => None,
        };
        if let Some(parsed) = parsed {
            inputs.push(Input { name: a.rel.clone(), format: "Info", id: String::new(), bytes: a.content.clone(), parsed });
        }
    }
    // every LLVM notes file with ALL gcda of its stem (none: zero counts)
    for a in case.arts.iter().filter(|a| a.intent == Intent::Gcno && llvm_stamp(&a.content)) {
        let gcdas: Vec<Vec<u8>> = case.arts.iter().filter(|d| d.intent == Intent::Gcda && d.stem() == a.stem()).map(|d| d.content.clone()).collect();
        if let Ok(parsed) = grcov::Gcno::compute(&a.stem(), a.content.clone(), gcdas, true) {
            inputs.push(Input { name: a.rel.clone(), format: "Gcno", id: String::new(), bytes: a.content.clone(), parsed });
        }
    }
    let refs: Vec<&Input> = inputs.iter().collect();
    let mut agg = aggregate(&refs);
    // `--filter`: the property's "covered" = some line was executed (and, with more than one function,
    // one besides `top-level` was); restated here, applied to the merged record of a file
    let covered = |r: &grcov::CovResult| {
        r.lines.values().any(|&c| c != 0) && (r.functions.len() <= 1 || r.functions.iter().any(|(n, f)| f.executed && n != "top-level"))
    };
    match case.filter {
        Some(true) => agg.retain(|_, r| covered(r)),
        Some(false) => agg.retain(|_, r| !covered(r)),
        None => {}
    }
    let want = show_map(&agg);
    let mut first: Option<String> = None;
    for (i, lay) in case.layouts.iter().enumerate() {
        let root = dir.join(format!("cli{}", i));
        let (paths, _) = build_layout(&root, case, lay);
        let mut extra: Vec<String> = vec!["-t".into(), "lcov".into(), "--branch".into(), "--no-demangle".into()];
        if case.llvm {
            extra.push("--llvm".into());
        }
        match case.filter {
            Some(true) => extra.extend(["--filter".to_string(), "covered".to_string()]),
            Some(false) => extra.extend(["--filter".to_string(), "uncovered".to_string()]),
            None => {}
        }
        let out = run_grcov(&RunCfg {
            dir: &std::env::current_dir().unwrap(),
            args: paths,
            threads: [1usize, 2, 8][(lay.zip_seed % 3) as usize],
            perturb: None,
            fault: None,
            // FIFOs and dangling links may lie in the directories: the run must end all the same
            limit: std::time::Duration::from_secs(20),
            extra,
        });
        if out.exit.is_none() {
            HANGS.fetch_add(1, std::sync::atomic::Ordering::Relaxed);
        }
        if out.exit != Some(0) {
            return Some(OracleFail {
                finding: None, class: "cli-exit",
                what: format!("CLI: layout {}: grcov exited with {:?} (None = no end within 20 s): {}", i, out.exit, out.stderr.lines().last().unwrap_or("")),
            });
        }
        let got = match decode_lcov_report(&out.stdout) {
            Ok(m) => show_map(&m),
            Err(e) => return Some(OracleFail { finding: None, class: "cli-decode", what: format!("CLI: layout {}: report is not lcov: {}", i, e) }),
        };
        if got != want {
            return Some(OracleFail {
                finding: None, class: "cli-aggregate",
                what: format!(
                    "CLI: the report of layout {} differs from the aggregate of the usable inputs (each counted once): report [{}] aggregate [{}]",
                    i, got, want
                ),
            });
        }
        if let Some(f) = &first {
            if *f != got {
                return Some(OracleFail { finding: None, class: "cli-differ", what: format!("CLI: reports of layouts 0 and {} differ", i) });
            }
        } else {
            first = Some(got);
        }
    }
    None
}

/// info/xml inputs with overlapping files (corrlib::pipe::gen_inputs) among decoys that would change the
/// counts if they were used
fn gen_cli_case(rng: &mut Rng, cfg: &GenCfg) -> Case {
    let k = rng.range(1, 5) as usize;
    let mut arts: Vec<Artifact> = vec![];
    for inp in corrlib::pipe::gen_inputs(rng, k) {
        let is_xml = inp.format == "JacocoXml";
        if is_xml
            && !inp.bytes[..inp.bytes.len().min(256)].windows(MARKER.len()).any(|w| w == MARKER)
        {
            continue;
        }
        arts.push(Artifact {
            rel: format!("{}{}", rng.pick(DIRS), inp.name),
            content: inp.bytes,
            intent: if is_xml { Intent::Xml } else { Intent::Info },
        });
    }
    if !arts.iter().any(|a| a.intent == Intent::Info) {
        arts.push(art("base.info", b"TN:b\nSF:src/a.c\nDA:1,1\nend_of_record\n", Intent::Info));
    }
    // decoys carrying real coverage data: wrong signature, wrong extension, dot-file, gcda without gcno
    let lcov = |n: u64| format!("SF:src/a.c\nDA:1,{}\nDA:77,{}\nend_of_record\n", n, n).into_bytes();
    for _ in 0..rng.range(0, 3) {
        let n = rng.range(1, 9);
        let (rel, content): (String, Vec<u8>) = match rng.below(6) {
            0 => (format!("{}fake{}.info", rng.pick(DIRS), rng.below(3)), [b"\n".to_vec(), lcov(n)].concat()),
            1 => (format!("{}fake{}.info", rng.pick(DIRS), rng.below(3)), [b" ".to_vec(), lcov(n)].concat()),
            2 => ("trace.txt".to_string(), lcov(n)),
            3 => (format!("{}.info", rng.pick(DIRS)), lcov(n)),
            4 => ("upper.INFO".to_string(), lcov(n)),
            _ => (format!("{}other{}.xml", rng.pick(DIRS), rng.below(3)), gen_xml_decoy(rng)),
        };
        if !arts.iter().any(|a| a.rel == rel) {
            arts.push(Artifact { rel, content, intent: Intent::Decoy });
        }
    }
    if rng.chance(1, 3) {
        arts.push(art("lonely.gcda", b"adcg*204 no notes", Intent::Gcda));
    }
    // parsable LLVM notes files (the fixtures of /repo/test/llvm), with their gcda or as orphans:
    // "a gcno without any gcda contributes its lines with zero counts unless only covered files were
    // requested" is decided in `main` (`--filter` -> `ignore_orphan_gcno`), so it needs the binary
    let mut fx = vec!["file", "file_branch", "reader"];
    rng.shuffle(&mut fx);
    for (i, f) in fx.iter().take(rng.range(1, 3) as usize).enumerate() {
        if let (Ok(g), Ok(d)) = (std::fs::read(format!("/repo/test/llvm/{}.gcno", f)), std::fs::read(format!("/repo/test/llvm/{}.gcda", f))) {
            let dir = ["", "obj/", "0/", "sub/deep/"][(rng.below(4) as usize + i) % 4];
            arts.push(Artifact { rel: format!("{}{}.gcno", dir, f), content: g, intent: Intent::Gcno });
            if rng.chance(1, 2) {
                arts.push(Artifact { rel: format!("{}{}.gcda", dir, f), content: d, intent: Intent::Gcda });
            }
        }
    }
    let filter = *rng.pick(&[None, None, Some(true), Some(false), Some(false)]);
    rng.shuffle(&mut arts);
    let styles = [Style::OneDir, Style::OneZip, Style::Split, Style::MaxPlain];
    let sa = *rng.pick(&styles);
    let sb = *rng.pick(&styles);
    let la = gen_layout(rng, &arts, sa, cfg);
    let lb = gen_layout(rng, &arts, sb, cfg);
    // main.rs:422 derives `ignore_orphan_gcno` from `--filter covered`: the library run gets the same
    Case { ignore_orphan: filter == Some(true), llvm: rng.chance(1, 4), arts, layouts: vec![la, lb], cli: true, filter }
}

// ---------------------------------------------------------------------------------------------
// evaluation of one case: build, run, oracles; the model requests are answered in one batch later

struct Evaluated {
    runs: Vec<LayoutRun>,
    fail: Option<OracleFail>,
}

fn evaluate(dir: &Path, case: &Case) -> Evaluated {
    let runs: Vec<LayoutRun> =
        case.layouts.iter().enumerate().map(|(i, l)| run_layout(&dir.join(format!("L{}", i)), case, l)).collect();
    let mut fail = oracles(case, &runs);
    if fail.is_none() && case.cli {
        fail = cli_oracle(dir, case);
    }
    let _ = std::fs::remove_dir_all(dir);
    Evaluated { runs, fail }
}

/// drop artifacts one at a time while the same oracle failure (same finding id) persists
fn shrink(dir: &Path, case: &Case, finding: Option<&'static str>, class: &'static str) -> Case {
    let mut cur = case.clone();
    let mut progressed = true;
    let mut budget = 200;
    while progressed && budget > 0 {
        progressed = false;
        let mut j = 0;
        while j < cur.arts.len() && budget > 0 {
            budget -= 1;
            let mut t = cur.clone();
            t.arts.remove(j);
            for l in t.layouts.iter_mut() {
                l.assign.remove(j);
                l.order = l
                    .order
                    .iter()
                    .filter_map(|r| match r {
                        ArgRef::P(k) if *k == j => None,
                        ArgRef::P(k) if *k > j => Some(ArgRef::P(k - 1)),
                        x => Some(*x),
                    })
                    .collect();
            }
            let e = evaluate(dir, &t);
            if matches!(&e.fail, Some(f) if f.finding == finding && f.class == class) {
                cur = t;
                progressed = true;
            } else {
                j += 1;
            }
        }
    }
    cur
}

fn opts_tokens(case: &Case) -> String {
    format!("{} {}", if case.ignore_orphan { 1 } else { 0 }, if case.llvm { 1 } else { 0 })
}

struct Pending {
    case: Case,
    runs: Vec<LayoutRun>,
    oracle_failed: bool,
}

/// run one case on the implementation, evaluate the oracles, queue the model requests
fn process(rep: &mut Report, pend: &mut Vec<Pending>, case: Case, idx: u64, stream: &str) {
    let dir = rep.workdir.join(format!("case{}", idx));
    let e = evaluate(&dir, &case);
    for r in &e.runs {
        let k = r.obs.split(' ').take(2).collect::<Vec<_>>().join("-");
        let k = if r.obs == "ok " { "ok-empty".to_string() } else if r.obs.starts_with("ok") { "ok".to_string() } else { k };
        rep.count(&format!("{}.outcome.{}", stream, k));
    }
    let canonical = format!("{} {}", opts_tokens(&case), e.runs.iter().map(|r| r.req_args.clone()).collect::<Vec<_>>().join(" // "));
    let usable = expected(&case, &BTreeMap::new()) != "panic no-input";
    let distinct_layouts = e.runs.len() >= 2 && e.runs[0].req_args != e.runs[1].req_args;
    rep.case(&canonical, usable && distinct_layouts);
    if idx % 97 == 11 {
        rep.sample(json!({"request": format!("c17.run {} {}", opts_tokens(&case), e.runs[0].req_args), "impl": e.runs[0].impl_out,
            "impl_other_layout": e.runs.get(1).map(|r| r.impl_out.clone())}));
    }
    let mut oracle_failed = false;
    if let Some(f) = &e.fail {
        oracle_failed = true;
        // minimise the first few failures of each kind (each step rebuilds and reruns both layouts)
        let seen = rep.failures.iter().filter(|x| x.finding.as_deref() == f.finding).count();
        let hang = f.what.contains("did not return within") || f.what.contains("no end within");
        if !hang && seen < if f.finding.is_some() { 2 } else { 6 } {
            let min = shrink(&dir, &case, f.finding, f.class);
            let e2 = evaluate(&dir, &min);
            let what = e2.fail.map(|f| f.what).unwrap_or_else(|| f.what.clone());
            rep.fail("oracle", f.finding, format!("{} (minimised)", what), case_json(&min));
        } else {
            rep.fail("oracle", f.finding, f.what.clone(), case_json(&case));
        }
    }
    pend.push(Pending { case, runs: e.runs, oracle_failed });
}

/// answer all queued requests with the Lean model and compare
fn tie(rep: &mut Report, pend: &[Pending], tag: &str) {
    let mut reqs = vec![];
    for p in pend {
        for r in &p.runs {
            reqs.push(format!("c17.run {} {}", opts_tokens(&p.case), r.req_args));
            reqs.push(format!("c17.spec {} {}", opts_tokens(&p.case), r.req_args));
        }
    }
    let answers = run_model_named("gm_c17", &reqs, &rep.workdir, tag);
    let mut k = 0;
    for p in pend {
        for (li, r) in p.runs.iter().enumerate() {
            let (run_ans, spec_ans) = (&answers[k], &answers[k + 1]);
            k += 2;
            // model: `ok items ; maps=c1,c2`
            let (m_items, m_maps) = match run_ans.split_once(" ; maps=") {
                Some((a, b)) => (a.to_string(), b.to_string()),
                None => (run_ans.clone(), String::new()),
            };
            let cands: BTreeSet<String> = m_maps.split(',').filter(|s| !s.is_empty()).map(|s| s.to_string()).collect();
            let map_ok = !r.impl_out.starts_with("ok")
                || match r.map {
                    None => cands.is_empty(),
                    Some(c) => cands.contains(&c.to_string()),
                };
            let mut diffs = vec![];
            if m_items.trim_end() != r.impl_out.trim_end() {
                diffs.push(format!("items: impl [{}] model [{}]", r.impl_out, m_items));
            }
            if !map_ok {
                diffs.push(format!("path mapping: impl {:?} model candidates [{}]", r.map, m_maps));
            }
            // the Lean closed form against the Rust oracle's closed form (only where the latter is defined
            // without a choice and the layout is inside the property's domain)
            if !has_bad_arg(&p.case, &p.case.layouts[li]) {
                let want = expected(&p.case, &choice_from(&p.case, &r.obs));
                if spec_ans.trim_end() != want.trim_end() {
                    diffs.push(format!("closed form: Lean [{}] Rust oracle [{}]", spec_ans, want));
                }
            }
            if !diffs.is_empty() {
                rep.disagreements_checked += 1;
                if !p.oracle_failed {
                    let mut c = p.case.clone();
                    c.layouts = vec![p.case.layouts[li].clone()];
                    rep.fail(
                        "disagreement",
                        None,
                        format!("layout {}: {} (the property oracles hold on the implementation's output)", li, diffs.join("; ")),
                        case_json(&c),
                    );
                }
            }
        }
    }
}

// ---------------------------------------------------------------------------------------------
// generators

struct Pools {
    llvm_gcno: Vec<Vec<u8>>,
    gcc_gcno: Vec<Vec<u8>>,
    gcda: Vec<Vec<u8>>,
}

fn load_pools() -> Pools {
    let mut p = Pools { llvm_gcno: vec![], gcc_gcno: vec![], gcda: vec![] };
    for f in [
        "rust/generics_with_two_parameters", "llvm/file", "prova", "64bit_count", "negative_counts", "Platform",
        "nsGnomeModule", "only_one_gcda/main", "reader_gcc-8", "reader_gcc-10",
    ] {
        if let Ok(b) = std::fs::read(format!("/repo/test/{}.gcno", f)) {
            if b.len() <= 40_000 {
                if llvm_stamp(&b) {
                    p.llvm_gcno.push(b)
                } else {
                    p.gcc_gcno.push(b)
                }
            }
        }
        if let Ok(b) = std::fs::read(format!("/repo/test/{}.gcda", f)) {
            if b.len() <= 40_000 {
                p.gcda.push(b);
            }
        }
    }
    p
}

fn blob(rng: &mut Rng, prefix: &[u8], n: u64) -> Vec<u8> {
    let mut v = prefix.to_vec();
    for _ in 0..n {
        v.push(rng.below(256) as u8);
    }
    v
}

fn gen_gcno(rng: &mut Rng, pools: &Pools, llvm: bool) -> Vec<u8> {
    if !llvm && rng.chance(1, 14) {
        return vec![]; // zero bytes: no LLVM stamp; read into a buffer under --llvm
    }
    if llvm {
        match rng.below(4) {
            0 if !pools.llvm_gcno.is_empty() => {
                // a real file, made unique by a trailing word (the producer never parses it)
                let mut b = rng.pick(&pools.llvm_gcno).clone();
                b.extend_from_slice(&rng.next().to_le_bytes());
                b
            }
            1 => blob(rng, b"oncg*804", 12),
            2 => blob(rng, b"oncg*204", 0), // exactly 8 bytes
            _ => blob(rng, b"oncg*204", 20),
        }
    } else {
        match rng.below(7) {
            0 | 1 if !pools.gcc_gcno.is_empty() => {
                let mut b = rng.pick(&pools.gcc_gcno).clone();
                b.extend_from_slice(&rng.next().to_le_bytes());
                b
            }
            2 => blob(rng, b"oncg*22B", 16),
            3 => blob(rng, b"oncg*20", 0),  // 7 bytes: read_exact(8) fails
            4 => blob(rng, b"gcno402*", 9), // big-endian spelling
            5 => blob(rng, b"oncg*904", 9),
            _ => blob(rng, b"oncg*304", 9),
        }
    }
}

fn gen_gcda(rng: &mut Rng, pools: &Pools) -> Vec<u8> {
    if rng.chance(1, 10) {
        // a zero-byte gcda (process killed before the counters were flushed; mutant R16)
        return vec![];
    }
    if rng.chance(1, 4) && !pools.gcda.is_empty() {
        let mut b = rng.pick(&pools.gcda).clone();
        b.extend_from_slice(&rng.next().to_le_bytes());
        b
    } else {
        blob(rng, b"adcg*204", 12)
    }
}

fn gen_info(rng: &mut Rng) -> Vec<u8> {
    let n = rng.below(1_000_000);
    match rng.below(4) {
        0 => format!("SF:/src/f{}.c\nDA:1,{}\nend_of_record\n", n, rng.below(50)).into_bytes(),
        1 => b"TN:".to_vec(), // exactly the three sniffed bytes
        2 => b"SF:".to_vec(),
        _ => format!("TN:t{}\nSF:/src/g{}.c\nFN:1,f\nFNDA:1,f\nDA:1,1\nend_of_record\n", n, n).into_bytes(),
    }
}

fn gen_info_decoy(rng: &mut Rng) -> Vec<u8> {
    let n = rng.below(1_000_000);
    match rng.below(8) {
        0 => vec![],
        1 => b"TN".to_vec(),
        2 => b"SF".to_vec(),
        3 => format!("\nTN:t{}\nSF:a.c\nend_of_record\n", n).into_bytes(),
        4 => format!("tn:t{}\n", n).into_bytes(),
        5 => format!(" SF:a{}.c\n", n).into_bytes(),
        6 => format!("\u{feff}TN:t{}\n", n).into_bytes(),
        _ => format!("not an info file {}\n", n).into_bytes(),
    }
}

const XML_DECL: &str = "<?xml version=\"1.0\" encoding=\"UTF-8\" standalone=\"yes\"?>";
const DOCTYPE: &str = "<!DOCTYPE report PUBLIC \"-//JACOCO//DTD Report 1.1//EN\" \"report.dtd\">";

fn xml_body(rng: &mut Rng, min_len: usize, head: String) -> Vec<u8> {
    let mut s = head;
    s.push_str(&format!("<report name=\"r{}\"><sessioninfo id=\"h-{:x}\" start=\"1\" dump=\"2\"/>", rng.below(100000), rng.next()));
    while s.len() < min_len {
        s.push_str(&format!("<package name=\"org/p{}\"><sourcefile name=\"A.java\"><line nr=\"1\" mi=\"0\" ci=\"1\" mb=\"0\" cb=\"0\"/></sourcefile></package>", rng.below(1000)));
    }
    s.push_str("</report>");
    s.into_bytes()
}

/// a JaCoCo report: the marker inside the first 256 bytes; any length (also < 256), any encoding
fn gen_xml(rng: &mut Rng) -> Vec<u8> {
    match rng.below(9) {
        6 | 7 => gen_xml_short(rng),
        8 => gen_xml_badutf8(rng),
        0 => {
            // marker ends exactly at byte 256
            let pad = 256 - (XML_DECL.len() + "<!---->".len() + "<!DOCTYPE report PUBLIC \"".len() + MARKER.len());
            let b = xml_body(rng, 300, format!("{}<!--{}-->{}", XML_DECL, "x".repeat(pad), DOCTYPE));
            assert!(b[..256].ends_with(MARKER));
            b
        }
        1 => {
            // exactly 256 bytes long
            let mut b = format!("{}{}<report name=\"n{}\">", XML_DECL, DOCTYPE, rng.below(1000)).into_bytes();
            while b.len() < 256 - 9 {
                b.push(b' ');
            }
            b.extend_from_slice(b"</report>");
            assert_eq!(b.len(), 256);
            b
        }
        2 => {
            // non-ASCII text inside the prefix, not cut by the boundary
            xml_body(rng, 400, format!("{}{}<!--é日本-->", XML_DECL, DOCTYPE))
        }
        3 => {
            // a 2-byte character ending exactly at byte 256
            let head = format!("{}{}<!--", XML_DECL, DOCTYPE);
            let pad = 254 - head.len();
            let b = xml_body(rng, 400, format!("{}{}é-->", head, "y".repeat(pad)));
            assert!(std::str::from_utf8(&b[..256]).is_ok());
            b
        }
        _ => {
            let n = 257 + rng.below(300) as usize;
            xml_body(rng, n, format!("{}{}", XML_DECL, DOCTYPE))
        }
    }
}

fn gen_xml_decoy(rng: &mut Rng) -> Vec<u8> {
    match rng.below(6) {
        0 => format!("<?xml version=\"1.0\"?><coverage n=\"{}\">{}</coverage>", rng.below(1000), "<class/>".repeat(40)).into_bytes(),
        1 => format!("<a n=\"{}\"/>", rng.below(1000)).into_bytes(), // short, no marker
        2 => {
            // the marker only after byte 256
            xml_body(rng, 600, format!("{}<!--{}-->{}", XML_DECL, "z".repeat(260), DOCTYPE))
        }
        3 => {
            // the marker straddles byte 256
            let cut = 1 + rng.below(MARKER.len() as u64 - 1) as usize; // bytes of the marker before the boundary
            let pad = 256 - cut - (XML_DECL.len() + "<!---->".len() + "<!DOCTYPE report PUBLIC \"".len());
            let b = xml_body(rng, 400, format!("{}<!--{}-->{}", XML_DECL, "w".repeat(pad), DOCTYPE));
            assert!(!b[..256].windows(MARKER.len()).any(|w| w == MARKER));
            b
        }
        4 => vec![],
        _ => format!("{}{}", "-//JACOCO//DT ".repeat(30), rng.below(1000)).into_bytes(), // near-marker
    }
}

fn gen_xml_short(rng: &mut Rng) -> Vec<u8> {
    let b = match rng.below(3) {
        0 => format!("{}{}<report name=\"s{}\"/>", XML_DECL, DOCTYPE, rng.below(1000)).into_bytes(),
        1 => {
            // 255 bytes
            let mut b = format!("{}{}<report name=\"s{}\">", XML_DECL, DOCTYPE, rng.below(1000)).into_bytes();
            while b.len() < 255 - 9 {
                b.push(b' ');
            }
            b.extend_from_slice(b"</report>");
            b
        }
        _ => format!("<?xml version=\"1.0\"?>{}<report name=\"s{}\"><package name=\"p\"/></report>", DOCTYPE, rng.below(1000)).into_bytes(),
    };
    assert!(b.len() < 256);
    b
}

fn gen_xml_badutf8(rng: &mut Rng) -> Vec<u8> {
    let head = format!("{}{}<!--", XML_DECL, DOCTYPE);
    let b = if rng.chance(1, 2) {
        // a 2-byte character whose second byte is byte 257
        let pad = 255 - head.len();
        xml_body(rng, 400, format!("{}{}é-->", head, "y".repeat(pad)))
    } else {
        // a Latin-1 encoded report (one 0xE9 byte in the prefix)
        let mut b = format!("<?xml version=\"1.0\" encoding=\"ISO-8859-1\"?>{}<report name=\"caf", DOCTYPE).into_bytes();
        b.push(0xE9);
        b.extend_from_slice(&xml_body(rng, 300, "\">".to_string()));
        b
    };
    assert!(b.len() >= 256 && std::str::from_utf8(&b[..256]).is_err() && b[..256].windows(MARKER.len()).any(|w| w == MARKER));
    b
}

/// `0/…`, `1/…`: directories named like a consumer's working directory (review item 1, fix 232bfd3);
/// `hello.c`, `util.c` / `util.cc`: object files named `<source>.<ext>.o` (CMake) – a dot inside the
/// stem's file name, and sibling stems that agree up to that dot
const STEMS: &[&str] = &[
    "a", "b", "main", "sub/a", "sub/deep/c", "x.y", "d_1/e", "lib/foo-bar", "a_1", "sub/main", ".libs/a", "sub/.libs/hid", "lib/.h",
    "0/a", "1/b", "0/x.c", "hello.c", "lib/util.c", "lib/util.cc", "sub/hello.c",
];
const DIRS: &[&str] = &["", "", "sub/", "sub/deep/", "rep/", "lib/", ".ci/", "sub/.hidden/"];
/// contents of `.ignore` / `.gitignore` files that would hide artifacts from a walker that honours them
const IGNORE_FILES: &[&str] = &["*.info\n*.xml\n", "*.gcno\n*.gcda\n", "sub/\nlib/\n", "*\n", "r0.info\njacoco*.xml\n/a.gcno\n", "rep/\n*.profraw\nlinked-files-map.json\n"];

struct GenCfg {
    findings: bool, // allow the artifacts the named findings are about
    bad_args: bool, // allow inadmissible plain arguments
}

fn gen_artifacts(rng: &mut Rng, pools: &Pools, llvm_opt: bool, rep: &mut Report) -> Vec<Artifact> {
    let mut arts: Vec<Artifact> = vec![];
    let mut add = |rel: String, content: Vec<u8>, intent: Intent| arts.push(Artifact { rel, content, intent });
    let nothing_usable = rng.chance(1, 10);
    if !nothing_usable {
        // gcno stems with their gcda runs
        let mut stems: Vec<&str> = STEMS.to_vec();
        rng.shuffle(&mut stems);
        let ns = *rng.pick(&[0u64, 0, 1, 1, 2, 3, 4]);
        for s in stems.iter().take(ns as usize) {
            let llvm = rng.chance(1, 3);
            let g = gen_gcno(rng, pools, llvm);
            let copies = if rng.chance(1, 5) { 2 } else { 1 };
            for _ in 0..copies {
                add(format!("{}.gcno", s), g.clone(), Intent::Gcno);
            }
            if rng.chance(1, 12) && !llvm_opt {
                // the same stem also as a gcno of the other family: a second key (under --llvm both would
                // have the same key, which is the inconsistent case of the findings stream)
                add(format!("{}.gcno", s), gen_gcno(rng, pools, !llvm), Intent::Gcno);
            }
            let runs = *rng.pick(&[0u64, 0, 1, 1, 1, 2, 3]);
            for _ in 0..runs {
                add(format!("{}.gcda", s), gen_gcda(rng, pools), Intent::Gcda);
            }
        }
        for _ in 0..*rng.pick(&[0u64, 0, 1, 1, 2, 3]) {
            add(format!("{}r{}.info", rng.pick(DIRS), rng.below(3)), gen_info(rng), Intent::Info);
        }
        for _ in 0..*rng.pick(&[0u64, 0, 0, 1, 1, 2]) {
            add(format!("{}jacoco{}.xml", rng.pick(DIRS), rng.below(3)), gen_xml(rng), Intent::Xml);
        }
        if rng.chance(1, 6) {
            for _ in 0..rng.range(1, 3) {
                let body = if rng.chance(1, 6) { vec![] } else { blob(rng, b"\x81rforpl\xff", 12) };
                add(format!("{}default{}.profraw", rng.pick(DIRS), rng.below(3)), body, Intent::Profraw);
            }
        }
        if rng.chance(1, 10) {
            for _ in 0..rng.range(1, 2) {
                add(format!("{}merged{}.profdata", rng.pick(DIRS), rng.below(2)), blob(rng, b"\xffprofdat", 12), Intent::Profdata);
            }
        }
    } else {
        rep.count("gen.nothing_usable");
    }
    // gcda without gcno
    if rng.chance(1, 4) {
        add(format!("lonely{}.gcda", rng.below(2)), gen_gcda(rng, pools), Intent::Gcda);
    }
    // decoys with coverage extensions
    for _ in 0..*rng.pick(&[0u64, 0, 1, 1, 2]) {
        add(format!("{}fake{}.info", rng.pick(DIRS), rng.below(3)), gen_info_decoy(rng), Intent::Decoy);
    }
    for _ in 0..*rng.pick(&[0u64, 0, 1, 1, 2]) {
        add(format!("{}other{}.xml", rng.pick(DIRS), rng.below(3)), gen_xml_decoy(rng), Intent::Decoy);
    }
    // other files
    for _ in 0..*rng.pick(&[0u64, 0, 1, 2]) {
        let n = rng.below(1000);
        let (rel, content): (String, Vec<u8>) = match rng.below(10) {
            0 => ("notes.txt".into(), format!("TN:{}", n).into_bytes()),
            1 => ("README".into(), format!("SF:{}", n).into_bytes()),
            2 => (format!("{}.info", rng.pick(DIRS)), format!("TN:dotfile{}\n", n).into_bytes()),
            3 => (format!("{}data.json", rng.pick(DIRS)), format!("{{\"n\":{}}}", n).into_bytes()),
            4 => ("x.gcno.bak".into(), blob(rng, b"oncg*204", 8)),
            5 => ("upper.INFO".into(), format!("TN:{}\n", n).into_bytes()),
            6 => ("r.xml.gz".into(), blob(rng, b"\x1f\x8b", 8)),
            7 => ("linked-files-map.json.bak".into(), format!("{{\"k\":{}}}", n).into_bytes()),
            8 => (format!("{}.gcno", rng.pick(DIRS)), blob(rng, b"oncg*204", 8)),
            _ => ("sub/trailingdot.".into(), format!("TN:{}", n).into_bytes()),
        };
        add(rel, content, Intent::Decoy);
    }
    // hidden files with coverage extensions, and ignore files (WalkDir knows neither notion: a directory
    // input must deliver exactly what the same files deliver from a zip)
    if rng.chance(1, 4) && !nothing_usable {
        add(format!("{}.hidden{}.info", rng.pick(DIRS), rng.below(2)), gen_info(rng), Intent::Info);
    }
    if rng.chance(1, 3) {
        let name = *rng.pick(&[".ignore", ".gitignore", ".ignore", ".grcovignore"]);
        add(format!("{}{}", rng.pick(DIRS), name), rng.pick(IGNORE_FILES).as_bytes().to_vec(), Intent::Decoy);
    }
    // linked-files-map.json
    match rng.below(20) {
        0..=5 => add("linked-files-map.json".into(), format!("{{\"a\":\"b{}\"}}", rng.below(1000)).into_bytes(), Intent::Map),
        6 => add("sub/linked-files-map.json".into(), format!("{{\"a\":\"c{}\"}}", rng.below(1000)).into_bytes(), Intent::Map),
        7 => {
            let c = format!("{{\"same\":{}}}", rng.below(1000)).into_bytes();
            add("linked-files-map.json".into(), c.clone(), Intent::Map);
            add(format!("{}linked-files-map.json", rng.pick(DIRS)), c, Intent::Map);
        }
        _ => {}
    }
    rng.shuffle(&mut arts);
    arts
}

#[derive(Clone, Copy, PartialEq)]
enum Style {
    OneDir,
    OneZip,
    Split,
    MaxPlain,
}

fn gen_layout(rng: &mut Rng, arts: &[Artifact], style: Style, cfg: &GenCfg) -> Layout {
    let mut containers: Vec<CType> = vec![];
    let mut members: Vec<BTreeSet<String>> = vec![];
    let ctype = |rng: &mut Rng, style: Style| match style {
        Style::OneDir => CType::Dir,
        Style::OneZip => *rng.pick(&[CType::ZipStored, CType::ZipDeflate]),
        _ => *rng.pick(&[CType::Dir, CType::Dir, CType::ZipStored, CType::ZipDeflate]),
    };
    let want = match style {
        Style::OneDir | Style::OneZip => 1,
        _ => rng.range(1, 4) as usize,
    };
    for _ in 0..want {
        containers.push(ctype(rng, style));
        members.push(BTreeSet::new());
    }
    let mut assign = vec![0i64; arts.len()];
    let mut plains = vec![];
    for (j, a) in arts.iter().enumerate() {
        let p_plain = match style {
            Style::MaxPlain => 1,
            Style::Split => 5,
            _ => 0,
        };
        let bad = cfg.bad_args && rng.chance(1, 6);
        if (plainable(&a.rel) && p_plain > 0 && rng.chance(1, p_plain)) || bad {
            assign[j] = -1;
            plains.push(j);
            continue;
        }
        // a container that does not hold this relative path yet (otherwise a new one)
        let mut free: Vec<usize> = (0..containers.len()).filter(|&c| !members[c].contains(&a.rel)).collect();
        if free.is_empty() {
            containers.push(ctype(rng, style));
            members.push(BTreeSet::new());
            free.push(containers.len() - 1);
        }
        let c = *rng.pick(&free);
        members[c].insert(a.rel.clone());
        assign[j] = c as i64;
    }
    let mut order: Vec<ArgRef> = (0..containers.len()).map(ArgRef::C).chain(plains.into_iter().map(ArgRef::P)).collect();
    rng.shuffle(&mut order);
    Layout {
        containers,
        assign,
        order,
        relative_args: rng.chance(1, 4),
        dir_entries: rng.chance(1, 3),
        zip_seed: rng.next(),
        respell: rng.chance(1, 3),
        specials: rng.chance(1, 3),
    }
}

fn gen_case(rng: &mut Rng, pools: &Pools, cfg: &GenCfg, rep: &mut Report) -> Case {
    let ignore_orphan = rng.chance(1, 2);
    let llvm = rng.chance(1, 3);
    let mut arts = gen_artifacts(rng, pools, llvm, rep);
    if cfg.findings && rng.chance(1, 2) {
        // two linked-files-map.json with different contents (finding C17-two-path-mappings-first-wins);
        // the main stream never has two different ones
        arts.retain(|a| a.intent != Intent::Map);
        arts.push(Artifact { rel: "linked-files-map.json".into(), content: format!("{{\"one\":{}}}", rng.below(1000)).into_bytes(), intent: Intent::Map });
        arts.push(Artifact {
            rel: format!("{}linked-files-map.json", rng.pick(DIRS)),
            content: format!("{{\"two\":{}}}", rng.below(1000)).into_bytes(),
            intent: Intent::Map,
        });
        if !arts.iter().any(|a| matches!(a.intent, Intent::Info | Intent::Xml | Intent::Gcno | Intent::Profraw | Intent::Profdata)) {
            arts.push(art("base.info", b"TN:b\nSF:src/a.c\nDA:1,1\nend_of_record\n", Intent::Info));
        }
    } else if cfg.findings {
        {
            {
                // two different gcno files with the same relative name (+ a gcda so that the choice is visible
                // even when orphans are ignored)
                let s = *rng.pick(STEMS);
                arts.retain(|a| !(a.intent == Intent::Gcno && a.stem() == s));
                let fam = rng.chance(1, 2);
                arts.push(Artifact { rel: format!("{}.gcno", s), content: gen_gcno(rng, pools, fam), intent: Intent::Gcno });
                arts.push(Artifact { rel: format!("{}.gcno", s), content: gen_gcno(rng, pools, fam), intent: Intent::Gcno });
                arts.push(Artifact { rel: format!("{}.gcda", s), content: gen_gcda(rng, pools), intent: Intent::Gcda });
            }
        }
    }
    let styles = [Style::OneDir, Style::OneZip, Style::Split, Style::Split, Style::MaxPlain];
    let sa = *rng.pick(&styles);
    let sb = *rng.pick(&styles);
    let la = gen_layout(rng, &arts, sa, cfg);
    let mut lb = gen_layout(rng, &arts, sb, cfg);
    if rng.chance(1, 8) {
        // B = A with the arguments in another order only
        lb = la.clone();
        rng.shuffle(&mut lb.order);
        lb.order.reverse();
    }
    Case { ignore_orphan, llvm, arts, layouts: vec![la, lb], cli: false, filter: None }
}

// ---------------------------------------------------------------------------------------------
// fixed witnesses (run first on every check)

fn art(rel: &str, content: &[u8], intent: Intent) -> Artifact {
    Artifact { rel: rel.to_string(), content: content.to_vec(), intent }
}
fn simple_layout(containers: Vec<CType>, assign: Vec<i64>, order: Vec<ArgRef>) -> Layout {
    Layout { containers, assign, order, relative_args: false, dir_entries: false, zip_seed: 1, respell: false, specials: false }
}

fn witnesses() -> Vec<(&'static str, Case)> {
    let mut rng = Rng::new(17);
    let short = format!("{}{}<report name=\"x\"/>", XML_DECL, DOCTYPE).into_bytes();
    let info = b"TN:t\nSF:a.c\nDA:1,1\nend_of_record\n";
    let mut v = vec![];
    // corpus (ignored before fix 82d1c8b, must now be USED): a complete JaCoCo report of 150 bytes, alone
    // and beside an .info; a report whose first 256 bytes are not valid UTF-8
    v.push((
        "xml-short-alone",
        Case {
            ignore_orphan: false,
            llvm: false,
            cli: false,
            filter: None,
            arts: vec![art("jacoco.xml", &short, Intent::Xml)],
            layouts: vec![
                simple_layout(vec![CType::Dir], vec![0], vec![ArgRef::C(0)]),
                simple_layout(vec![], vec![-1], vec![ArgRef::P(0)]),
            ],
        },
    ));
    v.push((
        "xml-short-beside-info",
        Case {
            ignore_orphan: false,
            llvm: false,
            cli: true,
            filter: None,
            arts: vec![art("jacoco.xml", &short, Intent::Xml), art("r.info", info, Intent::Info)],
            layouts: vec![
                simple_layout(vec![CType::Dir], vec![0, 0], vec![ArgRef::C(0)]),
                simple_layout(vec![CType::ZipDeflate], vec![0, -1], vec![ArgRef::P(1), ArgRef::C(0)]),
            ],
        },
    ));
    v.push((
        "xml-latin1-prefix",
        Case {
            ignore_orphan: false,
            llvm: false,
            cli: false,
            filter: None,
            arts: vec![art("jacoco.xml", &gen_xml_badutf8(&mut rng), Intent::Xml), art("r.info", info, Intent::Info)],
            layouts: vec![
                simple_layout(vec![CType::Dir], vec![0, 0], vec![ArgRef::C(0)]),
                simple_layout(vec![CType::ZipStored], vec![0, 0], vec![ArgRef::C(0)]),
            ],
        },
    ));
    // two builds' gcno with the same relative name in two archives: the argument order decides
    v.push((
        "gcno-same-stem-two-archives",
        Case {
            ignore_orphan: false,
            llvm: false,
            cli: false,
            filter: None,
            arts: vec![
                art("sub/a.gcno", b"oncg*22B build one", Intent::Gcno),
                art("sub/a.gcno", b"oncg*22B build two", Intent::Gcno),
                art("sub/a.gcda", b"adcg*22B run", Intent::Gcda),
            ],
            layouts: vec![
                simple_layout(vec![CType::ZipStored, CType::Dir], vec![0, 1, 1], vec![ArgRef::C(0), ArgRef::C(1)]),
                simple_layout(vec![CType::ZipStored, CType::Dir], vec![0, 1, 1], vec![ArgRef::C(1), ArgRef::C(0)]),
            ],
        },
    ));
    // two archives, each with its own linked-files-map.json (same entry name): the LAST argument's is used
    // (= C17_packaging_invariant_mapping_false of Props/C17.lean)
    v.push((
        "two-path-mappings-two-archives",
        Case {
            ignore_orphan: false,
            llvm: false,
            cli: false,
            filter: None,
            arts: vec![
                art("r.info", info, Intent::Info),
                art("linked-files-map.json", b"{\"a\":\"one\"}", Intent::Map),
                art("linked-files-map.json", b"{\"a\":\"two\"}", Intent::Map),
            ],
            layouts: vec![
                simple_layout(vec![CType::ZipStored, CType::ZipStored], vec![0, 0, 1], vec![ArgRef::C(0), ArgRef::C(1)]),
                simple_layout(vec![CType::ZipStored, CType::ZipStored], vec![0, 0, 1], vec![ArgRef::C(1), ArgRef::C(0)]),
            ],
        },
    ));
    // hidden directories / files and an .ignore file inside a directory input: a directory delivers what a zip
    // of the same files delivers
    v.push((
        "hidden-dirs-and-ignore-file",
        Case {
            ignore_orphan: false,
            llvm: false,
            cli: false,
            filter: None,
            arts: vec![
                art(".libs/a.gcno", b"oncg*22B hidden notes", Intent::Gcno),
                art(".libs/a.gcda", b"adcg*22B hidden run", Intent::Gcda),
                art(".ci/e2e.info", info, Intent::Info),
                art("vis.info", b"TN:v\nSF:v.c\nDA:1,2\nend_of_record\n", Intent::Info),
                art(".ignore", b"*.info\n*.gcno\n.libs/\n", Intent::Decoy),
                art(".gitignore", b"*\n", Intent::Decoy),
                art("sub/.hidden.info", b"SF:h.c\nDA:3,1\nend_of_record\n", Intent::Info),
            ],
            layouts: vec![
                simple_layout(vec![CType::Dir], vec![0, 0, 0, 0, 0, 0, 0], vec![ArgRef::C(0)]),
                simple_layout(vec![CType::ZipDeflate], vec![0, 0, 0, 0, 0, 0, 0], vec![ArgRef::C(0)]),
            ],
        },
    ));
    // documented behaviour, no finding: the tests' layout (gcno.zip + two gcda zips), LLVM and GCC gcno
    v.push((
        "gcno-zip-plus-two-gcda-zips",
        Case {
            ignore_orphan: true,
            llvm: false,
            cli: false,
            filter: None,
            arts: vec![
                art("lib/m.gcno", b"oncg*204 llvm notes", Intent::Gcno),
                art("lib/n.gcno", b"oncg*22B gcc notes", Intent::Gcno),
                art("lib/m.gcda", b"adcg run1 m", Intent::Gcda),
                art("lib/m.gcda", b"adcg run2 m", Intent::Gcda),
                art("lib/n.gcda", b"adcg run1 n", Intent::Gcda),
                art("lib/n.gcda", b"adcg run2 n", Intent::Gcda),
                art("lib/orphan.gcno", b"oncg*22B orphan", Intent::Gcno),
                art("linked-files-map.json", b"{}", Intent::Map),
            ],
            layouts: vec![
                simple_layout(
                    vec![CType::ZipDeflate, CType::ZipDeflate, CType::ZipDeflate],
                    vec![0, 0, 1, 2, 1, 2, 0, 0],
                    vec![ArgRef::C(0), ArgRef::C(1), ArgRef::C(2)],
                ),
                simple_layout(
                    vec![CType::Dir, CType::Dir],
                    vec![0, 1, 0, 1, 1, 0, 1, 1],
                    vec![ArgRef::C(1), ArgRef::C(0)],
                ),
            ],
        },
    ));
    v
}


// ---------------------------------------------------------------------------------------------
// classification of the command-line arguments (producer.rs 497-533) against `Producer.classifyArg`

#[derive(Clone, Copy, PartialEq, Debug)]
enum FsKind {
    Dir,     // a directory holding `in.info`
    ZipFile, // a zip file holding `in.info`
    Info,    // a regular file with lcov content
}

const ARG_NAMES: &[&str] = &[
    "x.zip", "x.ZIP", "x.Zip", "x.jar", "x.info", "x.INFO", "x.xml", "x.json", "x.profraw", "x.profdata", "x.txt",
    "README", ".info", ".zip", "d", "d.zip", "d.info", "a.zip.bak", "x.zip.info", "x.info.zip", "linked-files-map.json",
    // ending in `zip` without the dot (mutant R31: `".zip"` -> `"zip"`)
    "zip", "unzip", "nightly-unzip", "azip", "x.zipp", "x.gzip", "x.infozip",
];

/// what the argument must lead to, given the model's class and what is really there
fn argclass_expected(class: &str, kind: FsKind, name: &str, content: &[u8], inner: &[u8]) -> String {
    let c_item = |bytes: &[u8], who: &str| format!("ok C:info:{}:{}", fnv64(bytes), who);
    match class {
        "zip" => {
            if kind == FsKind::ZipFile {
                c_item(inner, "a0")
            } else {
                "panic zip".to_string()
            }
        }
        "dir" => c_item(inner, "a0"),
        "plain" => match ext_of(name) {
            Some("info") => {
                if content.len() >= 3 && (&content[..3] == b"TN:" || &content[..3] == b"SF:") {
                    c_item(content, "plain")
                } else {
                    "panic no-input".to_string()
                }
            }
            Some(e @ ("profraw" | "profdata")) => format!("ok P:{}:{}:m0:ext", e, fnv64(content)),
            _ => "panic no-input".to_string(),
        },
        other => other.to_string(),
    }
}

fn argclass_stream(rep: &mut Report) {
    let inner: &[u8] = b"TN:inner\nSF:in.c\nDA:1,1\nend_of_record\n";
    let plain: &[u8] = b"TN:plain\nSF:pl.c\nDA:2,1\nend_of_record\n";
    let zip_bytes = {
        let mut w = zip::ZipWriter::new(std::io::Cursor::new(Vec::new()));
        w.start_file("in.info", zip::write::SimpleFileOptions::default().compression_method(zip::CompressionMethod::Stored)).unwrap();
        w.write_all(inner).unwrap();
        w.finish().unwrap().into_inner()
    };
    let cwd = std::env::current_dir().unwrap();
    let root = rep.workdir.join("argclass");
    let _ = std::fs::remove_dir_all(&root);
    let mut reqs = vec![];
    let mut obs = vec![];
    let mut meta = vec![];
    let mut idx = 0;
    for name in ARG_NAMES {
        for kind in [FsKind::Dir, FsKind::ZipFile, FsKind::Info] {
            for variant in 0..3 {
                // 0 absolute, 1 relative to the current directory, 2 absolute with a trailing slash (directories)
                if variant == 2 && kind != FsKind::Dir {
                    continue;
                }
                let dir = root.join(format!("k{}", idx));
                idx += 1;
                let p = dir.join(name);
                let content: Vec<u8> = match kind {
                    FsKind::Dir => {
                        write_file(&p.join("in.info"), inner);
                        vec![]
                    }
                    FsKind::ZipFile => {
                        write_file(&p, &zip_bytes);
                        zip_bytes.clone()
                    }
                    FsKind::Info => {
                        write_file(&p, plain);
                        plain.to_vec()
                    }
                };
                let abs = p.to_str().unwrap().to_string();
                let arg = match variant {
                    0 => abs.clone(),
                    1 => match p.strip_prefix(&cwd) {
                        Ok(r) => r.to_str().unwrap().to_string(),
                        Err(_) => abs.clone(),
                    },
                    _ => format!("{}/", abs),
                };
                let full = if variant == 2 { arg.clone() } else { abs.clone() };
                let tmp = tempfile::tempdir_in(&dir).unwrap();
                let tmp_path = tmp.path().to_path_buf();
                let (sender, receiver) = unbounded();
                let paths = vec![arg.clone()];
                let paths2 = paths.clone();
                let res = guarded(move || {
                    let m = producer(&tmp_path, &paths2, &sender, false, false);
                    drop(sender);
                    m
                });
                let mut items: Vec<String> = vec![];
                while let Ok(x) = receiver.try_recv() {
                    if let Some(it) = x {
                        let (o, n) = canon_item(&it, &paths);
                        items.push(format!("{}:{}", o, n));
                    }
                }
                items.sort();
                let out = match res {
                    Ok(_) => format!("ok {}", items.join("|")),
                    Err(msg) => {
                        if msg.contains("ZIP file") {
                            "panic zip".to_string()
                        } else if msg.contains("it isn't a directory") {
                            "panic no-ext".to_string()
                        } else if msg.contains("Cannot load file") {
                            "panic bad-ext".to_string()
                        } else if msg.contains("No input files found") {
                            "panic no-input".to_string()
                        } else {
                            format!("panic other {}", msg)
                        }
                    }
                };
                reqs.push(format!(
                    "c17.argclass x{} x{} {}",
                    hex(arg.as_bytes()),
                    hex(full.as_bytes()),
                    if kind == FsKind::Dir { 1 } else { 0 }
                ));
                obs.push(out);
                meta.push((name.to_string(), kind, variant, content));
            }
        }
    }
    let answers = run_model_named("gm_c17", &reqs, &rep.workdir, "argclass");
    for k in 0..reqs.len() {
        let (name, kind, variant, content) = &meta[k];
        let want = argclass_expected(&answers[k], *kind, name, content, inner);
        rep.case(&format!("argclass {} {:?} {}", name, kind, variant), true);
        rep.count(&format!("argclass.model.{}", answers[k].replace(' ', "-")));
        rep.count(&format!("argclass.impl.{}", obs[k].split(' ').take(2).collect::<Vec<_>>().join("-").split(':').next().unwrap()));
        if k == 3 {
            rep.sample(json!({"request": reqs[k], "model": answers[k], "impl": obs[k]}));
        }
        if want != obs[k] {
            rep.disagreements_checked += 1;
            rep.fail(
                "disagreement",
                None,
                format!(
                    "argument {:?} ({:?}, variant {}): producer() gives [{}], Producer.classifyArg says {} which means [{}] (C17_arg_classification no longer transfers)",
                    name, kind, variant, obs[k], answers[k], want
                ),
                json!({"op": "argclass", "name": name, "kind": format!("{:?}", kind), "variant": variant}),
            );
        }
    }
    let _ = std::fs::remove_dir_all(&root);
}

// ---------------------------------------------------------------------------------------------

pub fn run(rep: &mut Report) {
    rep.rule = "an artifact multiset (0-4 gcno stems x 0-3 gcda runs each, LLVM-stamped and GCC gcno incl. real ones from \
                /repo/test, duplicate identical gcno, gcda without gcno, .info valid/decoy, JaCoCo .xml incl. marker ending at \
                byte 256 / exactly 256 bytes / shorter than 256 bytes / non-UTF-8 prefix and decoys (no marker, marker after or across byte 256, empty), \
                profraw/profdata, linked-files-map.json x0-2 (two DIFFERENT ones only in the findings stream), files with other or no extension, dotfiles, \
                artifacts inside hidden directories (.libs/, .ci/, sub/.hidden/) and hidden files with coverage extensions, .ignore/.gitignore files whose \
                patterns name artifacts) laid out twice: one \
                dir | one zip | split over 1-4+ dirs and stored/deflated zips (nested subdirs, optional zip directory entries) | \
                plain-file arguments where admissible, shuffled argument order, relative or absolute arguments, \
                ignore_orphan_gcno and is_llvm random; plus a small stream with the one named finding's artifacts (different gcno, same name) and one with \
                inadmissible plain arguments; argclass: 21 argument names (x.zip, x.ZIP, x.jar, x.info, README, .info, d.zip, …) x {directory, zip file, \
                lcov file} x {absolute, relative, trailing slash} through producer() against Producer.classifyArg; non-trivial = at least one usable artifact and two different layouts; \
                distinct = distinct (options, both abstract layouts)"
        .to_string();
    let pools = load_pools();
    rep.notes.push(format!(
        "real gcno/gcda copied from /repo/test: {} LLVM-stamped gcno, {} other gcno, {} gcda",
        pools.llvm_gcno.len(),
        pools.gcc_gcno.len(),
        pools.gcda.len()
    ));
    let mut pend: Vec<Pending> = vec![];
    let mut idx = 0u64;
    for (name, case) in witnesses() {
        rep.count(&format!("witness.{}", name));
        process(rep, &mut pend, case, idx, "witness");
        idx += 1;
    }
    let mut rng = Rng::new(rep.seed ^ 0xC17);
    let n = rep.budget(1200, 12);
    let main_cfg = GenCfg { findings: false, bad_args: false };
    for _ in 0..n {
        let case = gen_case(&mut rng, &pools, &main_cfg, rep);
        for (j, a) in case.arts.iter().enumerate() {
            rep.count(&format!("artifact.{}", intent_name(a.intent)));
            let hidden = a.rel.split('/').any(|c| c.starts_with('.'));
            let ignore_file = matches!(a.rel.rsplit('/').next().unwrap(), ".ignore" | ".gitignore" | ".grcovignore");
            for l in &case.layouts {
                let in_dir = l.assign[j] >= 0 && l.containers[l.assign[j] as usize] == CType::Dir;
                if hidden && !ignore_file && a.intent != Intent::Decoy {
                    rep.count(if in_dir { "hidden.artifact_in_dir_input" } else { "hidden.artifact_in_zip_or_plain" });
                }
                if ignore_file {
                    rep.count(if in_dir { "ignorefile.in_dir_input" } else { "ignorefile.in_zip" });
                }
            }
        }
        for l in &case.layouts {
            if l.respell && l.containers.iter().any(|c| *c != CType::Dir) {
                rep.count("layout.respelled_zip_names");
            }
            rep.count(&format!("layout.containers.{}", l.containers.len().min(5)));
            rep.count_n("layout.plain_args", l.order.iter().filter(|r| matches!(r, ArgRef::P(_))).count() as u64);
            for c in &l.containers {
                rep.count(&format!("layout.{:?}", c));
            }
        }
        rep.count(&format!("opts.ignore_orphan={} llvm={}", case.ignore_orphan, case.llvm));
        process(rep, &mut pend, case, idx, "main");
        idx += 1;
    }
    // the named findings' artifacts (each case is expected to fail its oracle with that finding)
    let nf = rep.budget(24, 5);
    let f_cfg = GenCfg { findings: true, bad_args: false };
    for _ in 0..nf {
        let case = gen_case(&mut rng, &pools, &f_cfg, rep);
        process(rep, &mut pend, case, idx, "findings");
        idx += 1;
    }
    // inadmissible plain arguments (tie only)
    let nb = rep.budget(60, 5);
    let b_cfg = GenCfg { findings: false, bad_args: true };
    for _ in 0..nb {
        let case = gen_case(&mut rng, &pools, &b_cfg, rep);
        process(rep, &mut pend, case, idx, "badarg");
        idx += 1;
    }
    // the CLI: reports of both layouts equal the aggregate of the usable inputs
    let nc = rep.budget(30, 6);
    for _ in 0..nc {
        let case = gen_cli_case(&mut rng, &main_cfg);
        rep.count(&format!("cli.filter.{}", match case.filter { Some(true) => "covered", Some(false) => "uncovered", None => "none" }));
        let orphans = case.arts.iter().filter(|a| a.intent == Intent::Gcno && !case.arts.iter().any(|d| d.intent == Intent::Gcda && d.stem() == a.stem())).count();
        rep.count_n("cli.orphan_llvm_gcno", orphans as u64);
        rep.count_n("cli.llvm_gcno_with_gcda", (case.arts.iter().filter(|a| a.intent == Intent::Gcno).count() - orphans) as u64);
        process(rep, &mut pend, case, idx, "cli");
        idx += 1;
    }
    tie(rep, &pend, "c17");
    argclass_stream(rep);
    rawzip::run(rep, &pools);
    overlap::run(rep);
}

pub fn replay(rep: &mut Report, case: &Value) {
    if case["op"].as_str() == Some("argclass") {
        argclass_stream(rep);
        return;
    }
    if case["op"].as_str().map(|o| o.starts_with("rawzip")).unwrap_or(false) {
        return rawzip::replay(rep, case);
    }
    if case["op"].as_str().map(|o| o.starts_with("overlap")).unwrap_or(false) {
        return overlap::replay(rep, case);
    }
    let c = case_from_json(case);
    let mut pend = vec![];
    process(rep, &mut pend, c, 0, "replay");
    tie(rep, &pend, "c17replay");
    for p in &pend {
        for (i, r) in p.runs.iter().enumerate() {
            println!("layout {}: impl {} map {:?}", i, r.impl_out, r.map);
        }
    }
}

fn main() {
    corrlib::run_main("C17", run, replay);
}
