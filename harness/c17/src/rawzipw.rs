//! A minimal zip writer that writes what it is told: any entry name (repeated, respelled, with
//! NUL, trailing slash, longer than NAME_MAX), any unix mode (symlink, directory), stored data.
//! The `zip` crate's writer refuses repeated names; archives in the wild (other tools, hostile
//! uploads) have them. Shared by harness/c17 and harness/c19 (`#[path]`).

pub struct RawEnt {
    pub name: Vec<u8>,
    pub data: Vec<u8>,
    /// unix mode for the external attributes (`0o120777` symlink, `0o40755` directory, …)
    pub mode: Option<u32>,
}

impl RawEnt {
    #[allow(dead_code)]
    pub fn file(name: &str, data: &[u8]) -> RawEnt {
        RawEnt { name: name.as_bytes().to_vec(), data: data.to_vec(), mode: None }
    }
}

fn crc32(data: &[u8]) -> u32 {
    let mut table = [0u32; 256];
    for i in 0..256u32 {
        let mut c = i;
        for _ in 0..8 {
            c = if c & 1 != 0 { 0xEDB8_8320 ^ (c >> 1) } else { c >> 1 };
        }
        table[i as usize] = c;
    }
    let mut crc = 0xFFFF_FFFFu32;
    for b in data {
        crc = table[((crc ^ *b as u32) & 0xFF) as usize] ^ (crc >> 8);
    }
    crc ^ 0xFFFF_FFFF
}

fn u16le(v: &mut Vec<u8>, x: u16) {
    v.extend_from_slice(&x.to_le_bytes());
}
fn u32le(v: &mut Vec<u8>, x: u32) {
    v.extend_from_slice(&x.to_le_bytes());
}

/// the bytes of a zip archive holding exactly these central-directory entries, in this order
/// (method "stored", UTF-8 name flag set)
pub fn write_raw_zip(entries: &[RawEnt]) -> Vec<u8> {
    let mut out: Vec<u8> = vec![];
    let mut central: Vec<u8> = vec![];
    const FLAGS: u16 = 0x0800; // names are UTF-8
    const TIME: u16 = 0;
    const DATE: u16 = (1 << 5) | 1; // 1980-01-01
    for e in entries {
        let crc = crc32(&e.data);
        let off = out.len() as u32;
        u32le(&mut out, 0x0403_4b50);
        u16le(&mut out, 20);
        u16le(&mut out, FLAGS);
        u16le(&mut out, 0);
        u16le(&mut out, TIME);
        u16le(&mut out, DATE);
        u32le(&mut out, crc);
        u32le(&mut out, e.data.len() as u32);
        u32le(&mut out, e.data.len() as u32);
        u16le(&mut out, e.name.len() as u16);
        u16le(&mut out, 0);
        out.extend_from_slice(&e.name);
        out.extend_from_slice(&e.data);

        u32le(&mut central, 0x0201_4b50);
        u16le(&mut central, (3 << 8) | 20); // made by: unix
        u16le(&mut central, 20);
        u16le(&mut central, FLAGS);
        u16le(&mut central, 0);
        u16le(&mut central, TIME);
        u16le(&mut central, DATE);
        u32le(&mut central, crc);
        u32le(&mut central, e.data.len() as u32);
        u32le(&mut central, e.data.len() as u32);
        u16le(&mut central, e.name.len() as u16);
        u16le(&mut central, 0);
        u16le(&mut central, 0);
        u16le(&mut central, 0);
        u16le(&mut central, 0);
        u32le(&mut central, e.mode.unwrap_or(0o100644) << 16);
        u32le(&mut central, off);
        central.extend_from_slice(&e.name);
    }
    let cd_off = out.len() as u32;
    out.extend_from_slice(&central);
    u32le(&mut out, 0x0605_4b50);
    u16le(&mut out, 0);
    u16le(&mut out, 0);
    u16le(&mut out, entries.len() as u16);
    u16le(&mut out, entries.len() as u16);
    u32le(&mut out, central.len() as u32);
    u32le(&mut out, cd_off);
    u16le(&mut out, 0);
    out
}
