//! C17 part `overlap` — the domain restriction of the property made visible (review item 34).
//!
//! (a) overlapping / repeated path arguments (`grcov data data`, `grcov data data/sub`,
//!     `grcov data ./data`, `y.info y.info`): `producer()` explores every argument as an archive of
//!     its own, so a file reachable through k arguments is delivered k times. Oracle: every
//!     physical file (canonical path) under the given paths is used exactly ONCE. Named finding
//!     C17-overlapping-arguments-counted-twice; matcher: two arguments canonicalise to the same
//!     path or to nested paths AND the delivered multiset is exactly "each file once per argument
//!     that reaches it".
//! (b) a directory input with a symlink to a DIRECTORY: `WalkDir` does not follow it, a zip made of
//!     the same tree (`zip -r`, which follows links) holds the files behind it. Oracle (packaging):
//!     directory and zip-of-the-tree deliver the same items. Named finding
//!     C17-linked-subdirectory-not-walked; matcher: the directory holds a symlink to a directory
//!     AND the items missing from the directory run are exactly those of the files behind such
//!     links. Links to FILES (followed), dangling links and link loops (`loop -> .`, `a -> b -> a`)
//!     are in every case and must change nothing.
//! Both runs are also sent to the model as the archives the code sees (the model has the same
//! restriction: `C17_repeated_argument_false`, the directory = what `WalkDir` yields).
use super::*;

const F_OVERLAP: &str = "C17-overlapping-arguments-counted-twice";
const F_LINKDIR: &str = "C17-linked-subdirectory-not-walked";

fn info(f: &str, n: u64) -> Vec<u8> {
    format!("TN:\nSF:{}\nDA:1,{}\nend_of_record\n", f, n).into_bytes()
}

fn produce(root: &Path, paths: &[String]) -> (String, Vec<String>) {
    let tmp = tempfile::tempdir_in(root).unwrap();
    let tmp_path = tmp.path().to_path_buf();
    let (sender, receiver) = unbounded();
    let paths2 = paths.to_vec();
    let res = guarded(move || {
        let m = producer(&tmp_path, &paths2, &sender, false, false);
        drop(sender);
        m
    });
    let mut with = vec![];
    let mut without = vec![];
    while let Ok(x) = receiver.try_recv() {
        if let Some(it) = x {
            let (o, n) = canon_item(&it, paths);
            with.push(format!("{}:{}", o, n));
            without.push(o);
        }
    }
    with.sort();
    without.sort();
    match res {
        Ok(_) => (format!("ok {}", with.join("|")), without),
        Err(m) => (format!("panic other {}", m), vec![]),
    }
}

/// files below `dir` as `WalkDir` (no link following) sees them: regular files and links to files
fn walk_files(dir: &Path) -> Vec<(String, Vec<u8>)> {
    let mut out = vec![];
    fn go(root: &Path, d: &Path, out: &mut Vec<(String, Vec<u8>)>) {
        let mut es: Vec<_> = std::fs::read_dir(d).map(|r| r.flatten().collect()).unwrap_or_default();
        es.sort_by_key(|e: &std::fs::DirEntry| e.file_name());
        for e in es {
            let p = e.path();
            let lmd = std::fs::symlink_metadata(&p).unwrap();
            if lmd.is_dir() {
                go(root, &p, out);
            } else if p.is_file() {
                out.push((p.strip_prefix(root).unwrap().to_str().unwrap().to_string(), std::fs::read(&p).unwrap()));
            }
        }
    }
    go(dir, dir, &mut out);
    out
}

/// files below `dir` following links to directories (what `zip -r` packs), loops cut by canonical path
fn follow_files(dir: &Path) -> Vec<(String, Vec<u8>)> {
    let mut out = vec![];
    fn go(rel: String, d: &Path, stack: &mut Vec<PathBuf>, out: &mut Vec<(String, Vec<u8>)>) {
        let canon = match std::fs::canonicalize(d) {
            Ok(c) => c,
            Err(_) => return,
        };
        if stack.contains(&canon) {
            return;
        }
        stack.push(canon);
        let mut es: Vec<_> = std::fs::read_dir(d).map(|r| r.flatten().collect()).unwrap_or_default();
        es.sort_by_key(|e: &std::fs::DirEntry| e.file_name());
        for e in es {
            let p = e.path();
            let name = format!("{}{}", rel, e.file_name().to_str().unwrap());
            if p.is_dir() {
                go(format!("{}/", name), &p, stack, out);
            } else if p.is_file() {
                out.push((name, std::fs::read(&p).unwrap()));
            }
        }
        stack.pop();
    }
    go(String::new(), dir, &mut vec![], &mut out);
    out
}

fn content_items(files: &[(String, Vec<u8>)]) -> Vec<String> {
    let mut v: Vec<String> = files
        .iter()
        .filter(|(n, d)| rawzip::intent_from(n, d) == Intent::Info)
        .map(|(_, d)| format!("C:info:{}", fnv64(d)))
        .collect();
    v.sort();
    v
}

pub fn run(rep: &mut Report) {
    rep.rule.push_str(
        "; part overlap: a directory tree of .info files given through repeated / nested / respelled / plain-file-twice arguments (each file must count once), \
         and directory inputs holding symlinks to directories, to files, dangling links and link loops against the zip of the same tree; non-trivial = always",
    );
    let mut rng = Rng::new(rep.seed ^ 0xC17_0B);
    let mut reqs = vec![];
    let mut impls = vec![];
    let mut cases = vec![];
    let n = rep.budget(8, 3);
    // ---- (a) overlapping arguments
    for c in 0..n {
        let root = rep.workdir.join(format!("overlap{}", c));
        let _ = std::fs::remove_dir_all(&root);
        let data = root.join("data");
        let k1 = rng.range(1, 9);
        let k2 = rng.range(1, 9);
        write_file(&data.join("r.info"), &info("a.c", k1));
        write_file(&data.join("sub/s.info"), &info("a.c", k2));
        write_file(&data.join("sub/deeper/t.info"), &info("b.c", k1 + k2));
        let d = data.to_str().unwrap().to_string();
        let variant = c % 5;
        let paths: Vec<String> = match variant {
            0 => vec![d.clone(), d.clone()],
            1 => vec![d.clone(), format!("{}/sub", d)],
            2 => vec![d.clone(), format!("{}/./sub/../../data", d)],
            3 => vec![format!("{}/r.info", d), format!("{}/r.info", d)],
            _ => vec![d.clone()], // control: no overlap
        };
        let (impl_out, got) = produce(&root, &paths);
        // the files under the given paths, each once (by canonical path)
        let mut phys: BTreeMap<PathBuf, Vec<u8>> = BTreeMap::new();
        let mut reach: BTreeMap<PathBuf, usize> = BTreeMap::new();
        for p in &paths {
            let pp = Path::new(p);
            let fs: Vec<PathBuf> = if pp.is_dir() { walk_files(pp).into_iter().map(|(n, _)| pp.join(n)).collect() } else { vec![pp.to_path_buf()] };
            for f in fs {
                let c = std::fs::canonicalize(&f).unwrap();
                phys.insert(c.clone(), std::fs::read(&f).unwrap());
                *reach.entry(c).or_default() += 1;
            }
        }
        let mut once: Vec<String> = phys.values().map(|d| format!("C:info:{}", fnv64(d))).collect();
        once.sort();
        let mut per_reach: Vec<String> = vec![];
        for (p, d) in &phys {
            for _ in 0..reach[p] {
                per_reach.push(format!("C:info:{}", fnv64(d)));
            }
        }
        per_reach.sort();
        let canon: Vec<PathBuf> = paths.iter().map(|p| std::fs::canonicalize(p).unwrap()).collect();
        let nested = (0..canon.len()).any(|i| (0..canon.len()).any(|j| i != j && canon[j].starts_with(&canon[i])));
        let case = json!({"op": "overlap.args", "variant": variant, "paths": paths.iter().map(|p| p.replace(d.as_str(), "<data>")).collect::<Vec<_>>(), "counts": [k1, k2]});
        rep.case(&format!("overlap.args {} {} {}", variant, k1, k2), true);
        rep.count(&format!("overlap.args.variant{}", variant));
        if got != once {
            let known = nested && got == per_reach;
            rep.fail(
                "oracle",
                if known { Some(F_OVERLAP) } else { None },
                format!(
                    "every file under the given paths must be used once: delivered [{}], the files are [{}]{}",
                    got.join("|"), once.join("|"),
                    if known { " — arguments overlap and producer() explores each as an archive of its own (producer.rs producer(): for path in paths)" } else { "" }
                ),
                case.clone(),
            );
        }
        // the model on what the code sees: one archive per directory argument, plain files together
        let mut toks = vec![];
        for (pos, p) in paths.iter().enumerate() {
            let pp = Path::new(p);
            if pp.is_dir() {
                let fs = walk_files(pp);
                // the archive's name is the argument string: a repeated string is one name
                let pos = paths.iter().position(|q| q == p).unwrap_or(pos);
                toks.push(format!("d{}:{}", pos, fs.iter().map(|(n, d)| file_token(n, d)).collect::<Vec<_>>().join(",")));
            } else {
                toks.push(format!("p:{}", file_token(p, &std::fs::read(pp).unwrap())));
            }
        }
        reqs.push(format!("c17.run 0 0 {}", toks.join(" ")));
        impls.push(impl_out);
        cases.push(case);
        let _ = std::fs::remove_dir_all(&root);
    }
    // ---- (b) links inside a directory input
    for c in 0..n {
        let root = rep.workdir.join(format!("linkdir{}", c));
        let _ = std::fs::remove_dir_all(&root);
        let ind = root.join("in");
        let k = rng.range(1, 9);
        write_file(&ind.join("b.info"), &info("b.c", k));
        write_file(&root.join("elsewhere/a.info"), &info("a.c", k + 1));
        write_file(&root.join("elsewhere/deep/c.info"), &info("c.c", k + 2));
        write_file(&root.join("target.info"), &info("t.c", k + 3));
        let with_dirlink = c % 3 != 2;
        if with_dirlink {
            std::os::unix::fs::symlink("../elsewhere", ind.join("sub")).unwrap();
        }
        std::os::unix::fs::symlink("../target.info", ind.join("link.info")).unwrap();
        std::os::unix::fs::symlink("nowhere.info", ind.join("dangling.info")).unwrap();
        std::os::unix::fs::symlink(".", ind.join("loop")).unwrap();
        std::os::unix::fs::symlink("l2.info", ind.join("l1.info")).unwrap();
        std::os::unix::fs::symlink("l1.info", ind.join("l2.info")).unwrap();
        let seen = walk_files(&ind);
        let tree = follow_files(&ind);
        let (impl_out, got) = produce(&root, &[ind.to_str().unwrap().to_string()]);
        // the zip of the tree, links followed
        let zpath = root.join("tree.zip");
        {
            let mut w = zip::ZipWriter::new(std::io::Cursor::new(Vec::new()));
            let o = zip::write::SimpleFileOptions::default().compression_method(zip::CompressionMethod::Stored);
            for (nme, d) in &tree {
                w.start_file(nme.as_str(), o).unwrap();
                w.write_all(d).unwrap();
            }
            std::fs::write(&zpath, w.finish().unwrap().into_inner()).unwrap();
        }
        let (_, got_zip) = produce(&root, &[zpath.to_str().unwrap().to_string()]);
        let case = json!({"op": "overlap.links", "dir_link": with_dirlink, "walked": seen.iter().map(|x| x.0.clone()).collect::<Vec<_>>(), "tree": tree.iter().map(|x| x.0.clone()).collect::<Vec<_>>()});
        rep.case(&format!("overlap.links {} {}", with_dirlink, k), true);
        rep.count(if with_dirlink { "overlap.links.with_directory_link" } else { "overlap.links.file_links_and_loops_only" });
        if got != got_zip {
            let behind: Vec<(String, Vec<u8>)> = tree.iter().filter(|(nme, _)| !seen.iter().any(|(m, _)| m == nme)).cloned().collect();
            let mut want = got.clone();
            want.extend(content_items(&behind));
            want.sort();
            let known = with_dirlink && want == got_zip;
            rep.fail(
                "oracle",
                if known { Some(F_LINKDIR) } else { None },
                format!(
                    "packaging: the directory delivers [{}], the zip of the same tree [{}]{}",
                    got.join("|"), got_zip.join("|"),
                    if known { " — the files behind a symlink to a directory are not discovered (producer.rs explore: WalkDir::new(dir) without follow_links)" } else { "" }
                ),
                case.clone(),
            );
        }
        if got != content_items(&seen) {
            rep.fail("oracle", None, format!("directory input: delivered [{}], the files WalkDir reaches are [{}]", got.join("|"), content_items(&seen).join("|")), case.clone());
        }
        reqs.push(format!("c17.run 0 0 d0:{}", seen.iter().map(|(nme, d)| file_token(nme, d)).collect::<Vec<_>>().join(",")));
        impls.push(impl_out);
        cases.push(case);
        let _ = std::fs::remove_dir_all(&root);
    }
    let ans = run_model_named("gm_c17", &reqs, &rep.workdir, "overlap");
    for i in 0..reqs.len() {
        let m = ans[i].split_once(" ; maps=").map(|x| x.0.to_string()).unwrap_or(ans[i].clone());
        if m.trim_end() != impls[i].trim_end() {
            rep.disagreements_checked += 1;
            rep.fail("disagreement", None, format!("overlap: impl [{}] model [{}]", impls[i], m), json!({"op": "overlap.tie", "case": cases[i], "request": reqs[i]}));
        }
    }
}

pub fn replay(rep: &mut Report, _case: &Value) {
    run(rep);
}
