//! The four recorded re-stripping mechanisms of the lcov fixed point, as EXACT matchers, shared by
//! harness/c05 (CLI chains) and harness/c11 (`c11.idem.twice`, included with `#[path]`).
//!
//! A reported path `k`, fed back to a run with the same options, goes through (in the order of the
//! code) `add_results` (CLI only: canonicalised when `source_dir/k` exists), `remove_prefix`, and
//! `guess_abs_path`. It comes out changed exactly when
//! * C05-relative-prefix-restripped: `-p` is relative (non-empty) and a component-wise prefix of `k`;
//! * C05-prefix-behind-dotdot-restripped: `-p` is absolute, `k` is absolute and strictly below it;
//! * C05-abs-prefix-below-source-restripped (CLI only): `-s S`, `-p` absolute and strictly below
//!   `S`, `k` relative, `S/k` exists, and its canonical path is strictly below `-p`;
//! and/or, on the outcome of that step,
//! * C05-source-dir-name-restripped: `-s S`, the path is relative, `S/path` is not a regular file,
//!   and some non-empty leading part of it is a tail of `S` (the longest such part is dropped).
//! The two steps compose (`-p ws`, `ws/<tail of S>/x.c` loses both). Nothing else is matched.
#![allow(dead_code)]
use std::path::{Component, Path};

pub const F_REL_PREFIX: &str = "C05-relative-prefix-restripped";
pub const F_SRC_NAME: &str = "C05-source-dir-name-restripped";
pub const F_DOTDOT: &str = "C05-prefix-behind-dotdot-restripped";
pub const F_ABS_BELOW: &str = "C05-abs-prefix-below-source-restripped";

pub struct RestripCfg<'a> {
    pub sd: Option<&'a str>,
    pub pd: Option<&'a str>,
    pub ignore: &'a [String],
    pub keep: &'a [String],
    pub ine: bool,
    /// the re-import goes through `add_results` (a grcov run), not only through `rewrite_paths`
    pub cli: bool,
}

fn show(p: &Path) -> String {
    let mut out: Vec<String> = vec![];
    let mut root = false;
    for c in p.components() {
        match c {
            Component::RootDir => root = true,
            Component::Normal(n) => out.push(n.to_str().unwrap_or("").to_string()),
            Component::ParentDir => out.push("..".into()),
            _ => {}
        }
    }
    format!("{}{}", if root { "/" } else { "" }, out.join("/"))
}

/// `strip_prefix`, non-empty remainder only
fn strip(k: &Path, pre: &Path) -> Option<String> {
    let t = k.strip_prefix(pre).ok()?;
    if t.as_os_str().is_empty() || t == k {
        None
    } else {
        Some(show(t))
    }
}

/// every way `k` can come out of a re-import changed: (the findings involved, the new path)
pub fn images(k: &str, c: &RestripCfg) -> Vec<(Vec<&'static str>, String)> {
    let kp = Path::new(k);
    // step 1: prefix removal (possibly after the canonicalisation of `add_results`)
    let mut step1: Vec<(Vec<&'static str>, String)> = vec![(vec![], k.to_string())];
    if let Some(pd) = c.pd {
        let pp = Path::new(pd);
        if !pd.is_empty() && pp.is_relative() {
            if let Some(r) = strip(kp, pp) {
                step1.push((vec![F_REL_PREFIX], r));
            }
        } else if pp.is_absolute() && kp.is_absolute() {
            if let Some(r) = strip(kp, pp) {
                step1.push((vec![F_DOTDOT], r));
            }
        }
        if let (true, Some(sd)) = (c.cli, c.sd) {
            let strictly_below = pp.is_absolute() && pp.starts_with(sd) && pp != Path::new(sd);
            if strictly_below && kp.is_relative() {
                if let Ok(canon) = std::fs::canonicalize(Path::new(sd).join(kp)) {
                    if let Some(r) = strip(&canon, pp) {
                        step1.push((vec![F_ABS_BELOW], r));
                    }
                }
            }
        }
    }
    // step 2: guess_abs_path on the outcome
    let mut out = vec![];
    for (ids, p) in step1 {
        if !ids.is_empty() {
            out.push((ids.clone(), p.clone()));
        }
        if let Some(sd) = c.sd {
            let pp = Path::new(&p);
            let s = Path::new(sd);
            if pp.is_relative() && !s.join(pp).is_file() {
                if let Some(a) = pp.ancestors().find(|a| !a.as_os_str().is_empty() && s.ends_with(a)) {
                    let rest = show(pp.strip_prefix(a).unwrap());
                    if rest != p {
                        let mut ids2 = ids.clone();
                        ids2.push(F_SRC_NAME);
                        out.push((ids2, rest));
                    }
                }
            }
        }
    }
    out
}

/// the re-stripped path is withheld by the second run's own `--ignore` / `--keep-only` globs or by
/// `--ignore-not-existing` (it names no file: looked for below the source dir, or as it is)
pub fn dropped(image: &str, c: &RestripCfg) -> bool {
    let set = |gs: &[String]| {
        let mut b = globset::GlobSetBuilder::new();
        for g in gs {
            if let Ok(g) = globset::Glob::new(g) {
                b.add(g);
            }
        }
        b.build().unwrap()
    };
    if !c.ignore.is_empty() && set(c.ignore).is_match(image) {
        return true;
    }
    if !c.keep.is_empty() && !set(c.keep).is_match(image) {
        return true;
    }
    if c.ine {
        let on_disk = match (c.sd, image.starts_with('/')) {
            (Some(s), false) => Path::new(s).join(image).exists(),
            _ => Path::new(image).exists(),
        };
        return !on_disk;
    }
    false
}
