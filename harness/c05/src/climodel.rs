//! Tie of the Lean model of one grcov run (`Cli.runJ`, lean/GrcovModel/Cli.lean: the run WITH the
//! Java/Kotlin partial-path lookup; driver op `cli.runj`) to the real binary: the walk order of the
//! source directory is what `std::fs::read_dir` yields (`walk_order`: what `walkdir` uses when no
//! sorting is configured), never read off the report; the same configuration, the same file system (the case directory
//! scanned and passed as the model's FS parameter) and the same input bytes; the two lcov reports
//! are compared section by section – every section byte for byte (since 73c9152 the FN / FNDA
//! lines of a file come out in name order, which the model computes itself: `Cli.sortFns`; no
//! function order is read off the real report), the sections as a multiset (the result map is a
//! hash map), the whole report byte for byte when it has a single section.
use corrlib::*;
use std::path::Path;

pub struct CliCfg {
    pub branch: bool,
    /// canonical source directory (`-s`), if any
    pub source_dir: Option<String>,
    /// `-p` as given; `main` falls back to the source directory
    pub prefix_dir: Option<String>,
    pub ignore: Vec<String>,
    pub keep: Vec<String>,
    pub ignore_not_existing: bool,
    pub filter: Option<bool>,
}

fn opt_arg(tag: char, o: &Option<String>) -> String {
    match o {
        None => format!("{}-", tag),
        Some(s) => format!("{}+{}", tag, hex(s.as_bytes())),
    }
}
fn list_arg(tag: char, elt: char, xs: &[String]) -> String {
    format!("{}{}", tag, xs.iter().map(|x| format!("{}{}", elt, hex(x.as_bytes()))).collect::<Vec<_>>().join(","))
}

/// every ancestor of `cwd` as a directory, and everything below `cwd`
pub fn scan_fs(cwd: &Path) -> (Vec<String>, Vec<String>) {
    let mut dirs = vec![];
    let mut files = vec![];
    let mut p = cwd.to_path_buf();
    loop {
        let s = p.to_str().unwrap().to_string();
        if s != "/" {
            dirs.push(s);
        }
        if !p.pop() {
            break;
        }
    }
    let mut stack = vec![cwd.to_path_buf()];
    while let Some(d) = stack.pop() {
        if let Ok(rd) = std::fs::read_dir(&d) {
            for e in rd.flatten() {
                let path = e.path();
                let s = path.to_str().unwrap().to_string();
                if path.is_dir() {
                    dirs.push(s);
                    stack.push(path);
                } else {
                    files.push(s);
                }
            }
        }
    }
    (dirs, files)
}

/// the entries below `root` in the order an unsorted walk yields them (pre-order, children in
/// `readdir` order), as absolute paths; symbolic links are listed but not followed
pub fn walk_order(root: &Path, out: &mut Vec<String>) {
    out.push(root.to_str().unwrap().to_string());
    let is_dir = std::fs::symlink_metadata(root).map(|m| m.is_dir()).unwrap_or(false);
    if is_dir {
        if let Ok(rd) = std::fs::read_dir(root) {
            for e in rd.flatten() {
                walk_order(&e.path(), out);
            }
        }
    }
}

pub fn cli_request(cfg: &CliCfg, cwd: &Path, inputs: &[Vec<u8>]) -> String {
    let (dirs, files) = scan_fs(cwd);
    let mut ord = vec![];
    match &cfg.source_dir {
        Some(s) => walk_order(Path::new(s), &mut ord),
        None => ord.push(cwd.to_str().unwrap().to_string()),
    }
    // main.rs: `prefix_dir = opt.prefix_dir.or_else(|| source_root.clone())`
    let pd = cfg.prefix_dir.clone().or_else(|| cfg.source_dir.clone());
    let mut s = format!(
        "cli.runj {} B{} {} {} M- {} {} E{} F{} W{} {} {} |",
        list_arg('O', 'p', &ord),
        if cfg.branch { 1 } else { 0 },
        opt_arg('S', &cfg.source_dir),
        opt_arg('P', &pd),
        list_arg('I', 'g', &cfg.ignore),
        list_arg('K', 'g', &cfg.keep),
        if cfg.ignore_not_existing { 1 } else { 0 },
        match cfg.filter {
            None => "n",
            Some(true) => "t",
            Some(false) => "f",
        },
        hex(cwd.to_str().unwrap().as_bytes()),
        list_arg('D', 'p', &dirs),
        list_arg('X', 'p', &files),
    );
    for i in inputs {
        s.push_str(&format!(" i{}", hex(i)));
    }
    s
}

/// (sections, exact): the sections of an lcov report, each with its lines in the order written,
/// as a sorted multiset; `exact` = at most one section (then the whole report is compared)
pub fn canon_report(text: &str) -> (Vec<String>, bool) {
    let mut secs = vec![];
    let mut cur: Option<Vec<String>> = None;
    for line in text.lines() {
        if line.starts_with("SF:") {
            cur = Some(vec![line.to_string()]);
        } else if line == "end_of_record" {
            if let Some(v) = cur.take() {
                secs.push(v.join("\n"));
            }
        } else if let Some(v) = cur.as_mut() {
            v.push(line.to_string());
        }
    }
    let exact = secs.len() <= 1;
    secs.sort();
    (secs, exact)
}

/// `None` = the model's report equals the real one; `Some(what)` otherwise
pub fn compare(model_answer: &str, real_stdout: &str) -> Option<String> {
    let Some(h) = model_answer.strip_prefix("ok") else {
        return Some(format!("the model answers {:?} but the run wrote a report", &model_answer[..model_answer.len().min(40)]));
    };
    let bytes = unhex(h.trim());
    let model_text = String::from_utf8_lossy(&bytes).to_string();
    let (ms, exact) = canon_report(&model_text);
    let (rs, _) = canon_report(real_stdout);
    if exact && model_text != real_stdout {
        return Some("the reports differ byte for byte (single section)".into());
    }
    if ms != rs {
        return Some("the reports differ as multisets of sections (each section compared line by line, FN/FNDA order included)".into());
    }
    None
}
