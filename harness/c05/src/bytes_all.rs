//! C05 / C03 — the lcov WRITER model `Lcov.printLcov` tied BYTE FOR BYTE to the real `output_lcov`
//! on ALL generated result sets, whatever the number of functions per file.
//!
//! Since 73c9152 `output_lcov` lists the functions of a file in name order (`sorted_functions`:
//! byte-wise `String` order), not in the iteration order of `result.functions` (an `FxHashMap`).
//! The model of the writer is `Cli.outputLcov` = `printLcov` on every record walked as the code
//! walks it (`Cli.sortCov`: lines and branch lines ascending, functions by name, `sortFns`). The
//! harness sends the functions in the order ITS OWN map object iterates them – an order that has
//! nothing to do with the names and is never read off the written report – (`c05.output_lcov`,
//! driver `gmodel`). Nothing else is passed: paths, lines, branches, counts and names are the
//! generated data. An independent oracle checks that the FN and the FNDA lines of every section
//! are strictly ascending in byte order.
//!
//! Demangling stays an opaque `String -> String`: with `demangle = true` the sets use (a) plain C
//! names, which `symbolic_demangle` leaves unchanged, and (b) a few real mangled names whose
//! demangled text (`DemangleOptions::name_only`) is passed to the model as data (table `MANGLED`).
//!
//! Independent of the model: the written bytes are read by a line scanner (`decode_lcov_report`)
//! and must give back the result set, and every summary line (FNF/FNH/BRF/BRH/LF/LH) must equal the
//! count of the FN / FNDA≠0 / BRDA / BRDA-taken / DA / DA>0 records listed in its section.
use corrlib::gen::*;
use corrlib::pipe::{decode_lcov_report, show_map};
use corrlib::*;
use grcov::{output_lcov, CovResult, Function};
use serde_json::{json, Value};
use std::collections::BTreeMap;
use std::path::PathBuf;

pub type RS = Vec<(PathBuf, PathBuf, CovResult)>;

/// names `symbolic_demangle` leaves alone (no `_Z`, `__Z`, `_R`, `?`, `$s`, `_T` prefix)
const PLAIN: &[&str] = &["main", "f", "g", "foo_bar", "x1", "my_func2", "init", "Cls_method", "a", "zz_top", "do_it", "h9"];
/// (mangled, demangled with `DemangleOptions::name_only()`)
const MANGLED: &[(&str, &str)] = &[
    ("_ZN3foo3barEv", "foo::bar"),
    ("_ZN2ns1C1mEi", "ns::C::m"),
    ("_ZN7mycrate3foo17h0123456789abcdefE", "mycrate::foo"),
    ("_RNvCs1234_7mycrate3foo", "mycrate::foo"),
    ("_RNvNtCs1234_7mycrate3bar3baz", "mycrate::bar::baz"),
    ("_Z1fv", "f"),
];

fn more_functions(rng: &mut Rng, rs: &mut RS) {
    for (_, _, c) in rs.iter_mut() {
        if rng.chance(1, 2) {
            for _ in 0..rng.below(12) {
                let name = match rng.below(3) {
                    0 => format!("fn_{}", rng.below(40)),
                    1 => format!("{}{}", rng.pick(FNS), rng.below(5)),
                    _ => rng.pick(FNS).to_string(),
                };
                c.functions.insert(name, Function { start: rng.range(1, 60) as u32, executed: rng.chance(1, 2) });
            }
        }
    }
}

/// `K<hex>=<cov>` with the functions in the order the map iterates them; `rename` maps a name to
/// the text the writer is expected to print
fn entry(rel: &str, c: &CovResult, rename: &dyn Fn(&str) -> String) -> String {
    let ls = c.lines.iter().map(|(l, n)| format!("{}:{}", l, n)).collect::<Vec<_>>().join(",");
    let bs = c.branches.iter().map(|(l, v)| format!("{}:{}", l, bits(v))).collect::<Vec<_>>().join(",");
    let fs = c.functions.iter().map(|(n, f)| format!("{}:{}:{}", hex(rename(n).as_bytes()), f.start, if f.executed { 1 } else { 0 })).collect::<Vec<_>>().join(",");
    format!("K{}=L{};B{};F{}", hex(rel.as_bytes()), ls, bs, fs)
}

pub fn request(rs: &RS, rename: &dyn Fn(&str) -> String) -> String {
    let mut r = String::from("c05.output_lcov");
    for (_, rel, c) in rs {
        r.push(' ');
        r.push_str(&entry(rel.to_str().unwrap(), c, rename));
    }
    r
}

fn shown(rs: &RS) -> String {
    let v: Vec<(String, CovResult)> = rs.iter().map(|r| (r.1.to_str().unwrap().to_string(), r.2.clone())).collect();
    show_results_ordered(&v)
}

fn parse_shown(s: &str) -> RS {
    s.split(' ')
        .filter(|e| e.starts_with('K'))
        .map(|e| {
            let (k, c) = e[1..].split_once('=').unwrap();
            let p = String::from_utf8_lossy(&unhex(k)).to_string();
            (PathBuf::from("/src_root").join(&p), PathBuf::from(&p), parse_cov(c))
        })
        .collect()
}

/// every summary line equals the count of the records listed before it in its section
fn summary_oracle(text: &str) -> Result<(), String> {
    let (mut fn_, mut fnh, mut brda, mut brh, mut da, mut dah) = (0u64, 0u64, 0u64, 0u64, 0u64, 0u64);
    let mut seen_fnf = false;
    for line in text.lines() {
        let num = |s: &str| s.parse::<u64>().map_err(|_| format!("not a number in {:?}", line));
        if line.starts_with("SF:") {
            (fn_, fnh, brda, brh, da, dah) = (0, 0, 0, 0, 0, 0);
            seen_fnf = false;
        } else if line.starts_with("FN:") {
            fn_ += 1;
        } else if let Some(r) = line.strip_prefix("FNDA:") {
            if r.split(',').next() != Some("0") {
                fnh += 1;
            }
        } else if let Some(r) = line.strip_prefix("BRDA:") {
            brda += 1;
            if !r.ends_with(",-") && !r.ends_with(",0") {
                brh += 1;
            }
        } else if let Some(r) = line.strip_prefix("DA:") {
            da += 1;
            if r.split(',').nth(1) != Some("0") {
                dah += 1;
            }
        } else if let Some(r) = line.strip_prefix("FNF:") {
            seen_fnf = true;
            if num(r)? != fn_ {
                return Err(format!("FNF:{} but {} FN records", r, fn_));
            }
        } else if let Some(r) = line.strip_prefix("FNH:") {
            if num(r)? != fnh {
                return Err(format!("FNH:{} but {} FNDA records with a count", r, fnh));
            }
        } else if let Some(r) = line.strip_prefix("BRF:") {
            if num(r)? != brda {
                return Err(format!("BRF:{} but {} BRDA records", r, brda));
            }
        } else if let Some(r) = line.strip_prefix("BRH:") {
            if num(r)? != brh {
                return Err(format!("BRH:{} but {} taken BRDA records", r, brh));
            }
        } else if let Some(r) = line.strip_prefix("LF:") {
            if num(r)? != da {
                return Err(format!("LF:{} but {} DA records", r, da));
            }
        } else if let Some(r) = line.strip_prefix("LH:") {
            if num(r)? != dah {
                return Err(format!("LH:{} but {} DA records with a count", r, dah));
            }
        } else if line == "end_of_record" && fn_ > 0 && !seen_fnf {
            return Err("functions listed without FNF/FNH".into());
        }
    }
    Ok(())
}

/// fix 73c9152: inside a section the FN lines, and the FNDA lines, are listed by function name,
/// strictly ascending in byte order (names of one file are distinct)
fn fn_order_oracle(bytes: &[u8]) -> Result<(), String> {
    let mut last_fn: Option<Vec<u8>> = None;
    let mut last_fnda: Option<Vec<u8>> = None;
    for line in bytes.split(|b| *b == b'\n') {
        if line.starts_with(b"SF:") {
            last_fn = None;
            last_fnda = None;
        }
        for (tag, last) in [(&b"FN:"[..], &mut last_fn), (&b"FNDA:"[..], &mut last_fnda)] {
            if line.starts_with(tag) {
                let rest = &line[tag.len()..];
                let name = match rest.iter().position(|b| *b == b',') {
                    Some(i) => rest[i + 1..].to_vec(),
                    None => return Err(format!("no comma in {:?}", String::from_utf8_lossy(line))),
                };
                if let Some(prev) = last.as_ref() {
                    if *prev >= name {
                        return Err(format!("{} of {:?} listed after {:?}", String::from_utf8_lossy(&tag[..tag.len() - 1]),
                            String::from_utf8_lossy(&name), String::from_utf8_lossy(prev)));
                    }
                }
                *last = Some(name);
            }
        }
    }
    Ok(())
}

struct Case {
    rs: RS,
    demangle: bool,
    bytes: Vec<u8>,
    request: String,
}

fn rename_for(demangle: bool) -> impl Fn(&str) -> String {
    move |n: &str| {
        if demangle {
            MANGLED.iter().find(|m| m.0 == n).map(|m| m.1.to_string()).unwrap_or_else(|| n.to_string())
        } else {
            n.to_string()
        }
    }
}

fn make_case(rep: &mut Report, rs: RS, demangle: bool) -> Option<Case> {
    let p = rep.workdir.join("bytes_all.info");
    let _ = std::fs::remove_file(&p);
    match guarded(|| output_lcov(&rs, Some(&p), demangle)) {
        Err(e) => {
            rep.fail("oracle", None, format!("bytes_all: output_lcov panicked: {}", e), json!({"op": "c05.bytes_all", "demangle": demangle, "results": shown(&rs)}));
            None
        }
        Ok(()) => {
            let bytes = std::fs::read(&p).unwrap_or_default();
            // demangling on: the functions go to the model under their table (mangled) names, with
            // the demangler as a table; the model sorts by table name and prints the demangled one
            let request = if demangle {
                let tab = MANGLED.iter().map(|m| format!("{}={}", hex(m.0.as_bytes()), hex(m.1.as_bytes()))).collect::<Vec<_>>().join(",");
                request(&rs, &|n: &str| n.to_string()).replacen("c05.output_lcov", &format!("c05.output_lcov_dm T{} |", tab), 1)
            } else {
                request(&rs, &rename_for(false))
            };
            Some(Case { rs, demangle, bytes, request })
        }
    }
}

fn oracle(rep: &mut Report, c: &Case) {
    let case = json!({"op": "c05.bytes_all", "demangle": c.demangle, "results": shown(&c.rs)});
    let text = match String::from_utf8(c.bytes.clone()) {
        Ok(t) => t,
        Err(_) => {
            rep.fail("oracle", None, "bytes_all: the report is not UTF-8".into(), case);
            return;
        }
    };
    if !c.demangle {
        // (with demangling on the sort key is the mangled name, the printed one the demangled)
        if let Err(e) = fn_order_oracle(&c.bytes) {
            rep.fail("oracle", None, format!("bytes_all: the functions of a file are not listed in name order: {}", e), case.clone());
        }
    }
    if let Err(e) = summary_oracle(&text) {
        rep.fail("oracle", None, format!("bytes_all: a summary line does not equal the count of the records listed: {}", e), case.clone());
    }
    let rename = rename_for(c.demangle);
    // what an independent reader of the report must find: the data, under the printed names
    // (two mangled names with the same demangled text collapse in any reader: such sets are not
    // generated)
    let want: BTreeMap<String, CovResult> = c
        .rs
        .iter()
        .map(|(_, rel, r)| {
            let mut r2 = r.clone();
            r2.functions = r.functions.iter().map(|(n, f)| (rename(n), f.clone())).collect();
            (rel.to_str().unwrap().to_string(), r2)
        })
        .collect();
    match decode_lcov_report(&text) {
        Err(e) => rep.fail("oracle", None, format!("bytes_all: the report cannot be decoded: {}", e), case),
        Ok(got) => {
            if show_map(&got) != show_map(&want) {
                rep.fail("oracle", None, "bytes_all: decoding the written bytes does not give back the result set (a file, line, count, branch or function added, dropped or altered)".into(), case);
            }
        }
    }
}

fn compare(rep: &mut Report, cases: &[Case], tag: &str) {
    let reqs: Vec<String> = cases.iter().map(|c| c.request.clone()).collect();
    let ans = run_model(&reqs, &rep.workdir, tag);
    for (c, a) in cases.iter().zip(ans.iter()) {
        rep.count(if c.demangle { "bytes_all.tie.demangle_on" } else { "bytes_all.tie.demangle_off" });
        if *a != hex(&c.bytes) {
            rep.disagreements_checked += 1;
            let m = unhex(a);
            let k = m.iter().zip(c.bytes.iter()).take_while(|(x, y)| x == y).count();
            let ctx = |v: &[u8]| String::from_utf8_lossy(&v[k.saturating_sub(30).min(v.len())..(k + 40).min(v.len())]).to_string();
            rep.fail(
                "disagreement",
                None,
                format!("bytes_all: output_lcov and Cli.outputLcov differ at byte {} (impl {:?} / model {:?})", k, ctx(&c.bytes), ctx(&m)),
                json!({"op": "c05.bytes_all", "demangle": c.demangle, "results": shown(&c.rs), "request": c.request}),
            );
        }
    }
}

pub fn run(rep: &mut Report) {
    rep.rule.push_str(
        " | bytes_all: result sets of 0-6 files with up to 16 functions per file, sent to Cli.outputLcov in the order the \
         harness's hash map iterates them (the model sorts by name as sorted_functions does), compared byte for byte with output_lcov (demangle off; demangle on with plain C names \
         and a table of mangled names); non-trivial = some file has two or more functions",
    );
    let t0 = std::time::Instant::now();
    let mut rng = Rng::new(rep.seed ^ 0xC05_B17E5);
    let mut cases = vec![];
    let n = rep.budget(1500, 10);
    for i in 0..n {
        let mut rs = gen_result_set(&mut rng, 6);
        more_functions(&mut rng, &mut rs);
        if !rs.is_empty() && rng.chance(1, 15) {
            let n = *rng.pick(&[255usize, 256, 257, 300]);
            let v: Vec<bool> = (0..n).map(|j| j + 1 == n || rng.chance(1, 3)).collect();
            rs[0].2.branches.insert(rng.range(1, 40) as u32, v);
            rep.count(&format!("bytes_all.wide_branch_line.{}_slots", n));
        }
        let many = rs.iter().any(|r| r.2.functions.len() >= 2);
        rep.case(&format!("bytes_all {}", shown(&rs)), many);
        if many {
            rep.count("bytes_all.set_with_2+_functions_in_a_file");
        }
        rep.count(&format!("bytes_all.max_functions={}", rs.iter().map(|r| r.2.functions.len()).max().unwrap_or(0).min(9)));
        if let Some(c) = make_case(rep, rs, false) {
            oracle(rep, &c);
            if i == 2 {
                rep.sample(json!({"bytes_all.request": c.request, "written": String::from_utf8_lossy(&c.bytes[..c.bytes.len().min(300)])}));
            }
            cases.push(c);
        }
    }
    compare(rep, &cases, "c05bytesall");
    // demangling on
    let mut dcases = vec![];
    for _ in 0..rep.budget(300, 10) {
        let mut rs = gen_result_set(&mut rng, 4);
        for (_, _, c) in rs.iter_mut() {
            c.functions.clear();
            let mut used_demangled = std::collections::BTreeSet::new();
            for _ in 0..rng.below(9) {
                let name = if rng.chance(1, 3) {
                    let m = rng.pick(MANGLED);
                    if !used_demangled.insert(m.1) {
                        continue;
                    }
                    m.0.to_string()
                } else {
                    let p = rng.pick(PLAIN).to_string();
                    if !used_demangled.insert(PLAIN.iter().find(|x| **x == p).unwrap()) {
                        continue;
                    }
                    p
                };
                c.functions.insert(name, Function { start: rng.range(1, 60) as u32, executed: rng.chance(1, 2) });
            }
        }
        let mangled = rs.iter().any(|r| r.2.functions.keys().any(|n| MANGLED.iter().any(|m| m.0 == n)));
        rep.case(&format!("bytes_all demangle {}", shown(&rs)), mangled);
        if mangled {
            rep.count("bytes_all.demangle.set_with_mangled_name");
        }
        if let Some(c) = make_case(rep, rs, true) {
            oracle(rep, &c);
            dcases.push(c);
        }
    }
    compare(rep, &dcases, "c05bytesalldm");
    rep.notes.push(format!("bytes_all: {} + {} reports tied byte for byte, {:.1} s", cases.len(), dcases.len(), t0.elapsed().as_secs_f64()));
}

pub fn replay(rep: &mut Report, case: &Value) {
    let rs = parse_shown(case["results"].as_str().unwrap_or(""));
    let demangle = case["demangle"].as_bool().unwrap_or(false);
    rep.case(&format!("bytes_all {}", shown(&rs)), true);
    if let Some(c) = make_case(rep, rs, demangle) {
        oracle(rep, &c);
        compare(rep, &[c], "c05bytesallreplay");
    }
}
