//! C05 — LCOV fixed point. (a) in-process: parse_lcov(output_lcov(rs)) has the observables of rs,
//! a second export equals the first as a record set, and the Lean byte machine reads the written
//! bytes to the same result; (b) CLI chains r1 → r2 → r3 with filtering and path options
//! (src/chains.rs).
use corrlib::gen::*;
use corrlib::lcov::show_outcome;
use corrlib::pipe::*;
use corrlib::*;
use grcov::{output_lcov, parse_lcov, CovResult};
use serde_json::json;
use std::path::PathBuf;

mod climodel;
mod bytes_all;
mod chains;
mod restrip;

fn write_lcov(rs: &[(PathBuf, PathBuf, CovResult)], path: &std::path::Path) -> Vec<u8> {
    output_lcov(rs, Some(path), false);
    std::fs::read(path).unwrap()
}

pub fn run(rep: &mut Report) {
    rep.rule = "(a) result sets of 0-6 files (counts up to 2^64-1, branch vectors of length 1-5, function names \
                with commas/non-ASCII) written by output_lcov and read back, twice; (b) CLI chains of three \
                export/import rounds over generated inputs whose SF paths are respelled (./, //, backslash, name/../, \
                source-dir name in front, absolute, missing, Java/Kotlin partial paths) with -s, -p relative / absolute \
                below the source dir / equal to it / elsewhere, --ignore, --keep-only, --filter covered|uncovered, \
                --ignore-not-existing, --excl-line/-start/-stop with marker lines on disk, --branch on or off; \
                non-trivial = the set has branches and functions (a) or a path option is used (b); \
                distinct = distinct written bytes / distinct (inputs, options)"
        .to_string();
    let mut rng = Rng::new(rep.seed ^ 0xC05);
    let out_path = rep.workdir.join("out.info");
    let n = rep.budget(2_000, 20);
    let mut reqs = vec![];
    let mut impls = vec![];
    for i in 0..n {
        let mut rs = gen_result_set(&mut rng, 6);
        // wide branch lines (mutation miss N7: a writer that numbers slots modulo 256 exports
        // BRF:300 and re-imports 256 slots): 255 / 256 / 257 / 300 outcomes on one line
        if !rs.is_empty() && rng.chance(1, 12) {
            let n = *rng.pick(&[255usize, 256, 257, 300]);
            let v: Vec<bool> = (0..n).map(|j| j + 1 == n || rng.chance(1, 3)).collect();
            let line = rng.range(1, 40) as u32;
            rs[0].2.branches.insert(line, v);
            rep.count(&format!("roundtrip.wide_branch_line.{}_slots", n));
        }
        let bytes = guarded(|| write_lcov(&rs, &out_path));
        let bytes = match bytes {
            Ok(b) => b,
            Err(p) => {
                rep.fail("oracle", None, format!("output_lcov panicked: {}", p), json!({"op": "roundtrip"}));
                continue;
            }
        };
        let nontrivial = rs.iter().any(|r| !r.2.branches.is_empty() && !r.2.functions.is_empty());
        rep.case(&hex(&bytes), nontrivial);
        let b2 = bytes.clone();
        let parsed = guarded(move || parse_lcov(b2, true));
        let want: Vec<(String, CovResult)> = rs
            .iter()
            .map(|r| (r.1.to_str().unwrap().to_string(), r.2.clone()))
            .collect();
        let got = show_outcome(&parsed);
        let want_s = format!("ok {}", show_results_ordered(&want)).trim_end().to_string();
        let case = json!({"op": "roundtrip", "results": show_results_ordered(&want), "written_hex": hex(&bytes),
                          "written": String::from_utf8_lossy(&bytes)});
        if i == 0 {
            rep.sample(json!({"results": show_results_ordered(&want), "written": String::from_utf8_lossy(&bytes)}));
        }
        if got != want_s {
            rep.fail(
                "oracle",
                None,
                "parse_lcov(output_lcov(results)) does not rebuild the results".into(),
                json!({"case": case, "reimported": got}),
            );
            continue;
        }
        // second round: export what was imported; compare the two reports as record sets
        if let Ok(Ok(v)) = parsed {
            let rs2: Vec<(PathBuf, PathBuf, CovResult)> = v
                .into_iter()
                .map(|(k, c)| (PathBuf::from(&k), PathBuf::from(&k), c))
                .collect();
            let bytes2 = write_lcov(&rs2, &out_path);
            let d1 = decode_lcov_report(&String::from_utf8_lossy(&bytes)).map(|m| show_map(&m));
            let d2 = decode_lcov_report(&String::from_utf8_lossy(&bytes2)).map(|m| show_map(&m));
            if d1 != d2 || d1.is_err() {
                rep.fail("oracle", None, "second export differs from the first as a record set".into(), case.clone());
            }
            // summary lines must be reproduced too
            let summ = |b: &[u8]| -> Vec<String> {
                let mut v: Vec<String> = String::from_utf8_lossy(b)
                    .lines()
                    .filter(|l| ["LF:", "LH:", "BRF:", "BRH:", "FNF:", "FNH:"].iter().any(|p| l.starts_with(p)))
                    .map(|s| s.to_string())
                    .collect();
                v.sort();
                v
            };
            if summ(&bytes) != summ(&bytes2) {
                rep.fail("oracle", None, "summary lines differ after a round trip".into(), case.clone());
            }
            // C05_second_export_equals_first: byte for byte, whatever the number of functions per
            // file (since 73c9152 `output_lcov` lists them in name order, not in hash-map order)
            rep.count("second_export.byte_equal_checked");
            if rs.iter().any(|r| r.2.functions.len() >= 2) {
                rep.count("second_export.byte_equal_checked.2+_functions_in_a_file");
            }
            if bytes2 != bytes {
                rep.fail("oracle", None, "second export differs from the first byte for byte".into(),
                         json!({"case": case, "second_hex": hex(&bytes2)}));
            }
            // C05_iterate: a second re-import returns what the first returned
            let b3 = bytes2.clone();
            let got2 = show_outcome(&guarded(move || parse_lcov(b3, true)));
            rep.count("iterate.second_reimport");
            if got2 != got {
                rep.fail("oracle", None, "the second re-import differs from the first (export/import is not a fixed point after one round)".into(),
                         json!({"case": case, "first": got, "second": got2}));
            }
        }
        reqs.push(format!("lcov.parse 1 {}", hex(&bytes)));
        impls.push(got);
        // byte-for-byte tie of the writer model on every set: the functions are sent in the order
        // the harness's own map iterates them (never read off the output); `Cli.outputLcov` sorts
        reqs.push(bytes_all::request(&rs, &|n: &str| n.to_string()));
        impls.push(hex(&bytes));
        rep.count("writer.byte_tie");
    }
    let model = run_model(&reqs, &rep.workdir, "c05");
    for i in 0..reqs.len() {
        if model[i] != impls[i] {
            rep.disagreements_checked += 1;
            rep.fail(
                "disagreement",
                None,
                "parse_lcov / output_lcov differ from Lcov.parse / Cli.outputLcov on a written report".into(),
                json!({"op": if reqs[i].starts_with("c05.output_lcov") { "c05.output_lcov" } else { "lcov.parse" }, "branch": true, "request": reqs[i],
                       "input_hex": reqs[i].split(' ').last().unwrap(), "impl": impls[i], "model": model[i]}),
            );
        }
    }
    chains::run(rep, &mut rng);
    bytes_all::run(rep);
}

pub fn replay(rep: &mut Report, case: &serde_json::Value) {
    let c = if case.get("case").is_some() { &case["case"] } else { case };
    if c["op"] == "c05.bytes_all" {
        return bytes_all::replay(rep, c);
    }
    if let Some(h) = c["written_hex"].as_str() {
        let bytes = unhex(h);
        let got = show_outcome(&guarded(move || parse_lcov(bytes, true)));
        let want = format!("ok {}", c["results"].as_str().unwrap()).trim_end().to_string();
        rep.case(h, true);
        if got != want {
            rep.fail("oracle", None, "re-import differs".into(), case.clone());
        }
    } else if let Some(h) = c["input_hex"].as_str() {
        let bytes = unhex(h);
        let b2 = bytes.clone();
        let got = show_outcome(&guarded(move || parse_lcov(b2, true)));
        let m = run_model(&[format!("lcov.parse 1 {}", hex(&bytes))], &rep.workdir, "replay").remove(0);
        rep.case(h, true);
        if got != m {
            rep.fail("disagreement", None, "parse_lcov differs from Lcov.parse".into(), case.clone());
        }
    } else {
        rep.notes.push("CLI chain replays: re-run ./check C05 with the same seed".into());
    }
}

fn main() {
    corrlib::run_main("C05", run, replay);
}
