//! C05 — LCOV fixed point. (a) in-process: parse_lcov(output_lcov(rs)) has the observables of rs,
//! a second export equals the first as a record set, and the Lean byte machine reads the written
//! bytes to the same result; (b) CLI chains r1 → r2 → r3 with filtering and path options.
use corrlib::gen::*;
use corrlib::lcov::show_outcome;
use corrlib::pipe::*;
use corrlib::*;
use grcov::{output_lcov, parse_lcov, CovResult};
use serde_json::json;
use std::path::PathBuf;
use std::time::Duration;

mod climodel;
mod bytes_all;

fn write_lcov(rs: &[(PathBuf, PathBuf, CovResult)], path: &std::path::Path) -> Vec<u8> {
    output_lcov(rs, Some(path), false);
    std::fs::read(path).unwrap()
}

pub fn run(rep: &mut Report) {
    rep.rule = "(a) result sets of 0-6 files (counts up to 2^64-1, branch vectors of length 1-5, function names \
                with commas/non-ASCII) written by output_lcov and read back, twice; (b) CLI chains of three \
                export/import rounds over generated inputs with -s/-p/--ignore/--keep-only/--filter variants; \
                non-trivial = the set has branches and functions (a) or a path option is used (b); \
                distinct = distinct written bytes / distinct (inputs, options)"
        .to_string();
    let mut rng = Rng::new(rep.seed ^ 0xC05);
    let out_path = rep.workdir.join("out.info");
    let n = rep.budget(2_000, 20);
    let mut reqs = vec![];
    let mut impls = vec![];
    for i in 0..n {
        let rs = gen_result_set(&mut rng, 6);
        let bytes = guarded(|| write_lcov(&rs, &out_path));
        let bytes = match bytes {
            Ok(b) => b,
            Err(p) => {
                rep.fail("oracle", None, format!("output_lcov panicked: {}", p), json!({"op": "roundtrip"}));
                continue;
            }
        };
        let nontrivial = rs.iter().any(|r| !r.2.branches.is_empty() && !r.2.functions.is_empty());
        rep.case(&hex(&bytes), nontrivial);
        let b2 = bytes.clone();
        let parsed = guarded(move || parse_lcov(b2, true));
        let want: Vec<(String, CovResult)> = rs
            .iter()
            .map(|r| (r.1.to_str().unwrap().to_string(), r.2.clone()))
            .collect();
        let got = show_outcome(&parsed);
        let want_s = format!("ok {}", show_results_ordered(&want)).trim_end().to_string();
        let case = json!({"op": "roundtrip", "results": show_results_ordered(&want), "written_hex": hex(&bytes),
                          "written": String::from_utf8_lossy(&bytes)});
        if i == 0 {
            rep.sample(json!({"results": show_results_ordered(&want), "written": String::from_utf8_lossy(&bytes)}));
        }
        if got != want_s {
            rep.fail(
                "oracle",
                None,
                "parse_lcov(output_lcov(results)) does not rebuild the results".into(),
                json!({"case": case, "reimported": got}),
            );
            continue;
        }
        // second round: export what was imported; compare the two reports as record sets
        if let Ok(Ok(v)) = parsed {
            let rs2: Vec<(PathBuf, PathBuf, CovResult)> = v
                .into_iter()
                .map(|(k, c)| (PathBuf::from(&k), PathBuf::from(&k), c))
                .collect();
            let bytes2 = write_lcov(&rs2, &out_path);
            let d1 = decode_lcov_report(&String::from_utf8_lossy(&bytes)).map(|m| show_map(&m));
            let d2 = decode_lcov_report(&String::from_utf8_lossy(&bytes2)).map(|m| show_map(&m));
            if d1 != d2 || d1.is_err() {
                rep.fail("oracle", None, "second export differs from the first as a record set".into(), case.clone());
            }
            // summary lines must be reproduced too
            let summ = |b: &[u8]| -> Vec<String> {
                let mut v: Vec<String> = String::from_utf8_lossy(b)
                    .lines()
                    .filter(|l| ["LF:", "LH:", "BRF:", "BRH:", "FNF:", "FNH:"].iter().any(|p| l.starts_with(p)))
                    .map(|s| s.to_string())
                    .collect();
                v.sort();
                v
            };
            if summ(&bytes) != summ(&bytes2) {
                rep.fail("oracle", None, "summary lines differ after a round trip".into(), case.clone());
            }
            // C05_second_export_equals_first: byte for byte (function records come out in hash-map
            // order, which the model takes as a parameter: exact bytes only with <= 1 function per file)
            if rs.iter().all(|r| r.2.functions.len() <= 1) {
                rep.count("second_export.byte_equal_checked");
                if bytes2 != bytes {
                    rep.fail("oracle", None, "second export differs from the first byte for byte".into(),
                             json!({"case": case, "second_hex": hex(&bytes2)}));
                }
            } else if bytes2 == bytes {
                rep.count("second_export.byte_equal_many_functions");
            } else {
                rep.count("second_export.function_order_differs");
            }
            // C05_iterate: a second re-import returns what the first returned
            let b3 = bytes2.clone();
            let got2 = show_outcome(&guarded(move || parse_lcov(b3, true)));
            rep.count("iterate.second_reimport");
            if got2 != got {
                rep.fail("oracle", None, "the second re-import differs from the first (export/import is not a fixed point after one round)".into(),
                         json!({"case": case, "first": got, "second": got2}));
            }
        }
        reqs.push(format!("lcov.parse 1 {}", hex(&bytes)));
        impls.push(got);
        // byte-for-byte tie of the writer model (hash-map order of functions is not modelled:
        // only sets with at most one function per file)
        if rs.iter().all(|r| r.2.functions.len() <= 1) {
            reqs.push(format!("lcov.print {}", show_results_ordered(&want)).trim_end().to_string());
            impls.push(hex(&bytes));
            rep.count("writer.byte_tie");
        }
    }
    let model = run_model(&reqs, &rep.workdir, "c05");
    for i in 0..reqs.len() {
        if model[i] != impls[i] {
            rep.disagreements_checked += 1;
            rep.fail(
                "disagreement",
                None,
                "parse_lcov / output_lcov differ from Lcov.parse / Lcov.printLcov on a written report".into(),
                json!({"op": if reqs[i].starts_with("lcov.print") { "lcov.print" } else { "lcov.parse" }, "branch": true, "request": reqs[i],
                       "input_hex": reqs[i].split(' ').last().unwrap(), "impl": impls[i], "model": model[i]}),
            );
        }
    }
    cli_chains(rep, &mut rng);
    bytes_all::run(rep);
}

fn cli_chains(rep: &mut Report, rng: &mut Rng) {
    let n = rep.budget(40, 15);
    // (request, real report, case) of every run that the model of one run (`Cli.run`) covers
    let mut cli_reqs: Vec<(String, String, serde_json::Value)> = vec![];
    for c in 0..n {
        let dir = rep.workdir.join(format!("chain{}", c));
        let _ = std::fs::remove_dir_all(&dir);
        let src = dir.join("srcroot");
        // a source tree in which some of the reported files exist
        for f in ["src/a.c", "src/b.c", "lib/c.rs", "d.cpp"] {
            if rng.chance(3, 4) {
                let p = src.join(f);
                std::fs::create_dir_all(p.parent().unwrap()).unwrap();
                std::fs::write(&p, "int x;\n".repeat(50)).unwrap();
            }
        }
        std::fs::create_dir_all(&src).unwrap();
        let k = rng.range(1, 5) as usize;
        let mut inputs = gen_inputs(rng, k);
        // paths whose leading component repeats the prefix dir ("src") or the source dir's own
        // name ("srcroot"): stripping that component is not idempotent (known findings below)
        for (nested, tag) in [("src/src/z.c", "nested.prefix"), ("srcroot/srcroot/q.c", "nested.srcdir")] {
            if rng.chance(1, 5) {
                let bytes = format!("TN:\nSF:{}\nDA:1,{}\nDA:7,0\nend_of_record\n", nested, rng.range(1, 9)).into_bytes();
                let parsed = parse_lcov(bytes.clone(), true).expect("plain tracefile");
                inputs.push(Input { name: format!("in{}.info", inputs.len()), format: "Info", id: fnv_id("Info", &bytes), bytes, parsed });
                rep.count(&format!("chain.{}", tag));
            }
        }
        write_inputs(&dir.join("in"), &inputs);
        let mut opts: Vec<String> = vec!["-t".into(), "lcov".into(), "--branch".into(), "--no-demangle".into()];
        let mut used = vec![];
        if rng.chance(1, 2) {
            opts.extend(["-s".to_string(), src.to_str().unwrap().to_string()]);
            used.push("-s");
        }
        if rng.chance(1, 4) {
            opts.extend(["-p".to_string(), "src".to_string()]);
            used.push("-p");
        }
        if rng.chance(1, 3) {
            opts.extend(["--ignore".to_string(), "lib/*".to_string()]);
            used.push("--ignore");
        }
        if rng.chance(1, 4) {
            opts.extend(["--keep-only".to_string(), "*.c".to_string()]);
            used.push("--keep-only");
        }
        if rng.chance(1, 4) {
            opts.extend(["--filter".to_string(), "covered".to_string()]);
            used.push("--filter");
        }
        if used.contains(&"-s") && rng.chance(1, 3) {
            opts.push("--ignore-not-existing".into());
            used.push("--ignore-not-existing");
        }
        rep.case(&format!("chain {} {:?}", c, opts), !used.is_empty());
        for u in &used {
            rep.count(&format!("chain.opt.{}", u));
        }
        let mut prev_args: Vec<String> = vec!["in".into()];
        let mut reports: Vec<String> = vec![];
        let mut ok = true;
        for round in 0..3 {
            let cfg = RunCfg {
                dir: &dir,
                args: prev_args.clone(),
                threads: *rng.pick(&[1usize, 2, 3]),
                perturb: None,
                fault: None,
                limit: Duration::from_secs(60),
                extra: opts.clone(),
            };
            let out = run_grcov(&cfg);
            let case = json!({"op": "chain", "round": round, "opts": opts,
                "inputs": inputs.iter().map(|i| json!({"name": i.name, "hex": hex(&i.bytes)})).collect::<Vec<_>>()});
            if out.exit != Some(0) {
                // an empty report fed back is "No input files found"? a report always has TN: so it is found
                rep.fail("oracle", None, format!("round {} exited with {:?}: {}", round, out.exit, out.stderr.lines().last().unwrap_or("")), case);
                ok = false;
                break;
            }
            // the same run through the Lean model (lcov inputs only: round 0 may hold JaCoCo files)
            let model_inputs: Option<Vec<Vec<u8>>> = if round == 0 {
                if inputs.iter().all(|i| i.format == "Info") {
                    Some(inputs.iter().map(|i| i.bytes.clone()).collect())
                } else {
                    None
                }
            } else {
                Some(vec![reports[round - 1].clone().into_bytes()])
            };
            if let Some(ins) = model_inputs {
                let ccfg = climodel::CliCfg {
                    branch: true,
                    source_dir: if used.contains(&"-s") { Some(src.canonicalize().unwrap().to_str().unwrap().to_string()) } else { None },
                    prefix_dir: if used.contains(&"-p") { Some("src".to_string()) } else { None },
                    ignore: if used.contains(&"--ignore") { vec!["lib/*".to_string()] } else { vec![] },
                    keep: if used.contains(&"--keep-only") { vec!["*.c".to_string()] } else { vec![] },
                    ignore_not_existing: used.contains(&"--ignore-not-existing"),
                    filter: if used.contains(&"--filter") { Some(true) } else { None },
                };
                let req = climodel::cli_request(&ccfg, &dir.canonicalize().unwrap(), &ins);
                rep.count(&format!("cli.model.round{}", round));
                cli_reqs.push((req, out.stdout.clone(), json!({"op": "cli.run", "round": round, "opts": opts,
                    "inputs_hex": ins.iter().map(|b| hex(b)).collect::<Vec<_>>()})));
            }
            let name = format!("r{}.info", round + 1);
            std::fs::write(dir.join(&name), &out.stdout).unwrap();
            prev_args = vec![name];
            reports.push(out.stdout);
        }
        if !ok {
            continue;
        }
        let dec: Vec<Result<String, String>> = reports.iter().map(|r| decode_lcov_report(r).map(|m| show_map(&m))).collect();
        let summ = |r: &str| -> Vec<String> {
            let mut v: Vec<String> = r.lines().filter(|l| ["LF:", "LH:", "BRF:", "BRH:", "FNF:", "FNH:"].iter().any(|p| l.starts_with(p))).map(|s| s.to_string()).collect();
            v.sort();
            v
        };
        if dec[0].is_err() || dec[0] != dec[1] || dec[1] != dec[2] || summ(&reports[0]) != summ(&reports[1]) {
            // named matchers: the ONLY difference between consecutive rounds is that a record whose
            // path begins with the relative prefix dir's name (with -p src) or with the source
            // dir's own last component (with -s …/srcroot, file not on disk) lost that component
            let finding = restrip_finding(&reports, &used);
            rep.fail(
                "oracle",
                finding,
                "re-importing grcov's own lcov report with the same options does not reproduce it".into(),
                json!({"op": "chain", "opts": opts, "r1": reports[0], "r2": reports[1], "r3": reports[2],
                    "inputs": inputs.iter().map(|i| json!({"name": i.name, "hex": hex(&i.bytes)})).collect::<Vec<_>>()}),
            );
        }
    }
    // ---- tie of the model of one run to the real binary ---------------------------------------------
    let reqs: Vec<String> = cli_reqs.iter().map(|x| x.0.clone()).collect();
    let answers = run_model(&reqs, &rep.workdir, "cli");
    for (i, (req, real, case)) in cli_reqs.iter().enumerate() {
        rep.case(&format!("cli.run {}", fnv64(req.as_bytes())), true);
        if let Some(what) = climodel::compare(&answers[i], real) {
            rep.disagreements_checked += 1;
            let mut cj = case.clone();
            cj["request"] = json!(req);
            cj["real"] = json!(real);
            cj["model"] = json!(answers[i]);
            rep.fail("disagreement", None,
                format!("a grcov run differs from the Lean model Cli.run (theorems C05_cli_* / C06_cli_* no longer transfer): {}", what), cj);
        }
    }
}

/// `Some(finding)` iff every round-to-round difference is explained by one of the two recorded
/// re-stripping behaviours and by nothing else (data of the renamed records unchanged).
fn restrip_finding(reports: &[String], used: &[&str]) -> Option<&'static str> {
    let maps: Vec<_> = reports.iter().map(|r| decode_lcov_report(r)).collect();
    if maps.iter().any(|m| m.is_err()) {
        return None;
    }
    let maps: Vec<_> = maps.into_iter().map(|m| m.unwrap()).collect();
    let mut which: Option<&'static str> = None;
    for w in maps.windows(2) {
        let (a, b) = (&w[0], &w[1]);
        if a == b {
            continue;
        }
        // rename the keys of `a` by one re-strip and require equality with `b`
        let mut explained = false;
        for (comp, opt, id) in [("src/", "-p", "C05-relative-prefix-restripped"), ("srcroot/", "-s", "C05-source-dir-name-restripped")] {
            if !used.contains(&opt) {
                continue;
            }
            // a record that is unchanged in `b` keeps its path (a file that exists on disk is
            // canonicalised first and is not stripped); every other one must reappear stripped
            let mut renamed = std::collections::BTreeMap::new();
            let mut clash = false;
            let mut stripped = 0;
            for (k, v) in a.iter() {
                let nk = if b.get(k) == Some(v) {
                    k.to_string()
                } else {
                    stripped += 1;
                    k.strip_prefix(comp).unwrap_or(k).to_string()
                };
                if renamed.insert(nk, v.clone()).is_some() {
                    clash = true;
                }
            }
            if !clash && stripped > 0 && &renamed == b {
                explained = true;
                if which.is_some() && which != Some(id) {
                    return None;
                }
                which = Some(id);
                break;
            }
        }
        if !explained {
            return None;
        }
    }
    which
}

pub fn replay(rep: &mut Report, case: &serde_json::Value) {
    let c = if case.get("case").is_some() { &case["case"] } else { case };
    if c["op"] == "c05.bytes_all" {
        return bytes_all::replay(rep, c);
    }
    if let Some(h) = c["written_hex"].as_str() {
        let bytes = unhex(h);
        let got = show_outcome(&guarded(move || parse_lcov(bytes, true)));
        let want = format!("ok {}", c["results"].as_str().unwrap()).trim_end().to_string();
        rep.case(h, true);
        if got != want {
            rep.fail("oracle", None, "re-import differs".into(), case.clone());
        }
    } else if let Some(h) = c["input_hex"].as_str() {
        let bytes = unhex(h);
        let b2 = bytes.clone();
        let got = show_outcome(&guarded(move || parse_lcov(b2, true)));
        let m = run_model(&[format!("lcov.parse 1 {}", hex(&bytes))], &rep.workdir, "replay").remove(0);
        rep.case(h, true);
        if got != m {
            rep.fail("disagreement", None, "parse_lcov differs from Lcov.parse".into(), case.clone());
        }
    } else {
        rep.notes.push("CLI chain replays: re-run ./check C05 with the same seed".into());
    }
}

fn main() {
    corrlib::run_main("C05", run, replay);
}
