//! C05, CLI chains r1 → r2 → r3: `grcov <inputs> OPTS > r1`, `grcov r1 OPTS > r2`, `grcov r2 OPTS > r3`
//! with the SAME filtering and path options; the three reports must be the same record sets with
//! the same summary lines (second review, item 25: the option and path space of the chains).
//!
//! * paths: the SF lines of the generated tracefiles are respelled from a pool in the manner of
//!   the C11 generator (`./`, `//`, `/./`, backslashes, `name/../`, the source dir's own name in
//!   front, absolute below the source dir, absolute elsewhere, missing files, `..` behind a missing
//!   directory) plus Java/Kotlin files named by partial paths (`pkg/A.java`, on disk below
//!   `main/java/`; item 26);
//! * options: `-s srcroot`; `-p` relative (`src`), absolute below the source dir
//!   (`<srcroot>/src`), equal to it, or elsewhere (`/nonexistent/p`); `--ignore`, `--keep-only`;
//!   `--filter covered | uncovered`; `--ignore-not-existing`; `--excl-line` / `--excl-start` /
//!   `--excl-stop` with marker lines in the source files; `--branch` on or off;
//! * every run over lcov inputs without `--excl-*` is also sent to the Lean model of one run
//!   (`Cli.runJ`, driver op `cli.runj`) and compared section by section;
//! * a chain that is not a fixed point is classified per record: each record whose path changed
//!   between two rounds must be explained by exactly one of the four recorded re-stripping
//!   mechanisms, under that mechanism's precise conditions, with its data unchanged.
use crate::climodel;
use corrlib::pipe::*;
use corrlib::*;
use grcov::parse_lcov;
use serde_json::json;
use std::collections::BTreeMap;
use std::time::Duration;

/// files that may exist below `srcroot/` (each with probability 3/4)
const TREE: &[&str] = &["src/a.c", "src/b.c", "src/sub/e.c", "lib/c.rs", "d.cpp", "main/java/pkg/A.java", "pkg/B.java", "k/C.kt"];
const SRC_LINES: &[&str] = &["int x;", "y(); // XL", "// XB", "// XE", "z();", "}", "w(); // XB XE"];

fn gen_source(rng: &mut Rng) -> String {
    let mut s = String::new();
    for _ in 0..rng.range(8, 14) {
        s.push_str(*rng.pick(SRC_LINES));
        s.push('\n');
    }
    s
}

const BASES: &[&str] = &["src/a.c", "src/a.c", "src/b.c", "src/sub/e.c", "lib/c.rs", "d.cpp", "pkg/A.java", "pkg/B.java", "C.kt", "nx/missing.c"];

/// the spelling of a base file in this chain (ONE spelling per file and chain: two spellings of
/// one file in one run are listed as two records – known finding C12-respelled-duplicates, C12's
/// subject and the `hnd` guard of the CLI theorems – which a re-import then merges)
fn gen_sf(rng: &mut Rng, abs_src: &str, base: &str) -> String {
    match rng.below(16) {
        0 => format!("./{}", base),
        1 => base.replacen('/', "//", 1),
        2 => base.replacen('/', "/./", 1),
        3 => base.replace('/', "\\"),
        4 => match base.rsplit_once('/') {
            Some((d, f)) => format!("{}/sub/../{}", d, f),
            None => format!("zz/../{}", base),
        },
        5 => match base.rsplit_once('/') {
            Some((d, f)) => format!("{}\\sub\\..\\{}", d, f),
            None => base.to_string(),
        },
        6 => format!("srcroot/{}", base),           // the source dir's own name in front
        7 => format!("{}/{}", abs_src, base),       // absolute, below the source dir
        8 => format!("src/{}", base),               // the relative prefix dir's name in front
        9 => format!("/nonexistent/x/../p/{}", base), // reaches the absolute prefix through ".."
        10 => format!("/nonexistent/p/{}", base),   // below the absolute prefix as spelled
        11 => format!("/elsewhere/{}", base),       // absolute, outside everything
        _ => base.to_string(),
    }
}

/// the SF lines of a generated tracefile respelled from the pool
fn respell(rng: &mut Rng, inp: &mut Input, abs_src: &str, spelled: &mut BTreeMap<String, String>) {
    if inp.format != "Info" {
        return;
    }
    let text = String::from_utf8_lossy(&inp.bytes).to_string();
    let mut out = String::new();
    for l in text.split_inclusive('\n') {
        if l.starts_with("SF:") {
            let base = rng.pick(BASES).to_string();
            let sp = match spelled.get(&base) {
                Some(s) => s.clone(),
                None => {
                    let s = gen_sf(rng, abs_src, &base);
                    spelled.insert(base.clone(), s.clone());
                    s
                }
            };
            out.push_str(&format!("SF:{}\n", sp));
        } else {
            out.push_str(l);
        }
    }
    inp.bytes = out.into_bytes();
    inp.id = fnv_id("Info", &inp.bytes);
    inp.parsed = parse_lcov(inp.bytes.clone(), true).expect("respelled tracefile is well formed");
}

struct Opts {
    branch: bool,
    /// canonical
    source_dir: Option<String>,
    prefix_dir: Option<String>,
    ignore: Vec<String>,
    keep: Vec<String>,
    ine: bool,
    filter: Option<bool>,
    /// --excl-line XL / --excl-start XB / --excl-stop XE
    excl: [bool; 3],
}

impl Opts {
    fn args(&self) -> Vec<String> {
        let mut o: Vec<String> = vec!["-t".into(), "lcov".into(), "--no-demangle".into()];
        if self.branch {
            o.push("--branch".into());
        }
        if let Some(s) = &self.source_dir {
            o.extend(["-s".into(), s.clone()]);
        }
        if let Some(p) = &self.prefix_dir {
            o.extend(["-p".into(), p.clone()]);
        }
        for g in &self.ignore {
            o.extend(["--ignore".into(), g.clone()]);
        }
        for g in &self.keep {
            o.extend(["--keep-only".into(), g.clone()]);
        }
        match self.filter {
            Some(true) => o.extend(["--filter".into(), "covered".into()]),
            Some(false) => o.extend(["--filter".into(), "uncovered".into()]),
            None => {}
        }
        if self.ine {
            o.push("--ignore-not-existing".into());
        }
        for (i, (opt, m)) in [("--excl-line", "XL"), ("--excl-start", "XB"), ("--excl-stop", "XE")].iter().enumerate() {
            if self.excl[i] {
                o.extend([opt.to_string(), m.to_string()]);
            }
        }
        o
    }
    fn markers(&self) -> bool {
        self.excl.iter().any(|b| *b)
    }
}

use crate::restrip::{self, RestripCfg, F_ABS_BELOW};

fn restrip_cfg(o: &Opts) -> RestripCfg<'_> {
    RestripCfg { sd: o.source_dir.as_deref(), pd: o.prefix_dir.as_deref(), ignore: &o.ignore, keep: &o.keep, ine: o.ine, cli: true }
}

/// `Some(findings)` iff EVERY round-to-round difference is a record that kept its data and moved
/// to one of its images (no two records landing on the same path, nothing else added or lost).
fn classify(reports: &[String], o: &Opts) -> Option<Vec<&'static str>> {
    let maps: Vec<BTreeMap<String, grcov::CovResult>> = reports.iter().map(|r| decode_lcov_report(r).ok()).collect::<Option<Vec<_>>>()?;
    let mut used: Vec<&'static str> = vec![];
    for w in maps.windows(2) {
        let (a, b) = (&w[0], &w[1]);
        if a == b {
            continue;
        }
        let mut taken: BTreeMap<String, ()> = BTreeMap::new();
        for (k, v) in a {
            if b.get(k) == Some(v) && !taken.contains_key(k) {
                taken.insert(k.clone(), ());
                continue;
            }
            let mut ok = false;
            let rc = restrip_cfg(o);
            for (ids, k2) in restrip::images(k, &rc) {
                let moved = b.get(&k2) == Some(v) && !taken.contains_key(&k2);
                if moved {
                    taken.insert(k2.clone(), ());
                }
                if moved || (!b.contains_key(&k2) && restrip::dropped(&k2, &rc)) {
                    for id in ids {
                        if !used.contains(&id) {
                            used.push(id);
                        }
                    }
                    ok = true;
                    break;
                }
            }
            if !ok {
                return None;
            }
        }
        if taken.len() != b.len() {
            return None;
        }
    }
    if used.is_empty() {
        None
    } else {
        Some(used)
    }
}

fn summaries(r: &str) -> Vec<String> {
    let mut v: Vec<String> = r.lines().filter(|l| ["LF:", "LH:", "BRF:", "BRH:", "FNF:", "FNH:"].iter().any(|p| l.starts_with(p))).map(|s| s.to_string()).collect();
    v.sort();
    v
}

pub fn run(rep: &mut Report, rng: &mut Rng) {
    let n = rep.budget(200, 8);
    // (request, real report, case) of every run that the model of one run (`Cli.runJ`) covers
    let mut cli_reqs: Vec<(String, String, serde_json::Value)> = vec![];
    for c in 0..n {
        let dir = rep.workdir.join(format!("chain{}", c));
        let _ = std::fs::remove_dir_all(&dir);
        let src = dir.join("srcroot");
        std::fs::create_dir_all(&src).unwrap();
        for f in TREE {
            if rng.chance(3, 4) {
                let p = src.join(f);
                std::fs::create_dir_all(p.parent().unwrap()).unwrap();
                std::fs::write(&p, gen_source(rng)).unwrap();
            }
        }
        let abs_src = src.canonicalize().unwrap().to_str().unwrap().to_string();
        let branch = rng.chance(3, 4);
        let k = rng.range(1, 4) as usize;
        let mut inputs = gen_inputs(rng, k);
        if !branch {
            // without --branch the JaCoCo reader still files branch data which a re-import drops
            // (known finding C06-jacoco-branches-without-branch-flag, C06's subject): lcov only
            inputs.retain(|i| i.format == "Info");
            if inputs.is_empty() {
                inputs = gen_inputs(rng, 6).into_iter().filter(|i| i.format == "Info").take(1).collect();
            }
        }
        if rng.chance(4, 5) {
            // JaCoCo inputs name pkg/A.java and pkg/B.java as such: so do the lcov inputs then
            let mut spelled: BTreeMap<String, String> = BTreeMap::new();
            if inputs.iter().any(|i| i.format != "Info") {
                spelled.insert("pkg/A.java".into(), "pkg/A.java".into());
                spelled.insert("pkg/B.java".into(), "pkg/B.java".into());
            }
            for inp in inputs.iter_mut() {
                respell(rng, inp, &abs_src, &mut spelled);
            }
            rep.count("chain.paths_respelled");
        }
        write_inputs(&dir.join("in"), &inputs);
        let with_src = rng.chance(3, 5);
        let mut o = Opts {
            branch,
            source_dir: if with_src { Some(abs_src.clone()) } else { None },
            prefix_dir: None,
            ignore: vec![],
            keep: vec![],
            ine: false,
            filter: None,
            excl: [false; 3],
        };
        o.prefix_dir = match rng.below(12) {
            0 | 1 => Some("src".to_string()),
            2 | 3 => Some(format!("{}/src", abs_src)),
            4 => Some(abs_src.clone()),
            5 => Some("/nonexistent/p".to_string()),
            _ => None,
        };
        if rng.chance(1, 4) {
            o.ignore.push(rng.pick(&["lib/*", "**/*.java", "src/sub/*"]).to_string());
        }
        if rng.chance(1, 5) {
            o.keep.push(rng.pick(&["*.c", "**/*.c", "**/*.java"]).to_string());
        }
        o.filter = *rng.pick(&[None, None, Some(true), Some(false)]);
        o.ine = with_src && rng.chance(1, 3);
        if with_src && rng.chance(1, 3) {
            o.excl = [rng.chance(2, 3), rng.chance(1, 2), rng.chance(1, 2)];
        }
        let opts = o.args();
        let nontrivial = with_src || o.prefix_dir.is_some() || !o.ignore.is_empty() || !o.keep.is_empty() || o.filter.is_some();
        rep.case(&format!("chain {} {:?}", c, opts), nontrivial);
        for (name, on) in [("-s", with_src), ("--ignore", !o.ignore.is_empty()), ("--keep-only", !o.keep.is_empty()),
            ("--ignore-not-existing", o.ine), ("--excl-*", o.markers()), ("--branch", o.branch)] {
            if on {
                rep.count(&format!("chain.opt.{}", name));
            }
        }
        rep.count(&format!("chain.opt.-p={}", match &o.prefix_dir {
            None => "none", Some(p) if !p.starts_with('/') => "relative", Some(p) if *p == abs_src => "=source",
            Some(p) if p.starts_with(&abs_src) => "absolute_below_source", _ => "absolute_elsewhere" }));
        rep.count(&format!("chain.opt.--filter={:?}", o.filter));
        let mut prev_args: Vec<String> = vec!["in".into()];
        let mut reports: Vec<String> = vec![];
        let mut ok = true;
        for round in 0..3 {
            let cfg = RunCfg {
                dir: &dir,
                args: prev_args.clone(),
                threads: *rng.pick(&[1usize, 2, 3]),
                perturb: None,
                fault: None,
                limit: Duration::from_secs(60),
                extra: opts.clone(),
            };
            let out = run_grcov(&cfg);
            let case = json!({"op": "chain", "round": round, "opts": opts,
                "inputs": inputs.iter().map(|i| json!({"name": i.name, "hex": hex(&i.bytes)})).collect::<Vec<_>>()});
            if out.exit != Some(0) {
                rep.fail("oracle", None, format!("round {} exited with {:?}: {}", round, out.exit, out.stderr.lines().last().unwrap_or("")), case);
                ok = false;
                break;
            }
            // the same run through the Lean model (lcov inputs only: round 0 may hold JaCoCo files;
            // the model of one run has no exclusion markers)
            let model_inputs: Option<Vec<Vec<u8>>> = if o.markers() {
                None
            } else if round == 0 {
                if inputs.iter().all(|i| i.format == "Info") {
                    Some(inputs.iter().map(|i| i.bytes.clone()).collect())
                } else {
                    None
                }
            } else {
                Some(vec![reports[round - 1].clone().into_bytes()])
            };
            if let Some(ins) = model_inputs {
                let ccfg = climodel::CliCfg {
                    branch: o.branch,
                    source_dir: o.source_dir.clone(),
                    prefix_dir: o.prefix_dir.clone(),
                    ignore: o.ignore.clone(),
                    keep: o.keep.clone(),
                    ignore_not_existing: o.ine,
                    filter: o.filter,
                };
                let req = climodel::cli_request(&ccfg, &dir.canonicalize().unwrap(), &ins);
                rep.count(&format!("cli.model.round{}", round));
                cli_reqs.push((req, out.stdout.clone(), json!({"op": "cli.runj", "round": round, "opts": opts,
                    "inputs_hex": ins.iter().map(|b| hex(b)).collect::<Vec<_>>()})));
            } else {
                rep.count("cli.model.not_covered(jacoco_input_or_markers)");
            }
            let name = format!("r{}.info", round + 1);
            std::fs::write(dir.join(&name), &out.stdout).unwrap();
            prev_args = vec![name];
            reports.push(out.stdout);
        }
        if !ok {
            continue;
        }
        if reports[0].lines().any(|l| l.starts_with("SF:") && (l.ends_with(".java") || l.ends_with(".kt"))) {
            rep.count("chain.report_lists_java_or_kotlin_file");
        }
        if !o.branch && reports.iter().any(|r| r.lines().any(|l| l.starts_with("BRDA:"))) {
            rep.fail("oracle", None, "a run without --branch on lcov inputs reports BRDA records".into(),
                json!({"op": "chain", "opts": opts, "r1": reports[0]}));
        }
        let dec: Vec<Result<String, String>> = reports.iter().map(|r| decode_lcov_report(r).map(|m| show_map(&m))).collect();
        if dec[0].is_err() || dec[0] != dec[1] || dec[1] != dec[2] || summaries(&reports[0]) != summaries(&reports[1])
            || summaries(&reports[1]) != summaries(&reports[2])
        {
            let case = json!({"op": "chain", "opts": opts, "r1": reports[0], "r2": reports[1], "r3": reports[2],
                "tree": TREE.iter().filter(|f| src.join(f).exists()).collect::<Vec<_>>(),
                "inputs": inputs.iter().map(|i| json!({"name": i.name, "hex": hex(&i.bytes)})).collect::<Vec<_>>()});
            match classify(&reports, &o) {
                Some(ids) => {
                    for id in ids {
                        rep.fail("oracle", Some(id),
                            "re-importing grcov's own lcov report with the same options does not reproduce it".into(), case.clone());
                    }
                }
                None => rep.fail("oracle", None,
                    "re-importing grcov's own lcov report with the same options does not reproduce it".into(), case),
            }
        } else {
            rep.count("chain.fixed_point");
        }
    }
    witness(rep);
    // ---- tie of the model of one run to the real binary ---------------------------------------------
    let reqs: Vec<String> = cli_reqs.iter().map(|x| x.0.clone()).collect();
    let answers = run_model(&reqs, &rep.workdir, "cli");
    for (i, (req, real, case)) in cli_reqs.iter().enumerate() {
        rep.case(&format!("cli.runj {}", fnv64(req.as_bytes())), true);
        if let Some(what) = climodel::compare(&answers[i], real) {
            rep.disagreements_checked += 1;
            let mut cj = case.clone();
            cj["request"] = json!(req);
            cj["real"] = json!(real);
            cj["model"] = json!(answers[i]);
            rep.fail("disagreement", None,
                format!("a grcov run differs from the Lean model Cli.runJ (theorems C05_cli_* / C06_cli_* no longer transfer): {}", what), cj);
        }
    }
}

/// Props.C05.C05_cli_abs_prefix_below_source_witness on the real binary: `-s S -p S/src`,
/// `S/src/a.c` on disk, `SF:src\a.c`: r1 says `src/a.c`, r2 and r3 `a.c`
fn witness(rep: &mut Report) {
    let dir = rep.workdir.join("chainw");
    let _ = std::fs::remove_dir_all(&dir);
    std::fs::create_dir_all(dir.join("srcroot/src")).unwrap();
    std::fs::write(dir.join("srcroot/src/a.c"), "int x;\n").unwrap();
    std::fs::create_dir_all(dir.join("in")).unwrap();
    std::fs::write(dir.join("in/w.info"), "TN:\nSF:src\\a.c\nDA:1,1\nend_of_record\n").unwrap();
    let abs_src = dir.join("srcroot").canonicalize().unwrap().to_str().unwrap().to_string();
    let o = Opts { branch: true, source_dir: Some(abs_src.clone()), prefix_dir: Some(format!("{}/src", abs_src)),
        ignore: vec![], keep: vec![], ine: false, filter: None, excl: [false; 3] };
    let mut prev = vec!["in".to_string()];
    let mut reports = vec![];
    for round in 0..3 {
        let out = run_grcov(&RunCfg { dir: &dir, args: prev.clone(), threads: 1, perturb: None, fault: None,
            limit: Duration::from_secs(60), extra: o.args() });
        let name = format!("r{}.info", round + 1);
        std::fs::write(dir.join(&name), &out.stdout).unwrap();
        prev = vec![name];
        reports.push(out.stdout);
    }
    rep.case("chain witness abs prefix below source", true);
    rep.count("chain.witness.abs_prefix_below_source");
    let sf = |r: &str| r.lines().find(|l| l.starts_with("SF:")).unwrap_or("").to_string();
    if sf(&reports[0]) == "SF:src/a.c" && sf(&reports[1]) == "SF:a.c" && sf(&reports[2]) == "SF:a.c"
        && classify(&reports, &o) == Some(vec![F_ABS_BELOW])
    {
        rep.count("chain.witness.abs_prefix_below_source.reproduced_on_real_binary");
        rep.fail("oracle", Some(F_ABS_BELOW), "re-importing grcov's own lcov report with the same options does not reproduce it".into(),
            json!({"op": "chain", "opts": o.args(), "r1": reports[0], "r2": reports[1], "r3": reports[2], "witness": true}));
    } else {
        rep.fail("disagreement", None,
            format!("C05_cli_abs_prefix_below_source_witness no longer behaves as proved on the real binary: {:?}", reports.iter().map(|r| sf(r)).collect::<Vec<_>>()),
            json!({"op": "chain", "opts": o.args(), "r1": reports[0], "r2": reports[1], "r3": reports[2]}));
    }
}
