//! C11 part `Glob` — the WHOLE pattern language of globset 0.4 (classes, ranges, negation,
//! alternation, escapes, `**` in every position, invalid patterns) tied to
//! GrcovModel/Glob/Syntax.lean + Glob/Strategy.lean (driver ops `c11.glob.*` of gm_c11):
//!
//! * `parse`   — `globset::Glob::new(g)`: error kind (with the two chars of `InvalidRange`) or the
//!               regex text `Glob::regex()`, byte for byte against `GlobSyntax.parse` / `toRegex`;
//! * `match`   — `compile_matcher().is_match(p)` and a one-glob `GlobSet::is_match(p)` against
//!               `regexMatch` and `setIsMatch` (the strategy tables of `GlobSet`);
//! * `set`     — a set built the way `to_globset` builds it (`Glob::new(..).unwrap()`);
//! * `rewrite` — the real `grcov::rewrite_paths` with `--ignore` / `--keep-only` patterns of the
//!               whole language (also invalid ones) on generated trees against `rewritePathsG`;
//! * `cli`     — the real binary with a pattern that does not parse (exit 101, no report).
//!
//! Patterns come from an AST generator whose meaning is evaluated by an independent matcher in
//! this file (`ast_match`, the oracle: it never calls globset or the model), from a raw piece
//! stream (every metacharacter, quirky neighbours) and from a malformed stream with a known error.
use crate::pathgen::*;
use corrlib::*;
use serde_json::{json, Value};
use std::collections::BTreeMap;
use std::ffi::OsStr;
use std::os::unix::ffi::OsStrExt;

/// finding: `GlobSet` looks a glob like `*.` / `**/foo.` / `a*b.` up in its extension / basename
/// tables, and `pathutil::file_name` gives a path that ends with '.' the empty basename: the set
/// answers "no match" where the glob's own matcher (its regex) answers "match"
pub const TRAILING_DOT: &str = "C11-globset-trailing-dot-path";
/// finding: inside braces, `\,**` / `\{**` followed by `,` `}` or `/`: `parse_star` takes the
/// ESCAPED `,` / `{` for the start of the alternative and replaces the literal by `/**`
pub const ESCAPED_COMMA: &str = "C11-glob-escaped-comma-doublestar";

// ---------------------------------------------------------------------------------------------
// pattern AST, its text and its meaning

#[derive(Clone, Debug, PartialEq)]
enum It {
    /// a literal char; `true` = written with a backslash
    Lit(char, bool),
    Any,
    Star,
    /// `**` next to other text: two `*`
    TwoStars,
    /// negated, the negation char, the members
    Class(bool, char, Vec<(char, char)>),
    /// `**/` first in the pattern or in an alternative
    RecPrefix,
    /// `/**` last in the pattern or in an alternative
    RecSuffix,
    /// `/**/`
    RecMid,
    Alt(Vec<Vec<It>>),
}
use It::*;

const META: &[char] = &['?', '*', '[', '{', '}', '\\'];

fn text_seq(its: &[It], in_alt: bool, out: &mut String) {
    for it in its {
        match it {
            Lit(c, esc) => {
                if *esc || META.contains(c) || (in_alt && *c == ',') {
                    out.push('\\');
                }
                out.push(*c);
            }
            Any => out.push('?'),
            Star => out.push('*'),
            TwoStars => out.push_str("**"),
            Class(neg, nc, rs) => {
                out.push('[');
                if *neg {
                    out.push(*nc);
                }
                for (lo, hi) in rs {
                    out.push(*lo);
                    if lo != hi {
                        out.push('-');
                        out.push(*hi);
                    }
                }
                out.push(']');
            }
            RecPrefix => out.push_str("**/"),
            RecSuffix => out.push_str("/**"),
            RecMid => out.push_str("/**/"),
            Alt(alts) => {
                out.push('{');
                for (i, a) in alts.iter().enumerate() {
                    if i > 0 {
                        out.push(',');
                    }
                    text_seq(a, true, out);
                }
                out.push('}');
            }
        }
    }
}

fn text(its: &[It]) -> String {
    let mut s = String::new();
    text_seq(its, false, &mut s);
    s
}

/// the bytes a class item admits: the class is compiled into a BYTE regex from the UTF-8 text of
/// its members, so a non-ASCII member stands for each of its bytes and a range runs from the last
/// byte of its lower end to the first byte of its upper end
fn range_has(lo: char, hi: char, b: u8) -> bool {
    let (l, h) = (lo.to_string().into_bytes(), hi.to_string().into_bytes());
    if lo == hi {
        return l.contains(&b);
    }
    l[..l.len() - 1].contains(&b) || (l[l.len() - 1] <= b && b <= h[0]) || h[1..].contains(&b)
}

/// the independent meaning of a pattern: does it match exactly `s`?
fn ast_seq(its: &[It], k: &dyn Fn(&[u8]) -> bool, s: &[u8]) -> bool {
    let Some((it, tl)) = its.split_first() else { return k(s) };
    match it {
        Lit(c, _) => {
            let e = c.to_string();
            s.starts_with(e.as_bytes()) && ast_seq(tl, k, &s[e.len()..])
        }
        Any => !s.is_empty() && ast_seq(tl, k, &s[1..]),
        Star | TwoStars => (0..=s.len()).any(|i| ast_seq(tl, k, &s[i..])),
        Class(neg, _, rs) => {
            !s.is_empty() && (rs.iter().any(|(lo, hi)| range_has(*lo, *hi, s[0])) != *neg) && ast_seq(tl, k, &s[1..])
        }
        RecPrefix => ast_seq(tl, k, s) || (0..s.len()).any(|i| s[i] == b'/' && ast_seq(tl, k, &s[i + 1..])),
        RecSuffix => !s.is_empty() && s[0] == b'/' && (1..=s.len()).any(|i| ast_seq(tl, k, &s[i..])),
        RecMid => {
            !s.is_empty()
                && s[0] == b'/'
                && (ast_seq(tl, k, &s[1..]) || (1..s.len()).any(|i| s[i] == b'/' && ast_seq(tl, k, &s[i + 1..])))
        }
        Alt(alts) => {
            // an empty alternative is not an alternative (`empty_alternates` is off)
            let live: Vec<&Vec<It>> = alts.iter().filter(|a| !a.is_empty()).collect();
            if live.is_empty() {
                ast_seq(tl, k, s)
            } else {
                live.iter().any(|a| ast_seq(a, &|r| ast_seq(tl, k, r), s))
            }
        }
    }
}

fn ast_match(its: &[It], s: &[u8]) -> bool {
    ast_seq(its, &|r| r.is_empty(), s)
}

// ---------------------------------------------------------------------------------------------
// generators

const LIT_CHARS: &[char] = &[
    'a', 'b', 'c', '.', 'x', 'y', '/', '/', '-', ',', '!', '^', ']', '[', '{', '}', '*', '?', '\\', 'é', '名', ' ', 'o', 'f',
];
const CLS_CHARS: &[char] = &['a', 'b', 'c', 'f', 'o', 'x', 'z', '0', '9', '.', ',', '/', '\\', '*', '?', '{', 'é', 'à', '名', ' '];

fn gen_class(rng: &mut Rng, around: Option<char>) -> It {
    let neg = rng.chance(1, 4);
    let nc = if rng.chance(1, 2) { '!' } else { '^' };
    let mut rs: Vec<(char, char)> = vec![];
    if rng.chance(1, 8) {
        rs.push((']', ']'));
    } else if rng.chance(1, 10) {
        rs.push(('-', '-'));
    }
    let n = rng.range(if rs.is_empty() { 1 } else { 0 }, 4);
    for i in 0..n {
        let mut c = *rng.pick(CLS_CHARS);
        if let (Some(a), true) = (around, i == 0) {
            if a != ']' && a != '-' && a != '!' && a != '^' {
                c = a;
            }
        }
        if rng.chance(1, 3) {
            let d = *rng.pick(CLS_CHARS);
            let (lo, hi) = if c < d { (c, d) } else { (d, c) };
            if lo != hi {
                rs.push((lo, hi));
                continue;
            }
        }
        rs.push((c, c));
    }
    if rng.chance(1, 10) {
        rs.push(('-', '-'));
    }
    // a member that would be read as the negation sign, a '-' that would be read as a range
    // operator and a ']' that would close the class are moved / dropped
    let mut out: Vec<(char, char)> = vec![];
    for (i, r) in rs.iter().enumerate() {
        let last = i + 1 == rs.len();
        if *r == (']', ']') && i != 0 {
            continue;
        }
        if *r == ('-', '-') && !(i == 0 || last) {
            continue;
        }
        if !neg && i == 0 && (r.0 == '!' || r.0 == '^') {
            continue;
        }
        out.push(*r);
    }
    if out.is_empty() || (!neg && (out[0].0 == '!' || out[0].0 == '^')) {
        out.insert(0, ('a', 'a'));
    }
    // "a--" would make the first '-' a range operator: a single '-' member only first or last, and
    // not right after a range end that it would extend
    if out.len() >= 2 && out[out.len() - 1] == ('-', '-') && out[out.len() - 2] == ('-', '-') {
        out.pop();
    }
    Class(neg, nc, out)
}

fn star_like(it: &It) -> bool {
    matches!(it, Star | TwoStars)
}

/// may `**` written after this item be anything but two `*`?
fn two_stars_ok_after(it: Option<&It>) -> bool {
    match it {
        Some(Lit(c, _)) => *c != '/' && *c != ',' && *c != '{',
        Some(Any) | Some(Class(..)) => true,
        _ => false,
    }
}

/// a well-formed sequence; `vocab` = literal strings to draw from
fn gen_seq(rng: &mut Rng, top: bool, vocab: &[&str], stats: &mut BTreeMap<String, u64>) -> Vec<It> {
    let mut its: Vec<It> = vec![];
    let n = rng.range(if top { 1 } else { 0 }, 5);
    if rng.chance(1, 5) {
        its.push(RecPrefix);
    }
    for _ in 0..n {
        let prev = its.last();
        let it = match rng.below(16) {
            0 | 1 => Any,
            2 | 3 if !prev.map(star_like).unwrap_or(false) => Star,
            4 if two_stars_ok_after(prev) => TwoStars,
            5 | 6 => gen_class(rng, None),
            7 => RecMid,
            8 if top => {
                let k = rng.range(1, 3);
                let mut alts: Vec<Vec<It>> = (0..k).map(|_| gen_seq(rng, false, vocab, stats)).collect();
                if rng.chance(1, 6) {
                    alts.push(vec![]);
                }
                Alt(alts)
            }
            9 | 10 => {
                // a word of the vocabulary, char by char
                for c in rng.pick(vocab).chars() {
                    its.push(Lit(c, rng.chance(1, 8)));
                }
                continue;
            }
            _ => Lit(*rng.pick(LIT_CHARS), rng.chance(1, 6)),
        };
        // `**` after an item would change its reading: no star-like item next to another one
        if star_like(&it) && prev.map(star_like).unwrap_or(false) {
            continue;
        }
        its.push(it);
    }
    if its == vec![RecPrefix] && top {
        its.push(Lit('a', false));
    }
    if rng.chance(1, 6) && !its.is_empty() {
        its.push(RecSuffix);
    }
    if !top && rng.chance(1, 40) {
        // the escaped-comma neighbour (finding ESCAPED_COMMA): by its text this is the literal,
        // then two `*`
        its.retain(|i| *i != RecSuffix);
        its.push(Lit('a', false));
        its.push(Lit(if rng.chance(1, 2) { ',' } else { '{' }, true));
        its.push(TwoStars);
        *stats.entry("glob.ast.escaped_comma_doublestar".into()).or_insert(0) += 1;
    }
    its
}

fn kinds(its: &[It], stats: &mut BTreeMap<String, u64>) {
    for it in its {
        let k = match it {
            Lit(_, true) => "escape",
            Lit(c, _) if !c.is_ascii() => "non_ascii_literal",
            Lit(..) => "literal",
            Any => "any",
            Star => "star",
            TwoStars => "two_stars",
            Class(true, ..) => "class_negated",
            Class(_, _, rs) if rs.iter().any(|r| !r.0.is_ascii() || !r.1.is_ascii()) => "class_non_ascii",
            Class(_, _, rs) if rs.iter().any(|r| r.0 != r.1) => "class_range",
            Class(..) => "class",
            RecPrefix => "rec_prefix",
            RecSuffix => "rec_suffix",
            RecMid => "rec_mid",
            Alt(alts) => {
                for a in alts {
                    kinds(a, stats);
                }
                if alts.iter().any(|a| a.is_empty()) { "alt_with_empty" } else { "alt" }
            }
        };
        *stats.entry(format!("glob.ast.{}", k)).or_insert(0) += 1;
    }
}

/// a byte string the sequence matches (mostly)
fn sample(rng: &mut Rng, its: &[It], out: &mut Vec<u8>) {
    const FILL: &[&str] = &["", "a", "x", "d/e", "foo", ".", "b.c", "/", "名", "q/"];
    for it in its {
        match it {
            Lit(c, _) => out.extend(c.to_string().as_bytes()),
            Any => out.extend(rng.pick(&["a", "/", ".", "\u{e9}"]).as_bytes().iter().take(1)),
            Star | TwoStars => out.extend(rng.pick(FILL).as_bytes()),
            Class(neg, _, rs) => {
                if *neg {
                    out.push(*rng.pick(&[b'q', b'/', b'.', 0xc3]));
                } else {
                    let (lo, hi) = *rng.pick(rs);
                    let l = lo.to_string().into_bytes();
                    let h = hi.to_string().into_bytes();
                    out.push(if rng.chance(1, 2) { l[l.len() - 1] } else { h[0] });
                }
            }
            RecPrefix => out.extend(rng.pick(&["", "", "d/", "d/e/", "/"]).as_bytes()),
            RecSuffix => out.extend(rng.pick(&["/", "/x", "/x/y.c"]).as_bytes()),
            RecMid => out.extend(rng.pick(&["/", "/", "/m/", "/m/n/", "//"]).as_bytes()),
            Alt(alts) => {
                let live: Vec<&Vec<It>> = alts.iter().filter(|a| !a.is_empty()).collect();
                if !live.is_empty() {
                    let a = (*rng.pick(&live)).clone();
                    sample(rng, &a, out);
                }
            }
        }
    }
}

const PATH_PIECES: &[&str] = &[
    "a", "b", ".c", "foo", "bar", "/", "/", "x", "名", "é", "ab", "-", ",", ".", "..", " ", "b.c", "foo.", "]", "\\", "*", "{",
];

fn gen_path(rng: &mut Rng) -> Vec<u8> {
    let mut p: Vec<u8> = vec![];
    for _ in 0..rng.below(6) {
        p.extend(rng.pick(PATH_PIECES).as_bytes());
    }
    if rng.chance(1, 30) {
        p.push(*rng.pick(&[0xffu8, 0xc3, 0xa9, 0x0a, 0x00]));
    }
    p
}

fn mutate_path(rng: &mut Rng, p: &mut Vec<u8>) {
    match rng.below(6) {
        0 if !p.is_empty() => {
            let i = rng.below(p.len() as u64) as usize;
            p.remove(i);
        }
        1 => {
            let i = rng.below(p.len() as u64 + 1) as usize;
            p.insert(i, *rng.pick(&[b'a', b'/', b'.', b'x']));
        }
        2 => p.push(b'.'),
        3 => p.extend(b"/z"),
        _ => {}
    }
}

const RAW_PIECES: &[&str] = &[
    "*", "**", "?", "/", "a", "b", ".c", "foo", "/**", "**/", "/**/", "名", "é", "*.c", "x/", ",", "-", "[", "]", "[a-c]", "[!x]",
    "[^/]", "{", "}", "{a,b}", "{,}", "\\", "\\*", "\\,", "\\{", "\\/", "!", "^", "[]", "[]]", "[a-]", "[é-名]", "[z-a]", "{**", "**}",
    ",**", "***", ".", "*.", "**/foo.", "[à-é]", "\\\\",
];
const VOCAB: &[&str] = &["a", "b.c", "foo", "bar", "x", "名", "é", ".c", "foo.", "ab"];

fn gen_raw_glob(rng: &mut Rng) -> String {
    (0..rng.range(1, 6)).map(|_| *rng.pick(RAW_PIECES)).collect()
}

/// a well-formed pattern with one known defect: (text, expected error kind)
fn gen_malformed(rng: &mut Rng, stats: &mut BTreeMap<String, u64>) -> (String, String) {
    let base = text(&gen_seq(rng, true, VOCAB, stats));
    fn plain_of(rng: &mut Rng) -> String {
        text(&[Lit(*rng.pick(&['a', 'b', 'x', '.']), false)])
    }
    let (p1, p2) = (plain_of(rng), plain_of(rng));
    let plain = || p1.clone();
    let plain2 = || p2.clone();
    match rng.below(6) {
        0 => (format!("{}\\", base), "DanglingEscape".into()),
        1 => {
            let neg = *rng.pick(&["", "!", "^"]);
            let first = *rng.pick(&["", "]", "-"]);
            (format!("{}[{}{}{}", base, neg, first, plain()), "UnclosedClass".into())
        }
        2 => (format!("{}{{{}", base, plain()), "UnclosedAlternates".into()),
        3 => (format!("{}{{{},{}", base, plain(), plain2()), "UnclosedAlternates".into()),
        4 => (format!("{}{{{}{{{}}}}}", base, plain(), plain2()), "NestedAlternates".into()),
        _ => {
            let (lo, hi) = *rng.pick(&[('b', 'a'), ('z', 'Z'), ('é', 'à'), ('名', 'é'), ('a', '-'), ('é', 'a'), ('\u{800}', '\u{7ff}')]);
            (format!("{}[{}-{}]", base, lo, hi), format!("InvalidRange:{}:{}", lo as u32, hi as u32))
        }
    }
}

// ---------------------------------------------------------------------------------------------
// the real code

fn show_kind(k: &globset::ErrorKind) -> String {
    use globset::ErrorKind::*;
    match k {
        UnclosedClass => "UnclosedClass".into(),
        InvalidRange(lo, hi) => format!("InvalidRange:{}:{}", *lo as u32, *hi as u32),
        UnopenedAlternates => "UnopenedAlternates".into(),
        UnclosedAlternates => "UnclosedAlternates".into(),
        NestedAlternates => "NestedAlternates".into(),
        DanglingEscape => "DanglingEscape".into(),
        InvalidRecursive => "InvalidRecursive".into(),
        Regex(_) => "Regex".into(),
        _ => "other".into(),
    }
}

/// `Glob::new`: the regex text or the error kind
fn real_parse(g: &str) -> Result<globset::Glob, String> {
    globset::Glob::new(g).map_err(|e| show_kind(e.kind()))
}

fn show_parse(r: &Result<globset::Glob, String>) -> String {
    match r {
        Ok(gl) => format!("ok R{}", hex(gl.regex().as_bytes())),
        Err(k) => format!("err {}", k),
    }
}

/// (matcher, one-glob set)
fn real_match(gl: &globset::Glob, p: &[u8]) -> Result<(bool, bool), String> {
    let gl = gl.clone();
    let p = p.to_vec();
    guarded(move || {
        let path = OsStr::from_bytes(&p);
        let m = gl.compile_matcher().is_match(path);
        let mut b = globset::GlobSetBuilder::new();
        b.add(gl.clone());
        (m, b.build().unwrap().is_match(path))
    })
}

/// `to_globset(gs).is_match(p)`; Err = the `unwrap` panicked
fn real_set(gs: &[String], p: &[u8]) -> Result<bool, String> {
    let gs = gs.to_vec();
    let p = p.to_vec();
    guarded(move || {
        let mut b = globset::GlobSetBuilder::new();
        for g in &gs {
            b.add(globset::Glob::new(g).unwrap());
        }
        b.build().unwrap().is_match(OsStr::from_bytes(&p))
    })
}

fn bit(b: bool) -> &'static str {
    if b { "1" } else { "0" }
}

fn garg(g: &str) -> String {
    format!("g{}", hex(g.as_bytes()))
}

/// the precise predicate of finding ESCAPED_COMMA on a pattern text: inside braces, an escaped
/// ',' or '{' right before `**` that is followed by ',' '}' or '/'
fn escaped_comma_shape(g: &str) -> bool {
    let cs: Vec<char> = g.chars().collect();
    let mut depth = 0;
    let mut i = 0;
    while i < cs.len() {
        match cs[i] {
            '\\' => {
                if depth > 0
                    && i + 3 < cs.len()
                    && (cs[i + 1] == ',' || cs[i + 1] == '{')
                    && cs[i + 2] == '*'
                    && cs[i + 3] == '*'
                    && (i + 4 == cs.len() || matches!(cs[i + 4], ',' | '}' | '/'))
                {
                    return true;
                }
                i += 1;
            }
            '[' => {
                // skip the class
                let mut j = i + 1;
                if j < cs.len() && (cs[j] == '!' || cs[j] == '^') {
                    j += 1;
                }
                if j < cs.len() && cs[j] == ']' {
                    j += 1;
                }
                while j < cs.len() && cs[j] != ']' {
                    j += 1;
                }
                i = j;
            }
            '{' => depth += 1,
            '}' => depth = 0,
            _ => {}
        }
        i += 1;
    }
    false
}

// ---------------------------------------------------------------------------------------------
// streams

struct Pair {
    glob: String,
    path: Vec<u8>,
    /// the AST's answer when the pattern came from the AST generator
    expect: Option<bool>,
}

fn pair_json(op: &str, pr: &Pair) -> Value {
    json!({"op": op, "glob": pr.glob, "path_hex": hex(&pr.path), "expect": pr.expect})
}

/// judge one (pattern, path) pair on the implementation alone; (what, finding)
fn pair_oracle(pr: &Pair) -> Option<(String, Option<&'static str>)> {
    let parsed = real_parse(&pr.glob);
    let gl = match (&parsed, pr.expect) {
        (Err(k), Some(_)) => return Some((format!("a well-formed pattern is refused: {}", k), None)),
        (Err(_), None) => return None,
        (Ok(gl), _) => gl,
    };
    let (m, s) = match real_match(gl, &pr.path) {
        Ok(x) => x,
        Err(p) => return Some((format!("matching panics: {}", p), None)),
    };
    if let Some(e) = pr.expect {
        if m != e {
            let f = if escaped_comma_shape(&pr.glob) { Some(ESCAPED_COMMA) } else { None };
            return Some((format!("the pattern {:?} {} {:?} by its text, the matcher says {}", pr.glob,
                if e { "matches" } else { "does not match" }, String::from_utf8_lossy(&pr.path), m), f));
        }
    }
    if m != s {
        let f = if pr.path.last() == Some(&b'.') && m && !s { Some(TRAILING_DOT) } else { None };
        return Some((format!("GlobSet::is_match is {} but the glob's own matcher is {} for {:?} on {:?}", s, m, pr.glob,
            String::from_utf8_lossy(&pr.path)), f));
    }
    None
}

fn shrink_pair(pr: &Pair, still: &dyn Fn(&Pair) -> bool) -> Pair {
    // only the path can be shrunk without the AST; the pattern is kept
    let mut cur = Pair { glob: pr.glob.clone(), path: pr.path.clone(), expect: pr.expect };
    if pr.expect.is_some() {
        return cur;
    }
    loop {
        let mut progress = false;
        for i in 0..cur.path.len() {
            let mut p = cur.path.clone();
            p.remove(i);
            let c = Pair { glob: cur.glob.clone(), path: p, expect: None };
            if still(&c) {
                cur = c;
                progress = true;
                break;
            }
        }
        let cs: Vec<char> = cur.glob.chars().collect();
        for i in 0..cs.len() {
            let g: String = cs.iter().enumerate().filter(|(j, _)| *j != i).map(|(_, c)| *c).collect();
            let c = Pair { glob: g, path: cur.path.clone(), expect: None };
            if still(&c) {
                cur = c;
                progress = true;
                break;
            }
        }
        if !progress {
            return cur;
        }
    }
}

fn run_pairs(rep: &mut Report, pairs: &[Pair], tag: &str) {
    let mut reqs = vec![];
    let mut outs = vec![];
    for pr in pairs {
        let parsed = real_parse(&pr.glob);
        // parse
        reqs.push(format!("c11.glob.parse {}", garg(&pr.glob)));
        outs.push(show_parse(&parsed));
        // match
        reqs.push(format!("c11.glob.match {} p{}", garg(&pr.glob), hex(&pr.path)));
        outs.push(match &parsed {
            Err(k) => {
                rep.count(&format!("glob.parse.err.{}", k.split(':').next().unwrap()));
                format!("err {}", k)
            }
            Ok(gl) => {
                rep.count("glob.parse.ok");
                match real_match(gl, &pr.path) {
                    Ok((m, s)) => {
                        rep.count(if m { "glob.x.match" } else { "glob.x.nomatch" });
                        format!("ok {}{}", bit(m), bit(s))
                    }
                    Err(_) => "panic".to_string(),
                }
            }
        });
        let meta = pr.glob.chars().any(|c| "[{\\".contains(c)) || pr.glob.contains("**");
        rep.case(&format!("glob {} {}", pr.glob, hex(&pr.path)), meta);
    }
    let model = run_model_named("gm_c11", &reqs, &rep.workdir, tag);
    for (i, pr) in pairs.iter().enumerate() {
        if i == 0 {
            rep.sample(json!({"case": pair_json("c11.glob.match", pr), "impl": [outs[0].clone(), outs[1].clone()], "model": [model[0].clone(), model[1].clone()]}));
        }
        match pair_oracle(pr) {
            Some((what, finding)) => {
                let seen = rep.failures.iter().filter(|f| f.finding.as_deref() == finding).count();
                let small = if seen < 6 {
                    shrink_pair(pr, &|c| matches!(pair_oracle(c), Some((_, f)) if f == finding))
                } else {
                    Pair { glob: pr.glob.clone(), path: pr.path.clone(), expect: pr.expect }
                };
                let what = pair_oracle(&small).map(|x| x.0).unwrap_or(what);
                rep.fail("oracle", finding, what, pair_json("c11.glob.match", &small));
            }
            None => {}
        }
        for j in [2 * i, 2 * i + 1] {
            if outs[j] != model[j] {
                rep.disagreements_checked += 1;
                let few = rep.failures.iter().filter(|f| f.kind == "disagreement").count() < 6;
                let wd = rep.workdir.clone();
                let small = if !few { Pair { glob: pr.glob.clone(), path: pr.path.clone(), expect: None } } else {
                    shrink_pair(&Pair { glob: pr.glob.clone(), path: pr.path.clone(), expect: None }, &|c| {
                        let (rq, out) = pair_requests(c);
                        run_model_named("gm_c11", &rq, &wd, "shrink") != out
                    })
                };
                let (rq, out) = pair_requests(&small);
                let m = run_model_named("gm_c11", &rq, &rep.workdir, "shrink");
                let mut cj = pair_json("c11.glob.match", &small);
                cj["impl"] = json!(out);
                cj["model"] = json!(m);
                rep.fail("disagreement", None,
                    "globset differs from the GlobSyntax model (parse kind / regex text / matcher / set)".into(), cj);
                break;
            }
        }
    }
}

/// the two requests of a pair and the implementation's answers
fn pair_requests(pr: &Pair) -> (Vec<String>, Vec<String>) {
    let parsed = real_parse(&pr.glob);
    let reqs = vec![
        format!("c11.glob.parse {}", garg(&pr.glob)),
        format!("c11.glob.match {} p{}", garg(&pr.glob), hex(&pr.path)),
    ];
    let m = match &parsed {
        Err(k) => format!("err {}", k),
        Ok(gl) => match real_match(gl, &pr.path) {
            Ok((m, s)) => format!("ok {}{}", bit(m), bit(s)),
            Err(_) => "panic".to_string(),
        },
    };
    (reqs, vec![show_parse(&parsed), m])
}

fn ast_stream(rep: &mut Report, rng: &mut Rng) {
    let n = rep.budget(8_000, 10);
    let mut stats = BTreeMap::new();
    let mut pairs = vec![];
    for _ in 0..n {
        let its = gen_seq(rng, true, VOCAB, &mut stats);
        kinds(&its, &mut stats);
        let glob = text(&its);
        let mut path = vec![];
        if rng.chance(3, 4) {
            sample(rng, &its, &mut path);
            if rng.chance(1, 3) {
                mutate_path(rng, &mut path);
            }
        } else {
            path = gen_path(rng);
        }
        let expect = ast_match(&its, &path);
        rep.count(if expect { "glob.ast.expect_match" } else { "glob.ast.expect_nomatch" });
        pairs.push(Pair { glob, path, expect: Some(expect) });
    }
    for (k, v) in stats {
        rep.count_n(&k, v);
    }
    run_pairs(rep, &pairs, "globast");
}

fn raw_stream(rep: &mut Report, rng: &mut Rng) {
    let n = rep.budget(8_000, 10);
    let mut pairs = vec![];
    for _ in 0..n {
        let glob = gen_raw_glob(rng);
        let mut path = gen_path(rng);
        if rng.chance(1, 2) {
            // the pattern's own text with the metacharacters taken out or filled in
            let s = glob
                .replace("**", *rng.pick(&["x/ab", "", "/"]))
                .replace('*', *rng.pick(&["", "a", "x/b"]))
                .replace('?', *rng.pick(&["a", "/"]))
                .replace(['[', ']', '{', '}', '\\', '!', '^'], "");
            path = s.into_bytes();
        }
        rep.count("glob.raw");
        pairs.push(Pair { glob, path, expect: None });
    }
    run_pairs(rep, &pairs, "globraw");
}

/// a well-formed pattern with one known defect is refused with the kind of that defect
fn malformed_stream(rep: &mut Report, rng: &mut Rng) {
    let n = rep.budget(1_500, 10);
    let mut stats = BTreeMap::new();
    let mut reqs = vec![];
    let mut outs = vec![];
    let mut globs = vec![];
    for _ in 0..n {
        let (g, want) = gen_malformed(rng, &mut stats);
        let got = show_parse(&real_parse(&g));
        rep.case(&format!("malformed {}", g), true);
        rep.count(&format!("glob.malformed.{}", want.split(':').next().unwrap()));
        if got != format!("err {}", want) {
            rep.fail("oracle", None, format!("the pattern {:?} has the defect {} but Glob::new answers {}", g, want, got),
                json!({"op": "c11.glob.parse", "glob": g, "want": want}));
        }
        reqs.push(format!("c11.glob.parse {}", garg(&g)));
        outs.push(got);
        globs.push(g);
    }
    let model = run_model_named("gm_c11", &reqs, &rep.workdir, "globbad");
    for i in 0..reqs.len() {
        if outs[i] != model[i] {
            rep.disagreements_checked += 1;
            rep.fail("disagreement", None, "Glob::new differs from GlobSyntax.parse on a malformed pattern".into(),
                json!({"op": "c11.glob.parse", "glob": globs[i], "impl": outs[i], "model": model[i]}));
        }
    }
}

fn gen_any_glob(rng: &mut Rng, stats: &mut BTreeMap<String, u64>) -> String {
    match rng.below(10) {
        0 => gen_malformed(rng, stats).0,
        1 | 2 | 3 => gen_raw_glob(rng),
        _ => text(&gen_seq(rng, true, VOCAB, stats)),
    }
}

/// sets of several patterns, built the way `to_globset` builds them
fn set_stream(rep: &mut Report, rng: &mut Rng) {
    let n = rep.budget(4_000, 10);
    let mut stats = BTreeMap::new();
    let mut reqs = vec![];
    let mut outs = vec![];
    let mut cases = vec![];
    for _ in 0..n {
        let gs: Vec<String> = (0..rng.below(4)).map(|_| gen_any_glob(rng, &mut stats)).collect();
        let path = gen_path(rng);
        let r = real_set(&gs, &path);
        let out = match &r {
            Ok(b) => bit(*b).to_string(),
            Err(_) => "panic".to_string(),
        };
        // oracle: the set panics iff some pattern does not parse; otherwise it matches iff some
        // pattern's own matcher does
        let parsed: Vec<Result<globset::Glob, String>> = gs.iter().map(|g| real_parse(g)).collect();
        let any_bad = parsed.iter().any(|p| p.is_err());
        let case = json!({"op": "c11.glob.set", "globs": gs, "path_hex": hex(&path)});
        rep.count(if any_bad { "glob.set.invalid_pattern" } else if gs.is_empty() { "glob.set.empty" } else { "glob.set.valid" });
        match &r {
            Err(_) if !any_bad => rep.fail("oracle", None, "a set of well-formed patterns panics".into(), case.clone()),
            Ok(_) if any_bad => rep.fail("oracle", None, "a pattern that does not parse is accepted by to_globset".into(), case.clone()),
            Ok(b) => {
                let single: Vec<bool> = parsed
                    .iter()
                    .map(|p| p.as_ref().unwrap().compile_matcher().is_match(OsStr::from_bytes(&path)))
                    .collect();
                let any = single.iter().any(|x| *x);
                if any != *b {
                    let f = if path.last() == Some(&b'.') && any && !*b { Some(TRAILING_DOT) } else { None };
                    rep.fail("oracle", f, format!("GlobSet::is_match is {} but the matchers of its globs say {:?}", b, single), case.clone());
                }
            }
            _ => {}
        }
        rep.case(&format!("set {:?} {}", gs, hex(&path)), gs.len() > 1);
        reqs.push(format!("c11.glob.set I{} p{}", gs.iter().map(|g| garg(g)).collect::<Vec<_>>().join(","), hex(&path)));
        outs.push(out);
        cases.push(case);
    }
    let model = run_model_named("gm_c11", &reqs, &rep.workdir, "globset");
    for i in 0..reqs.len() {
        if outs[i] != model[i] {
            rep.disagreements_checked += 1;
            let mut cj = cases[i].clone();
            cj["impl"] = json!(outs[i]);
            cj["model"] = json!(model[i]);
            rep.fail("disagreement", None, "to_globset(..).is_match differs from GlobSyntax.setIsMatch".into(), cj);
        }
    }
}

// ---------------------------------------------------------------------------------------------
// rewrite_paths with patterns of the whole language

/// a pattern written around a path of the tree, so that it often matches
fn generalise(rng: &mut Rng, path: &str, stats: &mut BTreeMap<String, u64>) -> String {
    let comps: Vec<&str> = path.split('/').collect();
    let mut its: Vec<It> = vec![];
    let mut start = 0;
    if comps.len() > 1 && rng.chance(1, 3) {
        its.push(RecPrefix);
        start = rng.range(1, comps.len() as u64 - 1) as usize;
    }
    for (ci, comp) in comps.iter().enumerate().skip(start) {
        if ci > start {
            if rng.chance(1, 5) {
                its.push(RecMid);
            } else {
                its.push(Lit('/', false));
            }
        }
        if ci + 1 < comps.len() && ci > start && rng.chance(1, 8) {
            // the rest of the path
            its.pop();
            its.push(RecSuffix);
            break;
        }
        match rng.below(8) {
            0 => its.push(Star),
            1 => {
                let other = rng.pick(DIRS).to_string();
                let mut alts = vec![comp.chars().map(|c| Lit(c, false)).collect::<Vec<_>>(), other.chars().map(|c| Lit(c, false)).collect()];
                if rng.chance(1, 4) {
                    alts.push(vec![]);
                }
                if rng.chance(1, 2) {
                    alts.reverse();
                }
                its.push(Alt(alts));
            }
            _ => {
                let cs: Vec<char> = comp.chars().collect();
                let mut i = 0;
                while i < cs.len() {
                    let c = cs[i];
                    match rng.below(12) {
                        0 => its.push(Any),
                        1 => its.push(gen_class(rng, Some(c))),
                        2 if !its.last().map(star_like).unwrap_or(false) => {
                            its.push(Star);
                            i += rng.below(3) as usize;
                        }
                        3 => its.push(Lit(c, true)),
                        _ => its.push(Lit(c, false)),
                    }
                    i += 1;
                }
            }
        }
    }
    kinds(&its, stats);
    text(&its)
}

fn rewrite_stream(rep: &mut Report, rng: &mut Rng) {
    let base = rep.workdir.join("fsglob");
    let n_trees = rep.budget(3, 3);
    let per_tree = rep.budget(600, 6) / n_trees.max(1);
    for ti in 0..n_trees {
        let t = build_tree(rng, &base, 700 + ti);
        std::env::set_current_dir(&t.cw).unwrap();
        let files = t.real_files_under("src");
        let mut reqs = vec![];
        let mut outs = vec![];
        let mut cases: Vec<Case> = vec![];
        let mut stats: BTreeMap<String, u64> = BTreeMap::new();
        for _ in 0..per_tree {
            let mut case = gen_case(rng, &t, true, &mut stats);
            let pats = |rng: &mut Rng, stats: &mut BTreeMap<String, u64>, k: u64| -> Vec<String> {
                (0..k)
                    .map(|_| {
                        if !files.is_empty() && rng.chance(3, 4) {
                            let f = rng.pick(&files).clone();
                            let rel = f.strip_prefix("src/").unwrap_or(&f).to_string();
                            generalise(rng, &rel, stats)
                        } else if rng.chance(1, 6) {
                            gen_malformed(rng, stats).0
                        } else {
                            gen_any_glob(rng, stats)
                        }
                    })
                    .collect()
            };
            let ni = *rng.pick(&[0u64, 1, 1, 2]);
            let nk = *rng.pick(&[0u64, 0, 1, 2]);
            case.cfg.ignore = pats(rng, &mut stats, ni);
            case.cfg.keep = pats(rng, &mut stats, nk);
            let r = run_impl(&case.cfg, &case.entries);
            let any_bad = case.cfg.ignore.iter().chain(case.cfg.keep.iter()).any(|g| real_parse(g).is_err());
            rep.count(if any_bad { "glob.rewrite.invalid_pattern" } else { "glob.rewrite.valid_patterns" });
            if any_bad && r.is_ok() {
                rep.fail("oracle", None, "rewrite_paths accepts a pattern that does not parse".into(), case.to_json("c11.glob.rewrite", &t));
            }
            match &r {
                Err(_) => rep.count("glob.rewrite.out.panic"),
                Ok(v) => {
                    rep.count_n("glob.rewrite.out.reported", v.len() as u64);
                    rep.count_n("glob.rewrite.out.dropped", (case.entries.len() - v.len()) as u64);
                }
            }
            // partition oracle: with G = the ignore set, --ignore G and --keep-only G split the
            // unfiltered report (judged on the implementation alone)
            if !any_bad && !case.cfg.ignore.is_empty() {
                let g = case.cfg.ignore.clone();
                let neutral = Cfg { ignore: vec![], keep: vec![], ..case.cfg.clone() };
                let ig = Cfg { ignore: g.clone(), keep: vec![], ..case.cfg.clone() };
                let kp = Cfg { ignore: vec![], keep: g.clone(), ..case.cfg.clone() };
                if let (Ok(a), Ok(b), Ok(c)) = (run_impl(&neutral, &case.entries), run_impl(&ig, &case.entries), run_impl(&kp, &case.entries)) {
                    let key = |r: &Recs| { let mut v: Vec<String> = r.iter().map(|x| format!("{} {}", x.1, marker(&x.2))).collect(); v.sort(); v };
                    let mut both = key(&b);
                    both.extend(key(&c));
                    both.sort();
                    rep.count("glob.rewrite.partition_checked");
                    if both != key(&a) {
                        rep.fail("oracle", None, format!("--ignore G and --keep-only G do not partition the unfiltered report for G = {:?}", g),
                            case.to_json("c11.glob.rewrite", &t));
                    }
                }
            }
            let req = request("c11.glob.rewrite", &t, &case.cfg, &case.entries);
            rep.case(&req, !case.cfg.ignore.is_empty() || !case.cfg.keep.is_empty());
            reqs.push(req);
            outs.push(show_recs(&r));
            cases.push(case);
        }
        for (k, v) in stats {
            if k.starts_with("glob.") {
                rep.count_n(&k, v);
            }
        }
        let model = run_model_named("gm_c11", &reqs, &rep.workdir, &format!("globrw{}", ti));
        for i in 0..reqs.len() {
            if i == 0 {
                rep.sample(json!({"case": cases[i].to_json("c11.glob.rewrite", &t), "impl": outs[i], "model": model[i]}));
            }
            if outs[i] != model[i] {
                rep.disagreements_checked += 1;
                let mut cj = cases[i].to_json("c11.glob.rewrite", &t);
                cj["impl"] = json!(outs[i]);
                cj["model"] = json!(model[i]);
                rep.fail("disagreement", None,
                    "rewrite_paths differs from GlobSyntax.rewritePathsG (theorems C11_glob_* no longer transfer)".into(), cj);
            }
        }
    }
    std::env::set_current_dir("/verif").unwrap();
}

/// the binary with a pattern that does not parse: the main thread panics in `to_globset`
/// (exit code 101), after the inputs were read, and no report is written
fn cli_stream(rep: &mut Report, rng: &mut Rng) {
    use corrlib::pipe::{grcov_bin, run_grcov, RunCfg};
    if !grcov_bin().exists() {
        // `check` builds the binary only for the properties of its NEED_BIN list (C11 is not one)
        rep.count("glob.cli.skipped_binary_not_built");
        rep.notes.push("part Glob: the CLI runs with a pattern that does not parse were skipped (no grcov binary in harness/target-grcov; it is built by `./check` of C02/C03/C05/…); the library-level tie of the same `unwrap` ran".into());
        return;
    }
    let n = rep.budget(4, 2);
    let mut stats = BTreeMap::new();
    for c in 0..n {
        let root = rep.workdir.join(format!("globcli{}", c));
        let _ = std::fs::remove_dir_all(&root);
        std::fs::create_dir_all(&root).unwrap();
        std::fs::write(root.join("in.info"), "SF:foo/a.c\nDA:1,1\nend_of_record\nSF:b.c\nDA:2,0\nend_of_record\n").unwrap();
        let (bad, kind) = gen_malformed(rng, &mut stats);
        let valid = c % 3 == 2;
        let pat = if valid { "{foo,bar}/[a-c].c".to_string() } else { bad };
        let opt = if rng.chance(1, 2) { "--ignore" } else { "--keep-only" };
        let extra: Vec<String> = vec!["-t".into(), "lcov".into(), format!("{}={}", opt, pat)];
        let out = run_grcov(&RunCfg { dir: &root, args: vec!["in.info".into()], threads: 1, perturb: None, fault: None,
            limit: std::time::Duration::from_secs(60), extra: extra.clone() });
        rep.case(&format!("cli {} {}", opt, pat), true);
        let case = json!({"op": "c11.glob.cli", "option": opt, "pattern": pat, "kind": kind});
        // the model's verdict for this pattern
        let model = run_model_named("gm_c11", &[format!("c11.glob.set I{} p", garg(&pat))], &rep.workdir, "globcli");
        let model_panics = model[0] == "panic";
        if valid {
            rep.count("glob.cli.valid_pattern");
            let sfs: Vec<&str> = out.stdout.lines().filter_map(|l| l.strip_prefix("SF:")).collect();
            let want: Vec<&str> = if opt == "--ignore" { vec!["b.c"] } else { vec!["foo/a.c"] };
            if out.exit != Some(0) || sfs != want || model_panics {
                rep.fail("oracle", None, format!("{} {}: exit {:?}, files {:?}, expected {:?}", opt, pat, out.exit, sfs, want), case);
            }
        } else {
            rep.count("glob.cli.invalid_pattern");
            if out.exit != Some(101) || out.stdout.contains("SF:") {
                rep.fail("oracle", None, format!("a pattern that does not parse ({}): exit {:?}, stdout {:?}", kind, out.exit, out.stdout), case);
            } else if !model_panics {
                rep.fail("disagreement", None, "the binary panics on a pattern the model accepts".into(), case);
            }
        }
    }
}

/// closed witnesses of Props/C11Glob.lean replayed on the real code
fn witnesses(rep: &mut Report) {
    // (pattern, path, matcher, set)
    let w: Vec<(&str, &[u8], bool, bool)> = vec![
        ("*.", &b"foo."[..], true, false),          // C11_glob_set_agrees_false
        ("**/foo.", &b"a/foo."[..], true, false),
        ("a*b.", &b"ab."[..], true, false),
        ("{a\\,**}", &b"a/x"[..], true, true),      // the escaped comma is gone
        ("{a\\,**}", &b"a,x"[..], false, false),
        ("{a[,]**}", &b"a,x"[..], true, true),
        ("a{,b}", &b"a"[..], false, false),          // an empty alternative is dropped
        ("a}c", &b"ac"[..], true, true),             // '}' alone means nothing
        ("[\u{e9}]", "\u{e9}".as_bytes(), false, false), // a class is a class of bytes
        ("[\u{e9}]", &[0xc3u8][..], true, true),
        ("a/**/c", &b"a/c"[..], true, true),
        ("a/**/c", &b"a/x/y/c"[..], true, true),
        ("**/x", &b"x"[..], true, true),
        ("**/x", &b"d/e/x"[..], true, true),
        ("\\*\\?\\[\\{", &b"*?[{"[..], true, true),
    ];
    let mut reqs = vec![];
    let mut outs = vec![];
    for (g, p, m, s) in &w {
        let gl = real_parse(g).expect("witness pattern parses");
        let got = real_match(&gl, p).unwrap();
        rep.case(&format!("witness {} {}", g, hex(p)), true);
        rep.count("glob.witness");
        if got != (*m, *s) {
            rep.fail("disagreement", None, format!("witness {:?} on {:?} no longer behaves as proved: {:?}", g, String::from_utf8_lossy(p), got),
                json!({"op": "c11.glob.match", "glob": g, "path_hex": hex(p), "expect": Value::Null}));
        }
        reqs.push(format!("c11.glob.match {} p{}", garg(g), hex(p)));
        outs.push(format!("ok {}{}", bit(*m), bit(*s)));
    }
    let model = run_model_named("gm_c11", &reqs, &rep.workdir, "globwit");
    for i in 0..reqs.len() {
        if model[i] != outs[i] {
            rep.fail("disagreement", None, format!("the driver does not reproduce the Lean witness {}: {}", reqs[i], model[i]),
                json!({"op": "c11.glob.match", "glob": w[i].0, "path_hex": hex(w[i].1), "expect": Value::Null}));
        }
    }
}

pub fn run(rep: &mut Report) {
    let mut rng = Rng::new(fnv64(&(rep.seed ^ 0xC11_610B).to_le_bytes()));
    witnesses(rep);
    ast_stream(rep, &mut rng);
    raw_stream(rep, &mut rng);
    malformed_stream(rep, &mut rng);
    set_stream(rep, &mut rng);
    rewrite_stream(rep, &mut rng);
    cli_stream(rep, &mut rng);
    rep.notes.push("part Glob (src/globsyntax.rs): patterns of the whole globset language from an AST generator judged by an \
        independent matcher (literals, escapes, ?, *, ** in every position, classes with ranges / negation / non-ASCII members, \
        alternation with empty alternatives), a raw piece stream and a malformed stream with a known defect; paths are byte strings \
        (non-ASCII, '/'-heavy, empty, trailing '.', stray bytes); outside: the glob options grcov never sets (case_insensitive, \
        literal_separator, empty_alternates, backslash_escape off), patterns longer than ~40 chars, regex size limits".into());
}

pub fn replay(rep: &mut Report, case: &Value) {
    match case["op"].as_str().unwrap_or("") {
        "c11.glob.match" => {
            let pr = Pair {
                glob: case["glob"].as_str().unwrap().to_string(),
                path: unhex(case["path_hex"].as_str().unwrap()),
                expect: case["expect"].as_bool(),
            };
            rep.case(&format!("glob {} {}", pr.glob, hex(&pr.path)), true);
            if let Some((what, f)) = pair_oracle(&pr) {
                rep.fail("oracle", f, what, case.clone());
                return;
            }
            let (rq, out) = pair_requests(&pr);
            let m = run_model_named("gm_c11", &rq, &rep.workdir, "replay");
            if m != out {
                rep.fail("disagreement", None, "globset differs from the GlobSyntax model".into(), case.clone());
            }
        }
        "c11.glob.parse" => {
            let g = case["glob"].as_str().unwrap().to_string();
            let got = show_parse(&real_parse(&g));
            rep.case(&format!("malformed {}", g), true);
            if let Some(w) = case["want"].as_str() {
                if got != format!("err {}", w) {
                    rep.fail("oracle", None, format!("the pattern {:?} has the defect {} but Glob::new answers {}", g, w, got), case.clone());
                    return;
                }
            }
            let m = run_model_named("gm_c11", &[format!("c11.glob.parse {}", garg(&g))], &rep.workdir, "replay");
            if m[0] != got {
                rep.fail("disagreement", None, "Glob::new differs from GlobSyntax.parse".into(), case.clone());
            }
        }
        "c11.glob.set" => {
            let gs: Vec<String> = case["globs"].as_array().unwrap().iter().map(|g| g.as_str().unwrap().to_string()).collect();
            let path = unhex(case["path_hex"].as_str().unwrap());
            let r = real_set(&gs, &path);
            rep.case(&format!("set {:?} {}", gs, hex(&path)), true);
            let parsed: Vec<Result<globset::Glob, String>> = gs.iter().map(|g| real_parse(g)).collect();
            let any_bad = parsed.iter().any(|p| p.is_err());
            match &r {
                Err(_) if !any_bad => return rep.fail("oracle", None, "a set of well-formed patterns panics".into(), case.clone()),
                Ok(_) if any_bad => return rep.fail("oracle", None, "a pattern that does not parse is accepted".into(), case.clone()),
                Ok(b) => {
                    let any = parsed.iter().any(|p| p.as_ref().unwrap().compile_matcher().is_match(OsStr::from_bytes(&path)));
                    if any != *b {
                        let f = if path.last() == Some(&b'.') && any && !*b { Some(TRAILING_DOT) } else { None };
                        return rep.fail("oracle", f, "GlobSet::is_match differs from the matchers of its globs".into(), case.clone());
                    }
                }
                _ => {}
            }
            let out = match &r { Ok(b) => bit(*b).to_string(), Err(_) => "panic".to_string() };
            let req = format!("c11.glob.set I{} p{}", gs.iter().map(|g| garg(g)).collect::<Vec<_>>().join(","), hex(&path));
            let m = run_model_named("gm_c11", &[req], &rep.workdir, "replay");
            if m[0] != out {
                rep.fail("disagreement", None, "to_globset(..).is_match differs from GlobSyntax.setIsMatch".into(), case.clone());
            }
        }
        "c11.glob.rewrite" => {
            let base = rep.workdir.join("fsglob");
            let t = tree_from_json(&base, &case["tree"]);
            std::env::set_current_dir(&t.cw).unwrap();
            let c = Case::from_json(case);
            let r = run_impl(&c.cfg, &c.entries);
            let req = request("c11.glob.rewrite", &t, &c.cfg, &c.entries);
            rep.case(&req, true);
            let any_bad = c.cfg.ignore.iter().chain(c.cfg.keep.iter()).any(|g| real_parse(g).is_err());
            if any_bad && r.is_ok() {
                rep.fail("oracle", None, "rewrite_paths accepts a pattern that does not parse".into(), case.clone());
            } else {
                let m = run_model_named("gm_c11", &[req], &rep.workdir, "replay");
                if m[0] != show_recs(&r) {
                    rep.fail("disagreement", None, "rewrite_paths differs from GlobSyntax.rewritePathsG".into(), case.clone());
                }
            }
            std::env::set_current_dir("/verif").unwrap();
        }
        _ => {}
    }
}
