//! C11 — file selection and path rewriting: ties `grcov::rewrite_paths`, `normalize_path`,
//! `is_covered`, `std::path` and `globset` to the Lean models (UPath / Glob / Rewrite, driver
//! `gm_c11`) and evaluates the property oracles on the implementation.
mod pathgen;
mod partial;
mod idem;
mod globsyntax;
mod filter;
mod cli;
use corrlib::*;
use pathgen::*;
use serde_json::json;
use std::collections::BTreeMap;
use std::path::Path;

const PIECES: &[&str] = &[
    "a", "b.c", "foo", "bar", ".", "..", "/", "//", "./", "../", "名", " ", "..a", "a..", "...", ".c", "/.", "/..",
];

fn gen_raw(rng: &mut Rng) -> String {
    let n = rng.below(7);
    let mut s = String::new();
    for _ in 0..n {
        s.push_str(*rng.pick(PIECES));
        if rng.chance(1, 2) {
            s.push('/');
        }
    }
    if rng.chance(1, 6) {
        s.insert(0, '/');
    }
    s
}

fn h(tag: char, s: &str) -> String {
    format!("{}{}", tag, hex(s.as_bytes()))
}
fn show_opt(o: Option<&str>) -> String {
    match o {
        None => "none".into(),
        Some(s) => format!("some:{}", hex(s.as_bytes())),
    }
}

/// std::path and grcov::normalize_path against UPath
fn path_ops(rep: &mut Report, rng: &mut Rng) {
    let n = rep.budget(6_000, 10);
    let mut reqs = vec![];
    let mut outs = vec![];
    for _ in 0..n {
        let p = gen_raw(rng);
        let q = if rng.chance(1, 2) {
            // a component-wise prefix / suffix of p, respelled
            let cs: Vec<&str> = p.split('/').collect();
            let k = rng.below(cs.len() as u64 + 1) as usize;
            let mut q = if rng.chance(1, 2) { cs[..k].join("/") } else { cs[k..].join("/") };
            if rng.chance(1, 4) {
                q.push('/');
            }
            if rng.chance(1, 6) {
                q = q.replace('/', "//");
            }
            q
        } else {
            gen_raw(rng)
        };
        let pp = Path::new(&p);
        let qp = Path::new(&q);
        let (req, out) = match rng.below(7) {
            0 => {
                use std::path::Component::*;
                let cs: Vec<String> = pp
                    .components()
                    .map(|c| match c {
                        RootDir => "R".to_string(),
                        CurDir => "C".to_string(),
                        ParentDir => "P".to_string(),
                        Normal(n) => format!("N{}", hex(n.to_str().unwrap().as_bytes())),
                        Prefix(_) => "X".to_string(),
                    })
                    .collect();
                (
                    format!("comps {}", h('p', &p)),
                    if cs.is_empty() { "-".to_string() } else { cs.join(",") },
                )
            }
            1 => (
                format!("parent {}", h('p', &p)),
                show_opt(pp.parent().map(|x| x.to_str().unwrap())),
            ),
            2 => (
                format!("ancestors {}", h('p', &p)),
                pp.ancestors()
                    .map(|a| h('a', a.to_str().unwrap()))
                    .collect::<Vec<_>>()
                    .join(","),
            ),
            3 => (
                format!("strip {} {}", h('p', &p), h('b', &q)),
                show_opt(pp.strip_prefix(qp).ok().map(|x| x.to_str().unwrap())),
            ),
            4 => (
                format!("push {} {}", h('a', &p), h('b', &q)),
                h('p', pp.join(qp).to_str().unwrap()),
            ),
            5 => (
                format!("ends {} {}", h('p', &p), h('c', &q)),
                (if pp.ends_with(qp) { "1" } else { "0" }).to_string(),
            ),
            _ => {
                let r = guarded(|| grcov::normalize_path(Path::new(&p)));
                let out = match &r {
                    Ok(o) => show_opt(o.as_ref().map(|x| x.to_str().unwrap())),
                    Err(_) => "panic".to_string(),
                };
                // oracles: None iff some ".." pops past the start; Some is the stack normal form
                if let Ok(o) = &r {
                    let got = o.as_ref().map(|x| x.to_str().unwrap().to_string());
                    if got.is_none() != spec_escapes(&p) {
                        rep.fail("oracle", None,
                            "normalize_path: dropped iff some '..' pops past the start fails".into(),
                            json!({"op": "norm", "path": p}));
                    } else if got != spec_normalize(&p) {
                        rep.fail("oracle", None,
                            "normalize_path: result is not the lexical normal form".into(),
                            json!({"op": "norm", "path": p}));
                    } else if let Some(g) = &got {
                        if !normal_form(g) {
                            rep.fail("oracle", None, "normalize_path: output not in normal form".into(),
                                json!({"op": "norm", "path": p}));
                        }
                    }
                    rep.count(if got.is_none() { "norm.escapes" } else { "norm.some" });
                }
                (format!("norm {}", h('p', &p)), out)
            }
        };
        rep.case(&req, p.contains("..") || p.contains("//") || p.contains("/."));
        rep.count(&format!("pathop.{}", req.split(' ').next().unwrap()));
        reqs.push(req);
        outs.push(out);
    }
    let model = run_model_named("gm_c11", &reqs, &rep.workdir, "pathops");
    for i in 0..reqs.len() {
        if i == 0 {
            rep.sample(json!({"request": reqs[i], "impl": outs[i], "model": model[i]}));
        }
        if outs[i] != model[i] {
            rep.disagreements_checked += 1;
            rep.fail("disagreement", None,
                "std::path / normalize_path differs from the UPath model".into(),
                json!({"op": "pathop", "request": reqs[i], "impl": outs[i], "model": model[i]}));
        }
    }
}

const GPIECES: &[&str] = &[
    "*", "**", "?", "/", "a", "b", ".c", "foo", "bar", "/**", "**/", "/**/", "名", "*.c", "x/", ",", "-",
];
const PPIECES: &[&str] = &["a", "b", ".c", "foo", "bar", "/", "x", "名", "ab", "-", ","];

/// globset against Glob
fn glob_ops(rep: &mut Report, rng: &mut Rng) {
    let n = rep.budget(6_000, 10);
    let mut reqs = vec![];
    let mut outs = vec![];
    for _ in 0..n {
        let g = if rng.chance(1, 3) {
            rng.pick(GLOBS).to_string()
        } else {
            (0..rng.range(1, 5)).map(|_| *rng.pick(GPIECES)).collect::<String>()
        };
        let mut p: String = (0..rng.below(7)).map(|_| *rng.pick(PPIECES)).collect();
        if rng.chance(1, 2) {
            // a path built from the glob's own literals, so that matches are frequent
            p = g
                .replace("**", if rng.chance(1, 2) { "x/ab" } else { "" })
                .replace('*', *rng.pick(&["", "a", "x/b"]))
                .replace('?', *rng.pick(&["a", "/", "名"]));
        }
        if p.ends_with('.') {
            p.push('c');
        }
        let glob = globset::Glob::new(&g).unwrap();
        let single = glob.compile_matcher().is_match(&p);
        let set = glob_set(&[g.clone()]).is_match(&p);
        if single != set {
            rep.fail("oracle", None, "globset: GlobSet and GlobMatcher disagree".into(),
                json!({"op": "glob", "glob": g, "path": p}));
        }
        let req = format!("glob {} {}", h('g', &g), h('p', &p));
        rep.case(&req, g.contains('*') || g.contains('?'));
        rep.count(if set { "glob.match" } else { "glob.nomatch" });
        reqs.push(req);
        outs.push((if set { "1" } else { "0" }).to_string());
    }
    let model = run_model_named("gm_c11", &reqs, &rep.workdir, "globs");
    for i in 0..reqs.len() {
        if outs[i] != model[i] {
            rep.disagreements_checked += 1;
            rep.fail("disagreement", None, "globset differs from the Glob model".into(),
                json!({"op": "globop", "request": reqs[i], "impl": outs[i], "model": model[i]}));
        }
    }
}

fn covered_ops(rep: &mut Report, rng: &mut Rng) {
    let n = rep.budget(2_000, 10);
    let mut reqs = vec![];
    let mut outs = vec![];
    for _ in 0..n {
        let mut c = gen_cov(rng, 0);
        if rng.chance(1, 2) {
            c.lines.remove(&MARK);
        }
        let got = grcov::is_covered(&c);
        if got != spec_covered(&c) {
            rep.fail("oracle", None,
                "is_covered is not (some line hit and (at most one function or a non-top-level function executed))".into(),
                json!({"op": "covered", "cov": show_cov(&c)}));
        }
        let req = format!("covered {}", show_cov(&c));
        rep.case(&req, c.functions.len() > 1);
        rep.count(if got { "covered.yes" } else { "covered.no" });
        reqs.push(req);
        outs.push((if got { "1" } else { "0" }).to_string());
    }
    let model = run_model_named("gm_c11", &reqs, &rep.workdir, "covered");
    for i in 0..reqs.len() {
        if outs[i] != model[i] {
            rep.disagreements_checked += 1;
            rep.fail("disagreement", None, "is_covered differs from Rewrite.isCovered".into(),
                json!({"op": "coveredop", "request": reqs[i], "impl": outs[i], "model": model[i]}));
        }
    }
}

/// greedy shrinking: drop entries and options while `bad` keeps holding
fn shrink(case: &Case, bad: &dyn Fn(&Case) -> bool) -> Case {
    let mut cur = case.clone();
    let mut progress = true;
    let mut steps = 0;
    while progress && steps < 60 {
        progress = false;
        let mut cands: Vec<Case> = vec![];
        for i in 0..cur.entries.len() {
            if cur.entries.len() > 1 {
                let mut c = cur.clone();
                c.entries.remove(i);
                cands.push(c);
            }
        }
        let mut opts: Vec<Box<dyn Fn(&mut Cfg)>> = vec![
            Box::new(|c| c.ignore.clear()),
            Box::new(|c| c.keep.clear()),
            Box::new(|c| c.ine = false),
            Box::new(|c| c.filter = None),
            Box::new(|c| c.mapping = None),
            Box::new(|c| c.pd = None),
        ];
        for f in opts.drain(..) {
            let mut c = cur.clone();
            f(&mut c.cfg);
            if format!("{:?}", c.cfg) != format!("{:?}", cur.cfg) {
                cands.push(c);
            }
        }
        for c in cands {
            steps += 1;
            if bad(&c) {
                cur = c;
                progress = true;
                break;
            }
        }
    }
    cur
}

fn check_case(rep: &mut Report, t: &Tree, case: &Case, impl_out: &str, model_out: &str) {
    match c11_oracle(case) {
        Some((what, finding)) => {
            // shrink to a case that still fails the same way (same finding name, or still unnamed);
            // only the first few of a kind, the result file keeps at most 40 of them anyway
            let seen = rep.failures.iter().filter(|f| f.finding.as_deref() == finding).count();
            if seen >= 12 {
                rep.fail("oracle", finding, what, case.to_json("rewrite", t));
                return;
            }
            let small = shrink(case, &|c| matches!(c11_oracle(c), Some((_, f)) if f == finding));
            let what = c11_oracle(&small).map(|x| x.0).unwrap_or(what);
            rep.fail("oracle", finding, what, small.to_json("rewrite", t))
        }
        None => {
            if impl_out != model_out {
                rep.disagreements_checked += 1;
                let tt = t.clone();
                let wd = rep.workdir.clone();
                let few = rep.failures.iter().filter(|f| f.kind == "disagreement").count() < 12;
                let small = if !few { case.clone() } else { shrink(case, &|c| {
                    c11_oracle(c).is_none() && {
                        let req = request("rewrite", &tt, &c.cfg, &c.entries);
                        let m = run_model_named("gm_c11", &[req], &wd, "shrink");
                        m[0] != show_recs(&run_impl(&c.cfg, &c.entries))
                    }
                }) };
                let mut cj = small.to_json("rewrite", t);
                cj["impl"] = json!(show_recs(&run_impl(&small.cfg, &small.entries)));
                cj["model"] = json!(run_model_named("gm_c11", &[request("rewrite", t, &small.cfg, &small.entries)], &rep.workdir, "shrink")[0].clone());
                rep.fail("disagreement", None,
                    "rewrite_paths differs from Rewrite.rewritePaths (theorems C11_* no longer transfer)".into(), cj);
            }
        }
    }
}

fn rewrite_stream(rep: &mut Report, rng: &mut Rng) {
    let base = rep.workdir.join("fs");
    let n_trees = rep.budget(6, 4);
    let per_tree = rep.budget(450, 5) * 6 / n_trees;
    for ti in 0..n_trees {
        let t = build_tree(rng, &base, ti);
        std::env::set_current_dir(&t.cw).unwrap();
        let mut reqs = vec![];
        let mut outs = vec![];
        let mut cases = vec![];
        let mut stats: BTreeMap<String, u64> = BTreeMap::new();
        for _ in 0..per_tree {
            let case = gen_case(rng, &t, true, &mut stats);
            let r = run_impl(&case.cfg, &case.entries);
            let out = show_recs(&r);
            let req = request("rewrite", &t, &case.cfg, &case.entries);
            let c = &case.cfg;
            rep.count(&format!("cfg.source_dir={}", match &c.sd { None => "none", Some(s) if *s == t.src => "tree", Some(s) if !s.starts_with('/') => "relative", _ => "nonexistent" }));
            rep.count(&format!("cfg.prefix_dir={}", match &c.pd { None => "none", Some(p) if Some(p) == c.sd.as_ref() => "=source", _ => "other" }));
            if c.mapping.is_some() { rep.count("cfg.mapping"); }
            if !c.ignore.is_empty() { rep.count("cfg.ignore"); }
            if !c.keep.is_empty() { rep.count("cfg.keep"); }
            if c.ine { rep.count("cfg.ignore_not_existing"); }
            rep.count(&format!("cfg.filter={:?}", c.filter));
            if !t.rel_links.is_empty() {
                rep.count("symlink.case_on_linked_tree");
                let names: Vec<&str> = t.rel_links.iter().map(|(p, _)| p.rsplit('/').next().unwrap()).collect();
                for (k, _) in &case.entries {
                    if k.replace('\\', "/").split('/').any(|c| names.contains(&c)) {
                        rep.count("symlink.key_names_a_link");
                    }
                }
            }
            match &r {
                Err(_) => rep.count("out.panic"),
                Ok(v) => {
                    rep.count_n("out.reported", v.len() as u64);
                    rep.count_n("out.dropped", (case.entries.len() - v.len()) as u64);
                }
            }
            let nontrivial = case.entries.iter().any(|(k, _)| {
                k.contains("..") || k.contains("//") || k.contains('\\') || k.contains("/.") || k.starts_with('/')
            }) || !c.ignore.is_empty() || !c.keep.is_empty();
            rep.case(&req, nontrivial);
            reqs.push(req);
            outs.push(out);
            cases.push(case);
        }
        for (k, v) in stats {
            rep.count_n(&k, v);
        }
        // every (configured glob, rewritten path) pair of this tree: globset against the Glob model
        let mut greqs = vec![];
        let mut gouts = vec![];
        for case in &cases {
            if case.cfg.ignore.is_empty() && case.cfg.keep.is_empty() {
                continue;
            }
            if let Ok(neutral) = run_impl(&case.cfg.neutral(), &case.entries) {
                for g in case.cfg.ignore.iter().chain(case.cfg.keep.iter()) {
                    let set = glob_set(&[g.clone()]);
                    for (_, rel, _) in &neutral {
                        greqs.push(format!("glob {} {}", h('g', g), h('p', rel)));
                        gouts.push((if set.is_match(rel) { "1" } else { "0" }).to_string());
                    }
                }
            }
        }
        let gmodel = run_model_named("gm_c11", &greqs, &rep.workdir, &format!("rwglobs{}", ti));
        for i in 0..greqs.len() {
            rep.count(if gouts[i] == "1" { "rewrite.glob_pair.match" } else { "rewrite.glob_pair.nomatch" });
            if gouts[i] != gmodel[i] {
                rep.disagreements_checked += 1;
                rep.fail("disagreement", None, "globset differs from the Glob model on a (configured glob, rewritten path) pair".into(),
                    json!({"op": "globop", "request": greqs[i], "impl": gouts[i], "model": gmodel[i]}));
            }
        }
        let model = run_model_named("gm_c11", &reqs, &rep.workdir, &format!("rewrite{}", ti));
        for i in 0..reqs.len() {
            if i == 0 && ti < 2 {
                rep.sample(json!({"case": cases[i].to_json("rewrite", &t), "impl": outs[i], "model": model[i]}));
            }
            // the oracle runs on every case; the model is compared on every case
            check_case(rep, &t, &cases[i], &outs[i], &model[i]);
        }
    }
    std::env::set_current_dir("/verif").unwrap();
}

/// closed witnesses of Props/C11.lean replayed on the real code (the witnesses of the two former
/// findings C11-dotdot-not-relativised and C11-mapping-backslash are corpus cases with recorded
/// expectations, corpus/C11, replayed first; part Partial has its own in partial.rs)
fn witnesses(rep: &mut Report) {
    let base = rep.workdir.join("fs");
    let t = materialise(&base, 901, &["src".into(), "other".into(), "cw".into()], &["src/a.c".into()]);
    std::env::set_current_dir(&t.cw).unwrap();
    let cases = vec![
        // C11_relative_under_source_dir_false: a mapped value `foo\bar.c` below the source dir is
        // reported as (src/foo\bar.c, foo/bar.c)
        ("backslash_name", Case {
            cfg: Cfg { sd: Some(t.src.clone()), pd: None, mapping: Some(vec![("a.c".into(), "foo\\bar.c".into())]),
                ignore: vec![], keep: vec![], ine: false, filter: None },
            entries: vec![("a.c".to_string(), gen_cov(&mut Rng::new(1), 0))],
        }),
    ];
    for (name, case) in cases {
        let r = run_impl(&case.cfg, &case.entries);
        if let Ok(v) = &r {
            if v.len() == 1 && v[0].0 == format!("{}/foo\\bar.c", t.src) && v[0].1 == "foo/bar.c" {
                rep.count(&format!("witness.{}.reproduced_on_real_code", name));
            }
        }
        let out = show_recs(&r);
        let req = request("rewrite", &t, &case.cfg, &case.entries);
        let model = run_model_named("gm_c11", &[req.clone()], &rep.workdir, "witness");
        rep.case(&req, true);
        rep.count(&format!("witness.{}", name));
        check_case(rep, &t, &case, &out, &model[0]);
    }
    symlink_witnesses(rep);
    std::env::set_current_dir("/verif").unwrap();
}

/// Props.C11.C11_symlink_situations / C11_symlink_physical_false on the real code: the tree of
/// `symFS` (`/s` = <root>/src, `/o` = <root>/other, `/l` = <root>/srclink)
fn symlink_witnesses(rep: &mut Report) {
    let base = rep.workdir.join("fs");
    let s = |x: &[&str]| -> Vec<String> { x.iter().map(|y| y.to_string()).collect() };
    let mut t = materialise(&base, 903, &s(&["src", "other", "cw", "src/lib", "src/lib/sub"]),
        &s(&["other/a.c", "src/lib/u.c", "src/u.c"]));
    let links: Vec<(String, String)> = [
        ("src/out", "{root}/other"), ("other/in", "{root}/src/lib"), ("src/inc", "lib"), ("srclink", "{root}/src"),
        ("src/l.c", "u.c"), ("src/dang", "nowhere/x.c"), ("src/loop", "loop"), ("src/deep", "lib/sub"),
        ("src/c1", "c2"), ("src/c2", "lib/u.c"),
    ].iter().map(|(a, b)| (a.to_string(), b.to_string())).collect();
    add_links(&mut t, &links);
    std::env::set_current_dir(&t.cw).unwrap();
    let (src, other, lnk) = (t.src.clone(), t.other.clone(), format!("{}/srclink", t.root));
    let table: Vec<(&str, String, String, String, String)> = vec![
        ("link_out_of_source_dir", src.clone(), "out/a.c".into(), format!("{}/a.c", other), "out/a.c".into()),
        ("link_into_source_dir", src.clone(), format!("{}/in/u.c", other), format!("{}/lib/u.c", src), "lib/u.c".into()),
        ("dir_link_inside", src.clone(), "inc/u.c".into(), format!("{}/lib/u.c", src), "lib/u.c".into()),
        ("file_link_chain", src.clone(), "c1".into(), format!("{}/lib/u.c", src), "lib/u.c".into()),
        ("dotdot_after_link", src.clone(), "deep/../u.c".into(), format!("{}/lib/u.c", src), "lib/u.c".into()),
        ("dangling", src.clone(), "dang".into(), format!("{}/dang", src), "dang".into()),
        ("loop", src.clone(), "loop".into(), format!("{}/loop", src), "loop".into()),
        ("source_dir_is_link_relative_key", lnk.clone(), "u.c".into(), format!("{}/u.c", src), "u.c".into()),
        ("source_dir_is_link_absolute_key", lnk.clone(), format!("{}/u.c", lnk), format!("{}/u.c", src), format!("{}/u.c", src)),
        ("link_behind_missing_dir", src.clone(), "nx/../l.c".into(), format!("{}/l.c", src), "l.c".into()),
    ];
    for (name, sd, key, abs, rel) in table {
        let case = Case {
            cfg: Cfg { sd: Some(sd), pd: None, mapping: None, ignore: vec![], keep: vec![], ine: false, filter: None },
            entries: vec![(key, gen_cov(&mut Rng::new(3), 0))],
        };
        let r = run_impl(&case.cfg, &case.entries);
        rep.count(&format!("symlink.witness.{}", name));
        match &r {
            Ok(v) if v.len() == 1 && v[0].0 == abs && v[0].1 == rel => {
                rep.count(&format!("symlink.witness.{}.reproduced_on_real_code", name));
            }
            _ => rep.fail("disagreement", None,
                format!("symlink situation {} of Props/C11Symlink.lean no longer behaves as proved: {}", name, show_recs(&r)),
                case.to_json("rewrite", &t)),
        }
        let out = show_recs(&r);
        let req = request("rewrite", &t, &case.cfg, &case.entries);
        let model = run_model_named("gm_c11", &[req.clone()], &rep.workdir, "symwitness");
        rep.case(&req, true);
        check_case(rep, &t, &case, &out, &model[0]);
    }
}

/// one recorded rewrite case: oracle, model tie, and the recorded expectation when there is one
fn run_fixed(rep: &mut Report, case: &serde_json::Value) {
    let base = rep.workdir.join("fs");
    let t = tree_from_json(&base, &case["tree"]);
    std::env::set_current_dir(&t.cw).unwrap();
    let c = Case::from_json(case);
    let r = run_impl(&c.cfg, &c.entries);
    let out = show_recs(&r);
    let req = request("rewrite", &t, &c.cfg, &c.entries);
    let model = run_model_named("gm_c11", &[req.clone()], &rep.workdir, "fixed");
    rep.case(&req, true);
    if let Some(exp) = case["expect"].as_array() {
        let mut want: Vec<(String, String)> = exp
            .iter()
            .map(|e| (e[0].as_str().unwrap().to_string(), e[1].as_str().unwrap().to_string()))
            .collect();
        want.sort();
        let mut got: Vec<(String, String)> = match &r {
            Ok(v) => v.iter().map(|(a, r, _)| (a.clone(), r.clone())).collect(),
            Err(_) => vec![("panic".into(), "panic".into())],
        };
        got.sort();
        if got != want {
            rep.fail("oracle", None,
                format!("corpus case: reported (abs, rel) {:?}, recorded expectation {:?}", got, want), case.clone());
        }
    }
    check_case(rep, &t, &c, &out, &model[0]);
    std::env::set_current_dir("/verif").unwrap();
}

/// minimised past failures, replayed first
fn corpus(rep: &mut Report) {
    let mut files: Vec<_> = std::fs::read_dir("/verif/corpus/C11")
        .map(|d| d.filter_map(|e| e.ok()).map(|e| e.path()).collect())
        .unwrap_or_default();
    files.sort();
    for f in files {
        if f.extension().map(|e| e == "json").unwrap_or(false) {
            if let Ok(text) = std::fs::read_to_string(&f) {
                if let Ok(v) = serde_json::from_str::<serde_json::Value>(&text) {
                    rep.count("corpus.case");
                    run_fixed(rep, &v);
                }
            }
        }
    }
}

pub fn run(rep: &mut Report) {
    rep.rule = "trees root/{src,other,cw} of 4-9 files from a pool of 8 directory and 10 file names; keys = \
        a target (file under the source dir / outside it / under the cwd / missing / a directory) in a spelling \
        (relative, absolute, prefixed, ./, source-dir tail, ../outside) plus up to two mutations (//, backslash, \
        /./, name/../, trailing / or /., leading ../.., case of the first letter); configurations = all \
        combinations of source dir (tree, non-existing, none), prefix dir (none, = source dir, foreign, relative, \
        empty), path mapping, ignore / keep-only globs from a pool of 40, ignore-not-existing, filter; \
        non-trivial = some key is not already a plain relative path or a glob is configured; raw path-operation, \
        glob and is_covered cases are non-trivial when they contain . / .. / // segments, a wildcard, or two functions"
        .to_string();
    // corrlib's Rng::new is linear in the seed (seed+2 is the same stream two draws later): hash it first
    let mut rng = Rng::new(fnv64(&(rep.seed ^ 0xC11).to_le_bytes()));
    corpus(rep);
    witnesses(rep);
    path_ops(rep, &mut rng);
    glob_ops(rep, &mut rng);
    covered_ops(rep, &mut rng);
    rewrite_stream(rep, &mut rng);
    partial::run(rep);
    idem::run(rep);
    globsyntax::run(rep);
    filter::run(rep);
    cli::run(rep);
    rep.notes.push("Java/Kotlin keys (map_partial_path): see part Partial (src/partial.rs); in the streams above (exclusion markers: part Filter, src/filter.rs) keys whose first character is a cased non-ASCII letter are outside the generated domain; relative keys without source dir are resolved against the process cwd, which the harness sets to <tree>/cw".into());
}

pub fn replay(rep: &mut Report, case: &serde_json::Value) {
    match case["op"].as_str().unwrap_or("") {
        "rewrite" => run_fixed(rep, case),
        "norm" => {
            let p = case["path"].as_str().unwrap().to_string();
            let got = grcov::normalize_path(Path::new(&p)).map(|x| x.to_str().unwrap().to_string());
            rep.case(&p, true);
            if got.is_none() != spec_escapes(&p) || got != spec_normalize(&p) {
                rep.fail("oracle", None, "normalize_path differs from the lexical normal form".into(), case.clone());
            }
        }
        "covered" => {
            let c = parse_cov(case["cov"].as_str().unwrap());
            rep.case("covered", true);
            if grcov::is_covered(&c) != spec_covered(&c) {
                rep.fail("oracle", None, "is_covered rule".into(), case.clone());
            }
        }
        "pathop" | "globop" | "coveredop" => {
            // a recorded model/std disagreement: re-run the request
            let req = case["request"].as_str().unwrap().to_string();
            let model = run_model_named("gm_c11", &[req.clone()], &rep.workdir, "replay");
            rep.case(&req, true);
            if model[0] != case["impl"].as_str().unwrap_or("") {
                rep.fail("disagreement", None, "model differs from the recorded library answer".into(), case.clone());
            }
        }
        op if op.starts_with("c11.partial") => partial::replay(rep, case),
        op if op.starts_with("c11.idem") => idem::replay(rep, case),
        op if op.starts_with("c11.glob") => globsyntax::replay(rep, case),
        op if op.starts_with("c11.filter") => filter::replay(rep, case),
        "c11.cli" => rep.notes.push("c11.cli replays: re-run ./check C11 with the same seed (the options and keys are in the replay file)".into()),
        _ => {}
    }
}

fn main() {
    corrlib::run_main("C11", run, replay);
}
