//! C11, part Filter — `rewrite_paths` WITH a real `FileFilter` (second review, item 7).
//!
//! In the code the exclusion markers of a source file are applied to its record AFTER the
//! `--ignore` / `--keep-only` / `--ignore-not-existing` tests and BEFORE `--filter
//! covered|uncovered`; the reported record is the reduced one. This stream draws all of it at once:
//! source trees whose files carry marker lines (`XL` line, `XB`/`XE` region, `YL`, `YB`/`YE` the
//! branch variants; CRLF lines, no final newline, empty files, files that are not UTF-8), any
//! subset of the six `--excl-*` options, `--filter` in {none, covered, uncovered}, globs,
//! `--ignore-not-existing`, and records whose only hit lines are excluded (with one or several
//! functions: the class on which the order of the two steps, and the shape of `is_covered`, shows).
//!
//! * real code: `grcov::rewrite_paths(…, FileFilter::new(six regexes))`;
//! * model: `Cli.RunAll.rewritePathsF` (driver op `c11.filter.rewrite` of gm_c11; theorems
//!   `C11_selection_iff`, `C11_filter_status_markers`, `C11_covered_uncovered_partition_markers`,
//!   `C11_main_report_selection`);
//! * oracle, independent of both (never calls grcov's `FileFilter` / `is_covered`): the marker
//!   semantics restated declaratively on the file text, `spec_covered`, the globs through
//!   `globset`, the paths from the unfiltered, marker-free run.
use crate::pathgen::*;
use corrlib::*;
use grcov::{CovResult, Function};
use serde_json::{json, Value};
use std::collections::BTreeSet;
use std::path::Path;

const MARKS: [&str; 6] = ["XL", "XB", "XE", "YL", "YB", "YE"];
const LINES: &[&str] = &[
    "int x;", "y(); // XL", "// XB", "// XE", "z(); // YL", "// YB", "// YE", "w(); // XB XE", "// XE XB",
    "v(); // XL YL", "", "}", "// XB YB", "// XE YE", "u(); // XL\r", "// XB\r", "// XE\r",
];

#[derive(Clone)]
struct FTree {
    root: String,
    src: String,
    /// (path relative to root, content bytes)
    files: Vec<(String, Vec<u8>)>,
    dirs: Vec<String>,
}

fn gen_text(rng: &mut Rng) -> Vec<u8> {
    match rng.below(12) {
        0 => return vec![],
        1 => return vec![0xff, 0xfe, b'X', b'L', b'\n'], // not UTF-8: read_to_string fails
        _ => {}
    }
    let n = rng.range(3, 10);
    let mut s = String::new();
    for i in 0..n {
        s.push_str(*rng.pick(LINES));
        if i + 1 < n || rng.chance(3, 4) {
            s.push('\n');
        }
    }
    if rng.chance(1, 10) {
        s.push('\n'); // an empty last line
    }
    s.into_bytes()
}

fn build(rng: &mut Rng, base: &Path, idx: u64) -> FTree {
    let root = base.join(format!("f{}", idx));
    let _ = std::fs::remove_dir_all(&root);
    let dirs = ["src", "src/sub", "other", "cw"];
    for d in dirs {
        std::fs::create_dir_all(root.join(d)).unwrap();
    }
    let mut files = vec![];
    for f in ["src/a.c", "src/b.c", "src/sub/c.js", "src/sub/d.c", "src/e.h", "other/o.c", "cw/a.c"] {
        if rng.chance(5, 6) {
            let t = gen_text(rng);
            std::fs::write(root.join(f), &t).unwrap();
            files.push((f.to_string(), t));
        }
    }
    let root = std::fs::canonicalize(&root).unwrap().to_str().unwrap().to_string();
    FTree { src: format!("{}/src", root), root, files, dirs: dirs.iter().map(|d| d.to_string()).collect() }
}

impl FTree {
    fn as_tree(&self) -> Tree {
        Tree {
            idx: 0,
            root: self.root.clone(),
            src: self.src.clone(),
            other: format!("{}/other", self.root),
            cw: format!("{}/cw", self.root),
            rel_dirs: self.dirs.clone(),
            rel_files: self.files.iter().map(|f| f.0.clone()).collect(),
            rel_links: vec![],
            via_links: vec![],
        }
    }
    fn text_of(&self, abs: &str) -> Option<&Vec<u8>> {
        let p = abs.strip_prefix(&format!("{}/", self.root))?;
        self.files.iter().find(|f| f.0 == p).map(|f| &f.1)
    }
    fn to_json(&self) -> Value {
        json!({"files": self.files.iter().map(|f| json!([f.0, hex(&f.1)])).collect::<Vec<_>>()})
    }
}

/// the six `--excl-*` options: which are given (the regex of option i is the literal `MARKS[i]`)
type Excl = [bool; 6];

/// Independent restatement of the marker semantics. Returns (excluded lines, excluded branch
/// lines). A line is excluded iff it carries the line marker or lies in a line region: some line
/// s <= n matches the start marker and no line t with s < t <= n matches the stop marker (a region
/// starts ON its start line and ends BEFORE its stop line; a line with stop and start both keeps
/// or starts a region). Nothing at all when none of line/start/br-line/br-start is configured, or
/// when the file cannot be read as UTF-8 text.
fn spec_excluded(text: Option<&Vec<u8>>, ex: &Excl) -> (BTreeSet<u32>, BTreeSet<u32>) {
    let mut out = (BTreeSet::new(), BTreeSet::new());
    if !(ex[0] || ex[1] || ex[3] || ex[4]) {
        return out;
    }
    let Some(Ok(s)) = text.map(|t| String::from_utf8(t.clone())) else { return out };
    let body = s.strip_suffix('\n').unwrap_or(&s);
    let lines: Vec<&str> = body.split('\n').map(|l| l.strip_suffix('\r').unwrap_or(l)).collect();
    let has = |i: usize, m: usize| ex[m] && lines[i].contains(MARKS[m]);
    for n in 0..lines.len() {
        let in_region = |start: usize, stop: usize| (0..=n).any(|s| has(s, start) && (s + 1..=n).all(|t| !has(t, stop)));
        if has(n, 0) || in_region(1, 2) {
            out.0.insert(n as u32 + 1);
        }
        if has(n, 3) || in_region(4, 5) {
            out.1.insert(n as u32 + 1);
        }
    }
    out
}

/// what the markers leave of a record: an excluded line loses its line record; a line that is
/// excluded for lines AND for branches, or for branches only, loses its branch record (a line
/// excluded for lines only keeps its branches: `FilterType::Line`)
fn spec_apply(c: &CovResult, ex: &(BTreeSet<u32>, BTreeSet<u32>)) -> CovResult {
    let mut r = c.clone();
    r.lines.retain(|l, _| !ex.0.contains(l));
    r.branches.retain(|l, _| !ex.1.contains(l));
    r
}

#[derive(Clone)]
struct FCase {
    cfg: Cfg,
    excl: Excl,
    entries: Vec<(String, CovResult)>,
}

fn file_filter(ex: &Excl) -> grcov::FileFilter {
    let rx = |i: usize| if ex[i] { Some(regex::Regex::new(MARKS[i]).unwrap()) } else { None };
    grcov::FileFilter::new(rx(0), rx(1), rx(2), rx(3), rx(4), rx(5))
}

fn run_real(c: &FCase, with_markers: bool) -> Result<Recs, String> {
    let mut map = grcov::CovResultMap::default();
    for (k, v) in &c.entries {
        map.insert(k.clone(), v.clone());
    }
    let cfg = c.cfg.clone();
    let ex = if with_markers { c.excl } else { [false; 6] };
    guarded(move || {
        grcov::rewrite_paths(map, None, cfg.sd.as_deref().map(Path::new), cfg.pd.as_deref().map(Path::new),
            cfg.ine, &cfg.ignore[..], &cfg.keep[..], cfg.filter, file_filter(&ex))
            .into_iter()
            .map(|(a, r, c)| (a.to_str().unwrap().to_string(), r.to_str().unwrap().to_string(), c))
            .collect()
    })
}

fn frequest(t: &FTree, c: &FCase) -> String {
    let q = (0..6).map(|i| if c.excl[i] { hex(MARKS[i].as_bytes()) } else { "-".to_string() }).collect::<Vec<_>>().join(",");
    let texts: Vec<String> = t.files.iter()
        .filter(|f| String::from_utf8(f.1.clone()).is_ok())
        .map(|f| format!("{}={}", hex(format!("{}/{}", t.root, f.0).as_bytes()), hex(&f.1)))
        .collect();
    let tt = if texts.is_empty() { "T-".to_string() } else { format!("T{}", texts.join(",")) };
    let r = request("R", &t.as_tree(), &c.cfg, &c.entries);
    format!("c11.filter.rewrite Q{} {} {}", q, tt, &r[2..])
}

fn case_json(t: &FTree, c: &FCase) -> Value {
    json!({"op": "c11.filter", "tree": t.to_json(), "cfg": c.cfg.to_json(), "excl": c.excl.to_vec(),
           "entries": c.entries.iter().map(|(k, v)| json!([k, show_cov(v)])).collect::<Vec<_>>()})
}

fn gen_fcov(rng: &mut Rng, mark: u32, excluded: Option<&(BTreeSet<u32>, BTreeSet<u32>)>) -> CovResult {
    let mut c = CovResult::default();
    match excluded {
        // targeted: every hit line is an excluded line; other lines have count 0
        Some(ex) if !ex.0.is_empty() => {
            for l in ex.0.iter().take(3) {
                c.lines.insert(*l, *rng.pick(&[1u64, 5, u64::MAX]));
            }
            for _ in 0..rng.below(3) {
                let l = rng.range(1, 12) as u32;
                c.lines.entry(l).or_insert(0);
            }
        }
        _ => {
            for _ in 0..rng.below(5) {
                c.lines.insert(rng.range(1, 12) as u32, *rng.pick(&[0u64, 0, 1, 5]));
            }
        }
    }
    for _ in 0..rng.below(3) {
        c.branches.insert(rng.range(1, 12) as u32, vec![rng.chance(1, 2), rng.chance(1, 2)]);
    }
    let nf = *rng.pick(&[0u64, 1, 2, 2, 3]);
    for n in ["f", "top-level", "g"].iter().take(nf as usize) {
        c.functions.insert(n.to_string(), Function { start: rng.range(1, 9) as u32, executed: rng.chance(2, 3) });
    }
    c.lines.insert(MARK + mark, 0);
    c
}

fn gen_fcase(rng: &mut Rng, t: &FTree, rep: &mut Report) -> FCase {
    let mut excl = [false; 6];
    if rng.chance(4, 5) {
        for e in excl.iter_mut() {
            *e = rng.chance(1, 2);
        }
    }
    let sd = match rng.below(8) {
        0 => None,
        _ => Some(t.src.clone()),
    };
    let pd = match rng.below(4) {
        0 => None,
        1 => Some(t.root.clone()),
        _ => sd.clone(),
    };
    let mut cfg = Cfg { sd, pd, mapping: None, ignore: vec![], keep: vec![], ine: rng.chance(1, 4), filter: *rng.pick(&[None, Some(true), Some(true), Some(false), Some(false)]) };
    if rng.chance(1, 4) {
        cfg.ignore.push(rng.pick(&["*.js", "sub/*", "**/a.c", "*.h"]).to_string());
    }
    if rng.chance(1, 5) {
        cfg.keep.push(rng.pick(&["*.c", "sub/**", "**/*.js"]).to_string());
    }
    let names = ["a.c", "b.c", "sub/c.js", "sub/d.c", "e.h", "nx.c", "sub/nx.c"];
    let mut entries: Vec<(String, CovResult)> = vec![];
    for i in 0..rng.range(1, 5) {
        let f = *rng.pick(&names);
        let key = match rng.below(6) {
            0 => format!("{}/{}", t.src, f),
            1 => format!("./{}", f),
            2 => format!("{}/other/o.c", t.root),
            3 => f.replace('/', "\\"),
            _ => f.to_string(),
        };
        if entries.iter().any(|e| e.0 == key) {
            continue;
        }
        // the file the key will (most likely) resolve to, for the targeted records
        let text = t.text_of(&format!("{}/{}", t.src, f));
        let ex = spec_excluded(text, &excl);
        let targeted = rng.chance(1, 2);
        let c = gen_fcov(rng, i as u32, if targeted { Some(&ex) } else { None });
        if targeted && !ex.0.is_empty() {
            rep.count("filter.record.only_hit_lines_are_excluded");
            if c.functions.len() >= 2 && c.functions.iter().any(|(n, f)| f.executed && n != "top-level") {
                rep.count("filter.record.only_hit_lines_are_excluded.2+_functions_one_executed");
            }
        }
        entries.push((key, c));
    }
    FCase { cfg, excl, entries }
}

/// The property, evaluated on the implementation's outputs with the independent restatements:
/// `Some(what)` = the first failing clause.
fn oracle(t: &FTree, c: &FCase) -> Option<String> {
    let reported = run_real(c, true).ok()?;
    let mut neutral_case = c.clone();
    neutral_case.cfg = c.cfg.neutral();
    let neutral = match run_real(&neutral_case, false) {
        Ok(r) => r,
        Err(p) => return Some(format!("the unfiltered, marker-free run panics but the configured one does not: {}", p)),
    };
    let ig = glob_set(&c.cfg.ignore);
    let kp = glob_set(&c.cfg.keep);
    let mut want: Recs = vec![];
    for (abs, rel, cov) in &neutral {
        if ig.is_match(rel) || (!c.cfg.keep.is_empty() && !kp.is_match(rel)) || (c.cfg.ine && !Path::new(abs).exists()) {
            continue;
        }
        let reduced = spec_apply(cov, &spec_excluded(t.text_of(abs), &c.excl));
        let ok = match c.cfg.filter {
            None => true,
            Some(true) => spec_covered(&reduced),
            Some(false) => !spec_covered(&reduced),
        };
        if ok {
            want.push((abs.clone(), rel.clone(), reduced));
        }
    }
    let ms = |r: &Recs| {
        let mut v: Vec<String> = r.iter().map(|(a, r, c)| format!("{} {} {}", a, r, show_cov(c))).collect();
        v.sort();
        v
    };
    if ms(&want) != ms(&reported) {
        // say which clause: status or data
        for (a, r, cv) in &reported {
            if let Some(w) = want.iter().find(|w| w.0 == *a && w.1 == *r && marker(&w.2) == marker(cv)) {
                if w.2 != *cv {
                    return Some(format!("{}: the reported record is not what the exclusion markers of that file leave of the input record", r));
                }
            } else if let Some(true) = c.cfg.filter {
                if !spec_covered(cv) {
                    return Some(format!("{} is in the `--filter covered` report but, after the exclusion markers, no line of it is hit (or none of its several functions but top-level is executed)", r));
                }
            } else if let Some(false) = c.cfg.filter {
                if spec_covered(cv) {
                    return Some(format!("{} is in the `--filter uncovered` report but is covered after the exclusion markers", r));
                }
            }
        }
        return Some("selection: the reported set differs from {unfiltered records : no ignore glob, some keep glob, exists, status of what the markers leave}, each with the data the markers leave".into());
    }
    // covered / uncovered partition of the marker-reduced, otherwise unfiltered report
    if c.cfg.filter.is_some() {
        let mut a = c.clone();
        a.cfg.filter = Some(true);
        let mut b = c.clone();
        b.cfg.filter = Some(false);
        let mut n = c.clone();
        n.cfg.filter = None;
        if let (Ok(ra), Ok(rb), Ok(rn)) = (run_real(&a, true), run_real(&b, true), run_real(&n, true)) {
            let mut u = ra.clone();
            u.extend(rb.iter().cloned());
            if ms(&u) != ms(&rn) {
                return Some("--filter covered and --filter uncovered do not partition the report (exclusion markers on)".into());
            }
        }
    }
    None
}

fn shrink(t: &FTree, c: &FCase, bad: &dyn Fn(&FCase) -> bool) -> FCase {
    let _ = t;
    let mut cur = c.clone();
    let mut progress = true;
    while progress {
        progress = false;
        let mut cands: Vec<FCase> = vec![];
        for i in 0..cur.entries.len() {
            if cur.entries.len() > 1 {
                let mut x = cur.clone();
                x.entries.remove(i);
                cands.push(x);
            }
        }
        for i in 0..6 {
            if cur.excl[i] {
                let mut x = cur.clone();
                x.excl[i] = false;
                cands.push(x);
            }
        }
        for f in [|c: &mut Cfg| c.ignore.clear(), |c: &mut Cfg| c.keep.clear(), |c: &mut Cfg| c.ine = false, |c: &mut Cfg| c.pd = None] {
            let mut x = cur.clone();
            f(&mut x.cfg);
            if format!("{:?}", x.cfg) != format!("{:?}", cur.cfg) {
                cands.push(x);
            }
        }
        for x in cands {
            if bad(&x) {
                cur = x;
                progress = true;
                break;
            }
        }
    }
    cur
}

fn check(rep: &mut Report, t: &FTree, c: &FCase, impl_out: &str, model_out: &str) {
    if let Some(what) = oracle(t, c) {
        let few = rep.failures.len() < 10;
        let small = if few { shrink(t, c, &|x| oracle(t, x).is_some()) } else { c.clone() };
        let what = oracle(t, &small).unwrap_or(what);
        rep.fail("oracle", None, format!("c11.filter: {}", what), case_json(t, &small));
    } else if impl_out != model_out {
        rep.disagreements_checked += 1;
        let mut cj = case_json(t, c);
        cj["impl"] = json!(impl_out);
        cj["model"] = json!(model_out);
        rep.fail("disagreement", None,
            "rewrite_paths with a FileFilter differs from Cli.RunAll.rewritePathsF (theorems C11_selection_iff / C11_filter_status_markers / C11_main_report_selection no longer transfer)".into(), cj);
    }
}

pub fn run(rep: &mut Report) {
    rep.rule.push_str(" | filter: trees root/{src,src/sub,other,cw} of up to 7 files whose lines carry the six marker \
        literals (CRLF, missing final newline, empty and non-UTF-8 files); cases = a subset of the six --excl-* options, \
        --filter none/covered/uncovered, optional globs / --ignore-not-existing / prefix, 1-4 keys (relative, absolute, \
        ./, backslash, outside the source dir, missing), records with 0-3 functions, half of them with hits on excluded \
        lines only; non-trivial = some --excl-* option and a --filter are both set");
    let mut rng = Rng::new(fnv64(&(rep.seed ^ 0xC11_F117).to_le_bytes()));
    let base = rep.workdir.join("ffs");
    let n_trees = rep.budget(4, 3);
    let per_tree = rep.budget(600, 5) / n_trees.max(1);
    for ti in 0..n_trees {
        let t = build(&mut rng, &base, ti);
        std::env::set_current_dir(format!("{}/cw", t.root)).unwrap();
        let mut cases = vec![];
        let mut reqs = vec![];
        let mut outs = vec![];
        for _ in 0..per_tree {
            let c = gen_fcase(&mut rng, &t, rep);
            let r = run_real(&c, true);
            let any_excl = c.excl.iter().any(|b| *b);
            rep.count(&format!("filter.cfg.filter={:?}", c.cfg.filter));
            rep.count(if any_excl { "filter.cfg.some_excl_option" } else { "filter.cfg.no_excl_option" });
            if let Ok(v) = &r {
                rep.count_n("filter.out.reported", v.len() as u64);
                rep.count_n("filter.out.dropped", (c.entries.len() - v.len()) as u64);
                // how often the markers decide: the status of the raw record differs from that of the reduced one
                for (_, _, cv) in v {
                    if let Some(e) = c.entries.iter().find(|e| marker(&e.1) == marker(cv)) {
                        if e.1 != *cv {
                            rep.count("filter.out.record_reduced_by_markers");
                        }
                        if spec_covered(&e.1) != spec_covered(cv) {
                            rep.count("filter.out.markers_changed_the_status");
                        }
                    }
                }
            } else {
                rep.count("filter.out.panic");
            }
            let req = frequest(&t, &c);
            rep.case(&req, any_excl && c.cfg.filter.is_some());
            reqs.push(req);
            outs.push(show_recs(&r));
            cases.push(c);
        }
        let model = run_model_named("gm_c11", &reqs, &rep.workdir, &format!("filter{}", ti));
        for i in 0..reqs.len() {
            if i == 0 && ti == 0 {
                rep.sample(json!({"case": case_json(&t, &cases[i]), "impl": outs[i], "model": model[i]}));
            }
            check(rep, &t, &cases[i], &outs[i], &model[i]);
        }
    }
    witness(rep, &base);
    std::env::set_current_dir("/verif").unwrap();
}

/// Props.C11.C11_markers_before_filter_witness on the real code: `a.c` = `DA:1,5`, `DA:2,0`, line 1
/// carries the `--excl-line` marker
fn witness(rep: &mut Report, base: &Path) {
    let root = base.join("w");
    let _ = std::fs::remove_dir_all(&root);
    std::fs::create_dir_all(root.join("src")).unwrap();
    std::fs::create_dir_all(root.join("cw")).unwrap();
    let text = b"x(); // XL\ny();\n".to_vec();
    std::fs::write(root.join("src/a.c"), &text).unwrap();
    let root = std::fs::canonicalize(&root).unwrap().to_str().unwrap().to_string();
    let t = FTree { src: format!("{}/src", root), root, files: vec![("src/a.c".into(), text)], dirs: vec!["src".into(), "cw".into()] };
    std::env::set_current_dir(format!("{}/cw", t.root)).unwrap();
    let mut cov = CovResult::default();
    cov.lines.insert(1, 5);
    cov.lines.insert(2, 0);
    for (filter, want) in [(Some(true), 0usize), (Some(false), 1)] {
        let c = FCase {
            cfg: Cfg { sd: Some(t.src.clone()), pd: Some(t.src.clone()), mapping: None, ignore: vec![], keep: vec![], ine: false, filter },
            excl: [true, false, false, false, false, false],
            entries: vec![("a.c".into(), cov.clone())],
        };
        let r = run_real(&c, true);
        let req = frequest(&t, &c);
        rep.case(&req, true);
        rep.count("filter.witness");
        match &r {
            Ok(v) if v.len() == want && v.iter().all(|x| x.2.lines.len() == 1) => rep.count("filter.witness.reproduced_on_real_code"),
            _ => rep.fail("oracle", None, format!("c11.filter: C11_markers_before_filter_witness no longer behaves as proved ({:?}): {}", filter, show_recs(&r)), case_json(&t, &c)),
        }
        let model = run_model_named("gm_c11", &[req], &rep.workdir, "filterwitness");
        check(rep, &t, &c, &show_recs(&r), &model[0]);
    }
}

pub fn replay(rep: &mut Report, case: &Value) {
    let base = rep.workdir.join("ffs");
    let root = base.join("replay");
    let _ = std::fs::remove_dir_all(&root);
    let dirs = ["src", "src/sub", "other", "cw"];
    for d in dirs {
        std::fs::create_dir_all(root.join(d)).unwrap();
    }
    let mut files = vec![];
    for f in case["tree"]["files"].as_array().cloned().unwrap_or_default() {
        let (p, b) = (f[0].as_str().unwrap().to_string(), unhex(f[1].as_str().unwrap()));
        std::fs::write(root.join(&p), &b).unwrap();
        files.push((p, b));
    }
    let root = std::fs::canonicalize(&root).unwrap().to_str().unwrap().to_string();
    let old_root = case["cfg"]["sd"].as_str().and_then(|s| s.strip_suffix("/src")).unwrap_or("").to_string();
    let reroot = |s: &str| if !old_root.is_empty() { s.replace(&old_root, &root) } else { s.to_string() };
    let t = FTree { src: format!("{}/src", root), root: root.clone(), files, dirs: dirs.iter().map(|d| d.to_string()).collect() };
    std::env::set_current_dir(format!("{}/cw", t.root)).unwrap();
    let mut cfg = Cfg::from_json(&case["cfg"]);
    cfg.sd = cfg.sd.map(|s| reroot(&s));
    cfg.pd = cfg.pd.map(|s| reroot(&s));
    let mut excl = [false; 6];
    for (i, b) in case["excl"].as_array().cloned().unwrap_or_default().iter().enumerate().take(6) {
        excl[i] = b.as_bool().unwrap_or(false);
    }
    let entries = case["entries"].as_array().cloned().unwrap_or_default().iter()
        .map(|e| (reroot(e[0].as_str().unwrap()), parse_cov(e[1].as_str().unwrap()))).collect();
    let c = FCase { cfg, excl, entries };
    let r = run_real(&c, true);
    let req = frequest(&t, &c);
    rep.case(&req, true);
    let model = run_model_named("gm_c11", &[req], &rep.workdir, "filterreplay");
    check(rep, &t, &c, &show_recs(&r), &model[0]);
    std::env::set_current_dir("/verif").unwrap();
}
